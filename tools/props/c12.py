"""C12 — every documented math function is accepted and computes its namesake.

Model: lean/FaxVerif/C12/Model.lean (table lookup, name resolution, call/arithmetic emission, meanings).
Tie T: `translate` regenerates lean/FaxVerif/Generated/C12Table.lean from the *current* source on every run
        (add_function_mapping rows, README function list, _type_priority, operator tables, the eval scope of
        find_known_functions.visit_Call); the table theorems are re-proved by `lake build`.
Tie K: the real find_known_functions on a pool of names; the real pipeline (apply_ast_transformations +
        write_cpp_files, three backends) on every row standalone and inside arithmetic; the model's text, type and
        include files are compared with what the generated C++ contains.
Oracles on the implementation's output: (1) `SpecRow` on every row of the live `functions_to_replace`; (2) `SpecEmit`
        on the emitted text (parsed by the Lean side); (3) g++: the emitted expressions are compiled against a tiny
        stand-in for the loop variable, with exactly the include files the translator added, evaluated at sample
        points and compared with the function of that name (python's math / the C definitions); (4) `PlacementSpec` and
        `AliveSpec` on the per-event method rendered for the call at every kind of position, on event-level operands
        (First / Sum / Count) and after a re-translation of the same query object; (5) g++ again: the rendered per-event
        method itself, compiled against a mock event model and run over mock events, every filled row compared.
"""
from __future__ import annotations

import ast
import builtins
import json
import math
import os
import re
import shutil
import subprocess
import sys
import tempfile
from fractions import Fraction
from pathlib import Path
from typing import Any, Dict, List, Optional, Tuple

import vlib
from vlib import lean_list, lean_str

ID = "C12"
OWN_LEANCHECKER = True  # this module runs leanchecker itself in the thorough tier
LEAN_MODULES = ["FaxVerif.C12.Theorems", "FaxVerif.C12.PosTheorems", "FaxVerif.C12.PosAccepted"]
LEAN_SOURCES = ["FaxVerif/C12", "FaxVerif/Generated/C12Table.lean"]  # FaxVerif/C12 holds PosModel / PosSpec / PosTheorems too
DRIVER = "FaxVerif/C12/Driver.lean"
GENERATED = vlib.LEAN / "FaxVerif" / "Generated" / "C12Table.lean"

# --------------------------------------------------------------------------------------------
# tie T: the translator
# --------------------------------------------------------------------------------------------

SRC_FUNCS = "func_adl_xAOD/common/cpp_functions.py"
SRC_UTILS = "func_adl_xAOD/common/utils.py"
SRC_TRANS = "func_adl_xAOD/common/ast_to_cpp_translator.py"
SRC_README = "README.md"


def _lit_str(n: ast.AST) -> Optional[str]:
    return n.value if isinstance(n, ast.Constant) and type(n.value) is str else None


def read_rows(src: str) -> Tuple[List[Dict[str, Any]], List[str]]:
    """Every `add_function_mapping(...)` call of cpp_functions.py, in source order.

    Returns (rows, unrecognised).  A row is recognised iff the call is a module-level expression
    statement whose four arguments are literals (str, str, str | [str…], str).  Anything else that
    touches the table (a call in a loop/function, computed arguments, a direct write to
    `functions_to_replace`) is returned as `unrecognised` text."""
    tree = ast.parse(src)
    rows: List[Dict[str, Any]] = []
    bad: List[str] = []
    top_calls = set()
    for st in tree.body:
        if isinstance(st, ast.Expr) and isinstance(st.value, ast.Call) and isinstance(st.value.func, ast.Name) and st.value.func.id == "add_function_mapping":
            top_calls.add(id(st.value))
            c = st.value
            names = ["python_name", "cpp_name", "include_files", "return_type"]
            vals: Dict[str, ast.AST] = {}
            ok = len(c.args) <= 4
            for n, a in zip(names, c.args):
                vals[n] = a
            for kw in c.keywords:
                if kw.arg in names and kw.arg not in vals:
                    vals[kw.arg] = kw.value
                else:
                    ok = False
            if not ok or set(vals) != set(names):
                bad.append(ast.unparse(c))
                continue
            py, cpp, ret = _lit_str(vals["python_name"]), _lit_str(vals["cpp_name"]), _lit_str(vals["return_type"])
            inc_node = vals["include_files"]
            if _lit_str(inc_node) is not None:
                incs: Optional[List[str]] = [_lit_str(inc_node)]  # type: ignore
            elif isinstance(inc_node, ast.List) and all(_lit_str(e) is not None for e in inc_node.elts):
                incs = [_lit_str(e) for e in inc_node.elts]  # type: ignore
            else:
                incs = None
            if py is None or cpp is None or ret is None or incs is None:
                bad.append(ast.unparse(c))
                continue
            rows.append({"py": py, "cpp": cpp, "includes": incs, "ret": ret, "line": c.lineno})
    # anything else that can change the table
    fdef = next((s for s in tree.body if isinstance(s, ast.FunctionDef) and s.name == "add_function_mapping"), None)
    inside_def = {id(n) for n in ast.walk(fdef)} if fdef is not None else set()
    if fdef is None:
        bad.append("no module-level def add_function_mapping")
    for n in ast.walk(tree):
        if id(n) in inside_def:
            continue
        if isinstance(n, ast.Call) and isinstance(n.func, ast.Name) and n.func.id == "add_function_mapping" and id(n) not in top_calls:
            bad.append(ast.unparse(n))
        if isinstance(n, (ast.Subscript, ast.Attribute)) and isinstance(n.value, ast.Name) and n.value.id == "functions_to_replace":
            if isinstance(n, ast.Subscript) and isinstance(n.ctx, (ast.Store, ast.Del)):
                bad.append(ast.unparse(n))
            if isinstance(n, ast.Attribute) and n.attr in ("update", "pop", "popitem", "clear", "setdefault", "__setitem__", "__delitem__"):
                bad.append(ast.unparse(n))
    # (what add_function_mapping does with its arguments is not read here: the rows are compared with
    #  functions_to_replace as it is at run time, see check_table)
    return rows, bad


def read_readme(text: str) -> Tuple[List[str], List[str]]:
    """The function list of the `### Math` section: the bullet that starts 'Math functions'."""
    m = re.search(r"^### Math\s*$(.*?)(?=^#{1,3} |\Z)", text, re.S | re.M)
    if not m:
        return [], ["README: no '### Math' section"]
    bullets = [b for b in re.split(r"^\s*[-*] ", m.group(1), flags=re.M) if b.strip().startswith("Math functions")]
    if len(bullets) != 1:
        return [], [f"README Math section: {len(bullets)} bullets start with 'Math functions'"]
    b = re.sub(r"\[[^\]]*\]\([^)]*\)", " ", bullets[0])  # drop the markdown link (its text has back-quotes too)
    names = re.findall(r"`([^`]+)`", b)
    bad = [f"README function name {n!r}" for n in names if not re.fullmatch(r"[A-Za-z_][A-Za-z_0-9]*", n)]
    if not names:
        bad.append("README Math functions bullet lists no names")
    return [n for n in names if re.fullmatch(r"[A-Za-z_][A-Za-z_0-9]*", n)], bad


def _module_dict(src: str, name: str) -> Optional[ast.Dict]:
    for st in ast.parse(src).body:
        if isinstance(st, ast.AnnAssign) and isinstance(st.target, ast.Name) and st.target.id == name and isinstance(st.value, ast.Dict):
            return st.value
        if isinstance(st, ast.Assign) and len(st.targets) == 1 and isinstance(st.targets[0], ast.Name) and st.targets[0].id == name and isinstance(st.value, ast.Dict):
            return st.value
    return None


def read_priority(src: str) -> Tuple[List[Tuple[str, int]], List[str]]:
    d = _module_dict(src, "_type_priority")
    if d is None:
        return [], ["utils.py: no literal dict _type_priority"]
    out, bad = [], []
    for k, v in zip(d.keys, d.values):
        if k is not None and _lit_str(k) is not None and isinstance(v, ast.Constant) and type(v.value) is int and v.value >= 0:
            out.append((_lit_str(k), v.value))
        else:
            bad.append("utils.py _type_priority entry " + (ast.unparse(k) if k is not None else "**") + ": " + ast.unparse(v))
    return out, bad  # type: ignore


def read_ops(src: str, name: str) -> Tuple[List[Tuple[str, str]], List[str]]:
    d = _module_dict(src, name)
    if d is None:
        return [], [f"ast_to_cpp_translator.py: no literal dict {name}"]
    out, bad = [], []
    for k, v in zip(d.keys, d.values):
        if isinstance(k, ast.Attribute) and isinstance(k.value, ast.Name) and k.value.id == "ast" and _lit_str(v) is not None:
            out.append((k.attr, _lit_str(v)))
        else:
            bad.append(f"{name} entry " + (ast.unparse(k) if k is not None else "**") + ": " + ast.unparse(v))
    return out, bad  # type: ignore


def read_seq_ops(src: str) -> Tuple[List[str], List[str]]:
    """the names FuncADLNodeVisitor.visit_Call dispatches on: the `call_<name>` methods of query_ast_visitor"""
    for cls in [s for s in ast.parse(src).body if isinstance(s, ast.ClassDef) and s.name == "query_ast_visitor"]:
        return [fn.name[5:] for fn in cls.body if isinstance(fn, ast.FunctionDef) and fn.name.startswith("call_")], []
    return [], ["ast_to_cpp_translator.py: no class query_ast_visitor"]


def read_gen_names(src: str) -> Tuple[Dict[str, str], List[str]]:
    """the base names the translator hands to unique_name for the result of a conditional, of and / or, and for an accumulator"""
    want = {"ifName": "visit_IfExp", "boolName": "visit_BoolOp", "accName": "_create_accumulator"}
    out: Dict[str, str] = {}
    bad: List[str] = []
    for cls in [s for s in ast.parse(src).body if isinstance(s, ast.ClassDef) and s.name == "query_ast_visitor"]:
        for key, fname in want.items():
            lits = [_lit_str(c.args[0]) for fn in cls.body if isinstance(fn, ast.FunctionDef) and fn.name == fname for c in ast.walk(fn)
                    if isinstance(c, ast.Call) and isinstance(c.func, ast.Name) and c.func.id == "unique_name" and len(c.args) == 1]
            if len(lits) == 1 and lits[0] is not None and re.fullmatch(r"[A-Za-z_]\w*", lits[0]):
                out[key] = lits[0]
            else:
                bad.append(f"ast_to_cpp_translator.py {fname}: expected exactly one unique_name(<literal>) call, found {lits!r}")
                out[key] = "unrecognised"
    for key in want:
        if key not in out:
            bad.append("ast_to_cpp_translator.py: no class query_ast_visitor")
            out[key] = "unrecognised"
    return out, bad


def eval_scope(src: str) -> Tuple[List[str], List[str]]:
    """Names that are *local* at the `eval(node.func.id)` of find_known_functions.visit_Call when it runs
    (the parameters of the method)."""
    tree = ast.parse(src)
    for cls in [s for s in tree.body if isinstance(s, ast.ClassDef) and s.name == "find_known_functions"]:
        for fn in [s for s in cls.body if isinstance(s, ast.FunctionDef) and s.name == "visit_Call"]:
            return [a.arg for a in fn.args.posonlyargs + fn.args.args + fn.args.kwonlyargs], []
    return [], ["cpp_functions.py: no find_known_functions.visit_Call"]


def binding_of(name: str, locals_: List[str], module_ns: Dict[str, Any]) -> Tuple[str, Optional[str]]:
    """What `eval(name)` finds in visit_Call's scope and what `.__module__` gives:
    ('unbound', None) | ('module', m) | ('nomodule', None).  Local parameters are an instance of the
    transformer class (`self`) and an `ast.Call` (`node`)."""
    if name in locals_:
        if locals_.index(name) == 0:
            return ("module", module_ns.get("__name__", "func_adl_xAOD.common.cpp_functions"))
        return ("module", "ast")
    if name in module_ns:
        obj = module_ns[name]
    elif hasattr(builtins, name):
        obj = getattr(builtins, name)
    else:
        return ("unbound", None)
    try:
        m = obj.__module__
    except AttributeError:
        return ("nomodule", None)
    return ("module", str(m))


def lean_binding(b: Tuple[str, Optional[str]]) -> str:
    if b[0] == "unbound":
        return ".unbound"
    if b[0] == "nomodule":
        return ".noModuleAttr"
    return f".inModule {lean_str(b[1] or '')}"


def live_module():
    import func_adl_xAOD.common.cpp_functions as m

    return m


def read_all() -> Dict[str, Any]:
    src_f = (vlib.REPO / SRC_FUNCS).read_text()
    rows, bad = read_rows(src_f)
    readme, bad2 = read_readme((vlib.REPO / SRC_README).read_text())
    prio, bad3 = read_priority((vlib.REPO / SRC_UTILS).read_text())
    src_t = (vlib.REPO / SRC_TRANS).read_text()
    binops, bad4 = read_ops(src_t, "_known_binary_operators")
    unops, bad5 = read_ops(src_t, "_known_unary_operators")
    locals_, bad6 = eval_scope(src_f)
    cmpops, bad7 = read_ops(src_t, "compare_operations")
    seqops, bad8 = read_seq_ops(src_t)
    gennames, bad9 = read_gen_names(src_t)
    ns = vars(live_module())
    # names whose resolution can matter to a lookup: the documented names, the bare keys and the last
    # component of the dotted keys; plus everything bound in the scope of the eval (parameters, module
    # globals, builtins) that has no `__module__` (the resolver raises on those).  For any other name
    # neither `name` nor `<module>.name` can be a key, whatever it is bound to.
    interest: List[str] = []
    for n in readme + [r["py"].split(".")[-1] for r in rows] + locals_ + [k for k in ns if not k.startswith("__")]:
        if re.fullmatch(r"[A-Za-z_][A-Za-z_0-9]*", n) and n not in interest:
            interest.append(n)
    env = [(n, binding_of(n, locals_, ns)) for n in interest]
    for k in dir(builtins):
        if re.fullmatch(r"[A-Za-z_][A-Za-z_0-9]*", k) and not k.startswith("__") and k not in interest:
            b = binding_of(k, locals_, ns)
            if b[0] == "nomodule":
                env.append((k, b))
    env = [(n, b) for n, b in env if b[0] != "unbound"]
    return {"rows": rows, "readme": readme, "prio": prio, "binops": binops, "unops": unops, "env": env, "locals": locals_,
            "cmpops": cmpops, "seqops": seqops, "gennames": gennames,
            "unrecognised": bad + bad2 + bad3 + bad4 + bad5 + bad6 + bad7 + bad8 + bad9}


def render_generated(g: Dict[str, Any]) -> str:
    L = ["/- GENERATED by tools/props/c12.py from /repo on every run — do not edit.",
         f"   sources: {SRC_FUNCS}, {SRC_README}, {SRC_UTILS}, {SRC_TRANS} -/",
         "import FaxVerif.C12.Model", "namespace FaxVerif.C12.Gen", "open FaxVerif.C12", "",
         "/-- the `add_function_mapping` rows in source order -/", "def table : List Row := ["]
    L.append(",\n".join(f"  ⟨{lean_str(r['py'])}, {lean_str(r['cpp'])}, {lean_list(lean_str(i) for i in r['includes'])}, {lean_str(r['ret'])}⟩" for r in g["rows"]))
    L += ["]", "", "/-- README.md, section Math: the documented function names -/",
          "def readmeFunctions : List String := " + lean_list(lean_str(n) for n in g["readme"]), "",
          "/-- common/utils.py `_type_priority` -/",
          "def typePriority : List (String × Nat) := " + lean_list(f"({lean_str(k)}, {v})" for k, v in g["prio"]), "",
          "/-- `_known_binary_operators` / `_known_unary_operators`: python ast class ↦ C++ symbol -/",
          "def binOps : List (String × String) := " + lean_list(f"({lean_str(k)}, {lean_str(v)})" for k, v in g["binops"]),
          "def unOps : List (String × String) := " + lean_list(f"({lean_str(k)}, {lean_str(v)})" for k, v in g["unops"]),
          "/-- `compare_operations` -/",
          "def cmpOps : List (String × String) := " + lean_list(f"({lean_str(k)}, {lean_str(v)})" for k, v in g["cmpops"]),
          "/-- the `call_<name>` methods of `query_ast_visitor` (what `FuncADLNodeVisitor.visit_Call` dispatches a Name-call to) -/",
          "def seqOps : List String := " + lean_list(lean_str(n) for n in g["seqops"]),
          "/-- the base names given to `unique_name` in visit_IfExp / visit_BoolOp / _create_accumulator -/",
          "def ifName : String := " + lean_str(g["gennames"]["ifName"]),
          "def boolName : String := " + lean_str(g["gennames"]["boolName"]),
          "def accName : String := " + lean_str(g["gennames"]["accName"]), "",
          "/-- every name that is bound where `eval(node.func.id)` runs (parameters of visit_Call, globals of",
          "cpp_functions.py, python builtins) with the `__module__` of what it is bound to -/",
          "def evalEnv : Env := ["]
    L.append(",\n".join(f"  ({lean_str(n)}, {lean_binding(b)})" for n, b in g["env"]))
    L += ["]", "", "/-- source text the translator could not read as data (must be empty) -/",
          "def unrecognised : List String := " + lean_list(lean_str(u) for u in g["unrecognised"]), "",
          "def cfg : Cfg := ⟨table, evalEnv, typePriority, binOps, unOps⟩", "", "end FaxVerif.C12.Gen", ""]
    return "\n".join(L)


def translate(ctx):
    g = read_all()
    ctx.gen = g
    changed = vlib.write_if_changed(GENERATED, render_generated(g))
    ctx.count("generated-file-changed", 1 if changed else 0)


# --------------------------------------------------------------------------------------------
# the real pipeline on a scalar expression
# --------------------------------------------------------------------------------------------

BACKENDS: Dict[str, Dict[str, str]] = {
    "atlas": {"mod": "func_adl_xAOD.atlas.xaod.executor", "cls": "atlas_xaod_executor", "coll": 'e.Jets("AntiKt4EMTopoJets")',
              "elem": "xAOD::Jet", "main": "query.cxx", "sep": "->"},
    "cms_aod": {"mod": "func_adl_xAOD.cms.aod.executor", "cls": "cms_aod_executor", "coll": 'e.Muons("muons")',
                "elem": "reco::Muon", "main": "Analyzer.cc", "sep": "."},
    "cms_miniaod": {"mod": "func_adl_xAOD.cms.miniaod.executor", "cls": "cms_miniaod_executor", "coll": 'e.Muons("slimmedMuons")',
                    "elem": "pat::Muon", "main": "Analyzer.cc", "sep": "."},
}
TYPED_METHODS = {"nI": "int", "xF": "float"}  # declared to the translator through MetaData
DOUBLE_METHODS = ["pt", "eta", "phi"]  # undeclared methods default to double

# other sources of include files a query can use together with a math function
def _phi_mpi_pi(x: float) -> float:
    while x >= math.pi:
        x -= 2 * math.pi
    while x < -math.pi:
        x += 2 * math.pi
    return x


def _user_fn(name: str, incs: List[str], code: str) -> Dict[str, Any]:
    return {"metadata_type": "add_cpp_function", "name": name, "include_files": incs, "arguments": ["c12_x"], "code": [code], "return_type": "double"}


COMPANIONS: Dict[str, Dict[str, Any]] = {
    # built-in injected functions
    "DeltaR": {"backends": ["atlas", "cms_aod", "cms_miniaod"], "md": [], "incs": ["TVector2.h", "math.h"], "type": "double",
               "plain": "DeltaR(j.eta(), j.phi(), 0.0, 0.0)", "wrap": lambda x: f"DeltaR({x}, j.phi(), 0.0, 0.0)",
               "value": lambda x, s: math.sqrt((s[1] if x is None else x) ** 2 + _phi_mpi_pi(s[2]) ** 2)},
    "getAttributeFloat": {"backends": ["atlas"], "md": [], "incs": ["vector"], "type": "float",
                          "plain": "j.getAttributeFloat('emf')", "wrap": None, "value": lambda x, s: 0.25},
    # user C++ functions (add_cpp_function) whose include_files are C spellings / the C++ spelling / unrelated headers / empty
    "user-function-math.h": {"backends": ["atlas", "cms_aod", "cms_miniaod"], "md": [_user_fn("c12_c", ["math.h"], "double result = fabs(c12_x) + 1.0;")],
                             "incs": ["math.h"], "type": "double", "plain": "c12_c(j.eta())", "wrap": lambda x: f"c12_c({x})",
                             "value": lambda x, s: abs(s[1] if x is None else x) + 1.0},
    "user-function-stdlib.h-math.h": {"backends": ["atlas", "cms_aod", "cms_miniaod"], "md": [_user_fn("c12_cc", ["stdlib.h", "math.h"], "double result = fabs(c12_x) + 1.0;")],
                                      "incs": ["stdlib.h", "math.h"], "type": "double", "plain": "c12_cc(j.eta())", "wrap": lambda x: f"c12_cc({x})",
                                      "value": lambda x, s: abs(s[1] if x is None else x) + 1.0},
    "user-function-cmath": {"backends": ["atlas", "cms_aod", "cms_miniaod"], "md": [_user_fn("c12_cpp", ["cmath"], "double result = std::fabs(c12_x) + 1.0;")],
                            "incs": ["cmath"], "type": "double", "plain": "c12_cpp(j.eta())", "wrap": lambda x: f"c12_cpp({x})",
                            "value": lambda x, s: abs(s[1] if x is None else x) + 1.0},
    "user-function-unrelated-headers": {"backends": ["atlas", "cms_aod", "cms_miniaod"], "md": [_user_fn("c12_other", ["vector", "map"], "double result = (c12_x) * 2.0 + 1.0;")],
                                        "incs": ["vector", "map"], "type": "double", "plain": "c12_other(j.eta())", "wrap": lambda x: f"c12_other({x})",
                                        "value": lambda x, s: (s[1] if x is None else x) * 2.0 + 1.0},
    "user-function-no-headers": {"backends": ["atlas", "cms_aod", "cms_miniaod"], "md": [_user_fn("c12_none", [], "double result = (c12_x) * 2.0 + 1.0;")],
                                 "incs": [], "type": "double", "plain": "c12_none(j.eta())", "wrap": lambda x: f"c12_none({x})",
                                 "value": lambda x, s: (s[1] if x is None else x) * 2.0 + 1.0},
    # a user-declared event collection whose include_files list the C header (used at event level beside the function's column)
    "collection-math.h": {"backends": ["atlas", "cms_aod", "cms_miniaod"], "collection": True, "incs": ["math.h", "vector"], "type": "double",
                          "plain": None, "wrap": None, "value": None},
}
COLLECTION_MD = {
    "atlas": {"metadata_type": "add_atlas_event_collection_info", "name": "C12Things", "include_files": ["math.h", "vector"],
              "container_type": "xAOD::JetContainer", "element_type": "xAOD::Jet", "contains_collection": True},
    "cms_aod": {"metadata_type": "add_cms_aod_event_collection_info", "name": "C12Things", "include_files": ["math.h", "vector"],
                "container_type": "reco::MuonCollection", "element_type": "reco::Muon", "contains_collection": True},
    "cms_miniaod": {"metadata_type": "add_cms_miniaod_event_collection_info", "name": "C12Things", "include_files": ["math.h", "vector"],
                    "container_type": "pat::MuonCollection", "element_type": "pat::Muon", "contains_collection": True},
}
# how the function F (on the loop variable j) and the companion C are put together: shape -> (query body, include requests of C come
# before F's own?, row expressions); the companion's own requests are made before its arguments are translated (process_ast_node),
# the function's after its arguments (visit_function_ast)
COMPANION_SHAPES = ["tuple-function-first", "tuple-companion-first", "product-function-first", "product-companion-first",
                    "function-of-companion", "companion-of-function"]
COLLECTION_SHAPES = ["collection-first", "collection-second"]


# abstract expressions (python side):  ("m", name) | ("i", n) | ("f", x) | ("s", text) | ("call", f, [args]) | ("bin", op, l, r) | ("un", op, e)
# event-level operands (their evaluation emits statements and moves the translator's cursor; `COLL` is the backend's collection):
#   ("fm", name)  COLL.First().name()                       -- stays inside the loop and the guard of the First()
#   ("sf", name)  COLL.Select(lambda k: k.name()).First()   -- the same, the method inside the Select
#   ("cnt",)      COLL.Count()                              -- a loop opened and closed again, the value is the accumulator (int)
#   ("sum", name) COLL.Select(lambda k: k.name()).Sum()     -- the same (double)
#   ("comp", name)      the value of another source of include files used in the same query (COMPANIONS), on the loop variable
#   ("compw", name, X)  that companion applied to the expression X (only in the row expressions the job oracle predicts)
LEAF_KINDS = ("m", "i", "f", "s", "fm", "sf", "cnt", "sum", "comp")
EVENT_LEAF_KINDS = ("fm", "sf", "cnt", "sum")
PY_BIN = {"Add": "+", "Sub": "-", "Mult": "*", "Div": "/", "Mod": "%", "Pow": "**", "MatMult": "@"}
PY_UN = {"USub": "-", "UAdd": "+", "Not": "not ", "Invert": "~"}


def to_src(e) -> str:
    k = e[0]
    if k == "m":
        return f"j.{e[1]}()"
    if k == "i":
        return str(e[1])
    if k == "f":
        return repr(float(e[1]))
    if k == "s":
        return json.dumps(e[1])
    if k == "fm":
        return f"COLL.First().{e[1]}()"
    if k == "sf":
        return f"COLL.Select(lambda k: k.{e[1]}()).First()"
    if k == "cnt":
        return "COLL.Count()"
    if k == "sum":
        return f"COLL.Select(lambda k: k.{e[1]}()).Sum()"
    if k == "comp":
        return COMPANIONS[e[1]]["plain"]
    if k == "compw":
        return COMPANIONS[e[1]]["wrap"](to_src(e[2]))
    if k == "call":
        return f"{e[1]}({', '.join(to_src(a) for a in e[2])})"
    if k == "bin":
        return f"({to_src(e[2])} {PY_BIN[e[1]]} {to_src(e[3])})"
    if k == "un":
        return f"({PY_UN[e[1]]}{to_src(e[2])})"
    raise ValueError(e)


def leaf_cpp(e, sep: str) -> Tuple[str, str]:
    k = e[0]
    if k == "m":
        return (f"i_obj{sep}{e[1]}()", TYPED_METHODS.get(e[1], "double"))
    if k == "i":
        return (str(e[1]), "int")
    if k == "f":
        return (str(float(e[1])), "double")
    if k == "s":
        return ('"' + e[1] + '"', "string")
    if k in ("fm", "sf"):  # the loop variable of the First() (numbers are renamed away, see norm_names)
        return (f"i_obj{sep}{e[1]}()", TYPED_METHODS.get(e[1], "double"))
    if k == "cnt":
        return ("aggResult", "int")
    if k == "sum":
        return ("aggResult", "double")
    if k == "comp":  # the result variable of the companion's code block
        return ("c12comp", COMPANIONS[e[1]]["type"])
    raise ValueError(e)


def to_json(e, sep: str) -> Dict[str, Any]:
    k = e[0]
    if k in LEAF_KINDS:
        t, ty = leaf_cpp(e, sep)
        return {"k": "leaf", "t": t, "ty": ty}
    if k == "call":
        return {"k": "call", "f": e[1], "args": [to_json(a, sep) for a in e[2]]}
    if k == "bin":
        return {"k": "bin", "op": e[1], "l": to_json(e[2], sep), "r": to_json(e[3], sep)}
    if k == "un":
        return {"k": "un", "op": e[1], "e": to_json(e[2], sep)}
    raise ValueError(e)


def leaves_of(e, sep: str) -> List[List[str]]:
    out: List[List[str]] = []

    def go(x):
        if x[0] in LEAF_KINDS:
            p = list(leaf_cpp(x, sep))
            if p not in out:
                out.append(p)
        elif x[0] == "call":
            for a in x[2]:
                go(a)
        elif x[0] == "bin":
            go(x[2]), go(x[3])
        elif x[0] == "un":
            go(x[2])

    go(e)
    return out


def called(e) -> List[str]:
    if e[0] == "call":
        return [e[1]] + [n for a in e[2] for n in called(a)]
    if e[0] == "bin":
        return called(e[2]) + called(e[3])
    if e[0] in ("un", "compw"):
        return called(e[2])
    return []


def ops_of(e) -> List[str]:
    if e[0] == "call":
        return [n for a in e[2] for n in ops_of(a)]
    if e[0] == "bin":
        return [e[1]] + ops_of(e[2]) + ops_of(e[3])
    if e[0] == "un":
        return [e[1]] + ops_of(e[2])
    if e[0] == "compw":
        return ["companion"] + ops_of(e[2])
    if e[0] == "comp":
        return ["companion"]
    return []


def size(e) -> int:
    if e[0] == "call":
        return 1 + sum(size(a) for a in e[2])
    if e[0] == "bin":
        return 1 + size(e[2]) + size(e[3])
    if e[0] in ("un", "compw"):
        return 1 + size(e[2])
    return 1


def static_int(e) -> bool:
    """python-level: the value is an int (so that C++ sees an integer too)"""
    if e[0] == "i":
        return True
    if e[0] == "m":
        return TYPED_METHODS.get(e[1]) == "int"
    if e[0] == "cnt":
        return True
    if e[0] == "call":
        return e[1] == "ilogb"  # std::ilogb returns int (and is declared so since 340b270)
    if e[0] == "bin":
        return e[1] in ("Add", "Sub", "Mult", "Mod") and static_int(e[2]) and static_int(e[3])
    if e[0] == "un":
        return static_int(e[2])
    return False


def in_defect_exclusion(e) -> Optional[str]:
    """The inputs the `_partial` theorems exclude because the code is known to be wrong there
    (each has a `_counterexample` theorem and a listed finding).  Syntactic, independent of the table."""
    names = called(e)
    if "remquo" in names:
        return "remquo"
    if "Div" in ops_of(e):

        def abs_int(x) -> bool:
            if x[0] == "call":
                return (x[1] == "abs" and len(x[2]) > 0 and all(static_int(a) for a in x[2])) or any(abs_int(a) for a in x[2])
            if x[0] == "bin":
                return abs_int(x[2]) or abs_int(x[3])
            if x[0] == "un":
                return abs_int(x[2])
            return False

        if abs_int(e):
            return "abs-of-int-in-division"
    return None


_EXE_CACHE: Dict[str, Any] = {}


def _executor(backend: str):
    import importlib

    b = BACKENDS[backend]
    if backend not in _EXE_CACHE:
        _EXE_CACHE[backend] = getattr(importlib.import_module(b["mod"]), b["cls"])
    return _EXE_CACHE[backend]()


def query_text(backend: str, expr_src: str, injects: Any = ()) -> str:
    b = BACKENDS[backend]
    ds = "EventDataset()"
    for md in injects:  # user `inject_code` blocks (C14's subject; here only their include lists matter)
        ds = f"MetaData({ds}, {dict(md, metadata_type='inject_code')!r})"
    for m, t in TYPED_METHODS.items():
        ds = f"MetaData({ds}, {{'metadata_type': 'add_method_type_info', 'type_string': '{b['elem']}', 'method_name': '{m}', 'return_type': '{t}'}})"
    return f"Select(SelectMany({ds}, lambda e: {b['coll']}), lambda j: {expr_src})"


INCLUDE_RE = re.compile(r'^\s*#include\s*["<]([^">]+)[">]', re.M)
ASSIGN_RE = re.compile(r"^\s*(_col\w+)\s*=\s*(.*?);\s*$", re.M)


CPP_SUFFIXES = (".cxx", ".cc", ".h", ".hpp", ".C", ".cpp", ".hh")
_CALL_RE = None


def package_of(files: Dict[str, str]) -> List[Dict[str, Any]]:
    """every rendered C++ file: its includes (an include of another rendered file is named by that file's
    name) and whether it calls a std:: math function (a C++ name of the live table, or std::pow)"""
    global _CALL_RE
    if _CALL_RE is None:
        names = {r["cpp"] for r in live_rows() if type(r["cpp"]) is str and r["cpp"]} | {"std::pow"}
        _CALL_RE = re.compile(r"(?<![\w:])(" + "|".join(re.escape(n) for n in sorted(names, key=len, reverse=True)) + r")\s*\(")
    call_re = _CALL_RE
    cpp = {f: t for f, t in files.items() if f.endswith(CPP_SUFFIXES)}
    out = []
    for f, t in cpp.items():
        incs = [Path(i).name if Path(i).name in cpp else i for i in INCLUDE_RE.findall(t)]
        out.append({"name": f, "incs": incs, "calls": bool(call_re.search(t))})
    return out


def run_pipeline(backend: str, expr_src: str, injects: Any = ()) -> Dict[str, Any]:
    """apply_ast_transformations + write_cpp_files on `Select(SelectMany(ds, e -> coll), j -> expr)`;
    returns {"text","declTy","includes"} read from the generated files, or {"err": class, "msg": …}."""
    import logging

    logging.disable(logging.CRITICAL)
    b = BACKENDS[backend]
    d = Path(tempfile.mkdtemp(prefix="c12_"))
    try:
        a = ast.parse(query_text(backend, expr_src, injects), mode="eval").body
        exe = _executor(backend)
        a2 = exe.apply_ast_transformations(a)
        info = exe.write_cpp_files(a2, d)
        files = {f: (d / f).read_text() for f in info.all_filenames if (d / f).is_file()}
    except Exception as ex:  # the translator's refusal (or crash) is an observation
        return {"err": type(ex).__name__, "msg": str(ex)[:200]}
    finally:
        shutil.rmtree(d, ignore_errors=True)
        logging.disable(logging.NOTSET)
    main = files.get(b["main"], "")
    if injects is not None and injects != () or expr_src == "j.pt()":
        pkg = package_of(files)
    else:
        pkg = None
    assigns = ASSIGN_RE.findall(main)
    if len(assigns) != 1:
        return {"err": "Unreadable", "msg": f"{len(assigns)} assignments to an output column in {b['main']}"}
    var, rhs = assigns[0]
    decl = None
    for f, t in files.items():
        m = re.search(r"^\s*([A-Za-z_][\w:<>, ]*?)\s+" + re.escape(var) + r"\s*;", t, re.M)
        if m:
            decl = m.group(1).strip()
            break
    if decl is None:
        return {"err": "Unreadable", "msg": f"no declaration of {var}"}
    return {"text": re.sub(r"\bi_obj\d+", "i_obj", rhs), "declTy": decl, "includes": INCLUDE_RE.findall(main), "package": pkg}


_BASELINE: Dict[str, List[str]] = {}
_BASELINE_PKG: Dict[str, Dict[str, List[str]]] = {}


def added_includes(backend: str, includes: List[str]) -> List[str]:
    if backend not in _BASELINE:
        r = run_pipeline(backend, "j.pt()")
        if "err" in r:
            raise vlib.InternalError(f"baseline query failed on {backend}: {r}")
        _BASELINE[backend] = r["includes"]
        _BASELINE_PKG[backend] = {f["name"]: f["incs"] for f in r["package"]}
    base = _BASELINE[backend]
    return sorted(set(i for i in includes if i not in base))


def observe(backend: str, e) -> Dict[str, Any]:
    return _observe_src((backend, to_src(e)))


def _observe_src(job: Tuple[str, str]) -> Dict[str, Any]:
    backend, src = job
    r = run_pipeline(backend, src)
    if "err" in r:
        return r
    return {"text": r["text"], "declTy": r["declTy"], "incs": added_includes(backend, r["includes"])}


def observe_many(jobs: List[Tuple[str, str]]) -> List[Dict[str, Any]]:
    """the pipeline runs are independent of each other: spread them over the cores (results do not depend on the worker)"""
    for b in BACKENDS:
        added_includes(b, [])  # baselines are computed before forking
    if len(jobs) < 64:
        return [_observe_src(j) for j in jobs]
    import multiprocessing as mp
    from concurrent.futures import ProcessPoolExecutor

    try:
        with ProcessPoolExecutor(max_workers=min(12, os.cpu_count() or 2), mp_context=mp.get_context("fork")) as ex:
            return list(ex.map(_observe_src, jobs, chunksize=32))
    except Exception:  # no pool available: serial
        return [_observe_src(j) for j in jobs]


# --------------------------------------------------------------------------------------------
# the function of that name: python references (C definitions where python has no such function)
# --------------------------------------------------------------------------------------------


def _c_round(x: float) -> float:
    return math.copysign(math.floor(abs(x) + 0.5), x)


def _sz(v: float, x: float) -> float:
    """C keeps the sign of the argument on a zero result (ceil(-0.3) is -0.0)"""
    return math.copysign(0.0, x) if v == 0 else v


def _ilogb(x: float) -> float:
    if x == 0 or math.isinf(x) or math.isnan(x):
        raise ValueError("ilogb: FP_ILOGB0 / FP_ILOGBNAN / INT_MAX are outside the domain")
    return float(math.frexp(x)[1] - 1)


def _fmax(x: float, y: float) -> float:
    return y if math.isnan(x) else (x if math.isnan(y) else max(x, y))


def _fmin(x: float, y: float) -> float:
    return y if math.isnan(x) else (x if math.isnan(y) else min(x, y))


def _fma(x, y, z) -> float:
    if any(math.isnan(v) or math.isinf(v) for v in (x, y, z)):
        return x * y + z
    return float(Fraction(x) * Fraction(y) + Fraction(z))


REF = {
    "sin": math.sin, "cos": math.cos, "tan": math.tan, "acos": math.acos, "asin": math.asin, "atan": math.atan, "atan2": math.atan2,
    "sinh": math.sinh, "cosh": math.cosh, "tanh": math.tanh, "asinh": math.asinh, "acosh": math.acosh, "atanh": math.atanh,
    "exp": math.exp, "ldexp": lambda x, n: math.ldexp(x, int(n)), "log": math.log, "ln": math.log, "log10": math.log10,
    "exp2": lambda x: 2.0 ** x, "expm1": math.expm1, "ilogb": _ilogb, "log1p": math.log1p, "log2": math.log2,
    "scalbn": lambda x, n: math.ldexp(x, int(n)), "scalbln": lambda x, n: math.ldexp(x, int(n)),
    "pow": math.pow, "sqrt": math.sqrt, "cbrt": lambda x: math.copysign(abs(x) ** (1.0 / 3.0), x), "hypot": math.hypot,
    "erf": math.erf, "erfc": math.erfc, "tgamma": math.gamma, "lgamma": math.lgamma,
    "ceil": lambda x: _sz(float(math.ceil(x)), x), "floor": lambda x: _sz(float(math.floor(x)), x), "fmod": math.fmod,
    "trunc": lambda x: _sz(float(math.trunc(x)), x),
    "round": _c_round, "rint": lambda x: _sz(float(round(x)), x), "nearbyint": lambda x: _sz(float(round(x)), x), "remainder": math.remainder,
    "copysign": math.copysign, "nan": lambda s: float("nan"), "nextafter": math.nextafter, "nexttoward": math.nextafter,
    "fdim": lambda x, y: max(x - y, 0.0), "fmax": _fmax, "fmin": _fmin,
    "fabs": math.fabs, "abs": abs, "fma": _fma,
    "remquo": lambda x, y, q=None: math.remainder(x, y),
}
if hasattr(math, "cbrt"):
    REF["cbrt"] = math.cbrt

# parameter kinds of the <cmath> signatures ("d" double, "i" int-valued, "s" string): what a query can pass by value
PARAMS = {n: "d" for n in REF}
PARAMS.update({n: "dd" for n in ["atan2", "pow", "hypot", "fmod", "remainder", "copysign", "nextafter", "nexttoward", "fdim", "fmax", "fmin"]})
PARAMS.update({"ldexp": "di", "scalbn": "di", "scalbln": "di", "fma": "ddd", "nan": "s", "remquo": "ddp"})

# sample points (pt, eta, phi) per argument domain
GENERIC = [(0.3, 1.7, -2.5), (2.5, -0.75, 1.3), (10.0, 2.5, 0.5), (1.7, -2.5, 3.5)]
DOMAIN = {
    "unit": [(-0.9, 0.3, 0.0), (0.75, -0.5, 0.0), (0.0, 0.9, 0.0), (0.3, 0.3, 0.0)],
    "ge1": [(1.0, 0.3, 0.0), (1.5, 0.3, 0.0), (10.0, 0.3, 0.0)],
    "pos": [(0.3, 1.7, 0.0), (1.0, 2.5, 0.0), (2.5, 0.5, 0.0), (10.0, 3.0, 0.0), (0.001, 1.0, 0.0), (1000.0, 2.0, 0.0)],
    "gtm1": [(-0.5, 0.0, 0.0), (0.3, 0.0, 0.0), (2.5, 0.0, 0.0)],
    "gamma": [(0.5, 0.0, 0.0), (1.5, 0.0, 0.0), (4.2, 0.0, 0.0), (-1.5, 0.0, 0.0), (10.0, 0.0, 0.0)],
    "round": [(2.5, 0.0, 0.0), (-2.5, 0.0, 0.0), (3.5, 0.0, 0.0), (1.3, 0.0, 0.0), (-1.7, 0.0, 0.0), (0.5, 0.0, 0.0), (-0.5, 0.0, 0.0), (4.0, 0.0, 0.0)],
    "pair": [(2.5, 1.7, 0.3), (-2.5, 1.7, -1.0), (7.3, -2.0, 2.0), (0.3, 10.0, 0.5), (5.5, 2.0, -3.0), (-5.5, 2.0, 1.0)],
    "powpos": [(2.5, 3.0, 0.0), (0.3, -1.7, 0.0), (10.0, 0.5, 0.0), (1.7, 2.0, 0.0)],
}
DOMAIN_OF = {"acos": "unit", "asin": "unit", "atanh": "unit", "acosh": "ge1", "log": "pos", "ln": "pos", "log10": "pos", "log2": "pos",
             "sqrt": "pos", "ilogb": "pos", "log1p": "gtm1", "tgamma": "gamma", "lgamma": "gamma", "pow": "powpos",
             "ceil": "round", "floor": "round", "trunc": "round", "round": "round", "rint": "round", "nearbyint": "round"}
for _n, _p in PARAMS.items():
    if _p in ("dd", "ddd") and _n not in DOMAIN_OF:
        DOMAIN_OF[_n] = "pair"
N_I, X_F = 3, 1.25  # values of the declared int / float methods in the mock


def samples_for(e, tier: str) -> List[Tuple[float, float, float]]:
    names = called(e)
    pts: List[Tuple[float, float, float]] = []
    if len(names) == 1:
        pts = list(DOMAIN.get(DOMAIN_OF.get(names[0], ""), GENERIC))
    else:
        pts = list(GENERIC) + [(0.75, 0.3, -0.5), (1.5, 0.9, 0.25)]
    return pts


class Skip(Exception):
    pass


def py_eval(e, s: Tuple[float, float, float], jitter: float = 0.0, ev: Any = None):
    """python numerics, every function read by its documented name.  `jitter` perturbs every function
    result relatively: a sample whose value moves under it is ill-conditioned (a discontinuity or a
    cancellation amplifies last-digit differences between libm and python) and is not compared."""
    k = e[0]
    if k == "m":
        return {"pt": s[0], "eta": s[1], "phi": s[2], "nI": N_I, "xF": X_F}[e[1]]
    if k in ("i", "f", "s"):
        return e[1]
    if k == "comp":
        return COMPANIONS[e[1]]["value"](None, s)
    if k == "compw":
        return COMPANIONS[e[1]]["value"](py_eval(e[2], s, jitter, ev), s)
    if k in EVENT_LEAF_KINDS:  # `ev`: the jets (pt, eta, phi) of the event
        if not ev:
            raise Skip()
        col = {"pt": 0, "eta": 1, "phi": 2}
        if k == "cnt":
            return len(ev)
        if e[1] not in col:
            raise Skip()
        return ev[0][col[e[1]]] if k in ("fm", "sf") else sum((j[col[e[1]]] for j in ev), 0.0)
    try:
        if k == "call":
            args = [py_eval(a, s, jitter, ev) for a in e[2]]
            if e[1] not in REF:
                raise Skip()
            v = float(REF[e[1]](*args))
            return v * (1.0 + jitter) if jitter and math.isfinite(v) else v
        if k == "bin":
            l, r = py_eval(e[2], s, jitter, ev), py_eval(e[3], s, jitter, ev)
            if isinstance(l, str) or isinstance(r, str):
                raise Skip()
            v = {"Add": lambda: l + r, "Sub": lambda: l - r, "Mult": lambda: l * r, "Div": lambda: l / r, "Pow": lambda: l ** r}[e[1]]()
            if isinstance(v, complex):
                raise Skip()
            return v
        if k == "un":
            v = py_eval(e[2], s, jitter, ev)
            return -v if e[1] == "USub" else +v
    except (ValueError, OverflowError, ZeroDivisionError, KeyError, TypeError):
        raise Skip()
    raise Skip()


MOCK = """#include <cstdio>
%(includes)s
struct Obj { double a, b, c; int n; float x;
  double pt() const { return a; } double eta() const { return b; } double phi() const { return c; }
  int nI() const { return n; } float xF() const { return x; } };
%(funcs)s
int main() {
%(calls)s
  return 0;
}
"""


def gxx_eval(items: List[Dict[str, Any]], timeout: int = 300) -> Dict[int, Any]:
    """items: {"id", "text", "declTy", "sep", "incs", "samples"} -> id -> [values] | {"compile": msg}.
    Each expression is compiled as the translator wrote it, assigned to a variable of the declared
    column type, against a stand-in for the loop variable, with exactly the include files the
    translator added.  A case that does not compile is reported and the rest is compiled again."""
    out: Dict[int, Any] = {}
    todo = list(items)
    d = Path(tempfile.mkdtemp(prefix="c12_gxx_"))
    try:
        for _round in range(12):
            if not todo:
                break
            incs: List[str] = []
            for it in todo:
                for i in it["incs"]:
                    if i not in incs:
                        incs.append(i)
            funcs, calls = [], []
            for it in todo:
                obj = "const Obj* i_obj = &o;" if it["sep"] == "->" else "const Obj& i_obj = o;"
                funcs.append(f"#line {100000 + it['id']} \"c12case\"\nstatic double f{it['id']}(const Obj& o) {{ {obj} {it['declTy']} r = {it['text']}; return (double) r; }}")
                for j, s in enumerate(it["samples"]):
                    calls.append(f"  {{ Obj o{{{s[0]!r}, {s[1]!r}, {s[2]!r}, {N_I}, {X_F!r}f}}; printf(\"{it['id']} {j} %a\\n\", f{it['id']}(o)); }}")
            src = MOCK % {"includes": "\n".join(f'#include "{i}"' for i in incs) or "// no include added", "funcs": "\n".join(funcs),
                          "calls": "  setvbuf(stdout, 0, _IOLBF, 0);\n" + "\n".join(calls)}
            (d / "t.cc").write_text(src)
            p = subprocess.run(["g++", "-std=c++17", "-O0", "-w", "-o", str(d / "t"), str(d / "t.cc")], capture_output=True, text=True, timeout=timeout)
            if p.returncode != 0:
                bad = set()
                for m in re.finditer(r"c12case:(\d+):\d+: error: (.*)", p.stderr):
                    cid = int(m.group(1)) - 100000
                    if cid not in bad:
                        bad.add(cid)
                        out[cid] = {"compile": m.group(2)[:200]}
                if not bad:
                    raise vlib.InternalError("g++ failed outside the generated expressions: " + p.stderr[:500])
                todo = [it for it in todo if it["id"] not in bad]
                continue
            r = subprocess.run([str(d / "t")], capture_output=True, text=True, timeout=timeout)
            vals: Dict[int, Dict[int, float]] = {}
            for l in r.stdout.splitlines():
                parts = l.split()
                if len(parts) != 3:
                    continue
                a, b, c = parts
                c = c.lower()
                v = float("nan") if "nan" in c else (float("inf") if c == "inf" else (float("-inf") if c == "-inf" else float.fromhex(c)))
                vals.setdefault(int(a), {})[int(b)] = v
            rest = []
            died = False
            for it in todo:
                got = vals.get(it["id"], {})
                if died:
                    rest.append(it)
                elif len(got) == len(it["samples"]):
                    out[it["id"]] = [got[j] for j in range(len(it["samples"]))]
                elif r.returncode != 0:
                    out[it["id"]] = {"compile": f"the compiled program died (status {r.returncode}) while evaluating this expression"}
                    died = True
                else:
                    out[it["id"]] = [got.get(j) for j in range(len(it["samples"]))]
            todo = rest
    finally:
        shutil.rmtree(d, ignore_errors=True)
    return out


def close(a: float, b: float, tol: float = 1e-9) -> bool:
    if a is None or b is None:
        return False
    if math.isnan(a) or math.isnan(b):
        return math.isnan(a) and math.isnan(b)
    if math.isinf(a) or math.isinf(b):
        return a == b
    return abs(a - b) <= tol * max(1.0, abs(a), abs(b))


# --------------------------------------------------------------------------------------------
# generators
# --------------------------------------------------------------------------------------------

D_LEAVES = [("m", "pt"), ("m", "eta"), ("m", "phi")]


def call_of(f: str, variant: int = 0):
    args = []
    di = 0
    for kch in PARAMS.get(f, "d"):
        if kch == "d":
            args.append(D_LEAVES[di % 3])
            di += 1
        elif kch == "i":
            args.append(("i", 3) if variant == 0 else ("m", "nI"))
        elif kch == "s":
            args.append(("s", ""))
        elif kch == "p":
            args.append(("i", 0))
    return ("call", f, args)


CONTEXTS = [
    ("alone", lambda F: F),
    ("times2plus1", lambda F: ("bin", "Add", ("bin", "Mult", F, ("i", 2)), ("i", 1))),
    ("half", lambda F: ("bin", "Div", F, ("i", 2))),
    ("one-minus", lambda F: ("bin", "Sub", ("i", 1), F)),
    ("negated", lambda F: ("un", "USub", F)),
    ("squared", lambda F: ("bin", "Pow", F, ("i", 2))),
    ("argument", lambda F: ("call", "atan", [F])),
    ("plus-call", lambda F: ("bin", "Add", F, ("call", "cos", [("m", "eta")]))),
    ("int-and-float-operands", lambda F: ("bin", "Mult", ("bin", "Add", F, ("m", "nI")), ("m", "xF"))),
    ("over-float", lambda F: ("bin", "Div", F, ("f", 0.5))),
    ("beside-int-division", lambda F: ("bin", "Add", F, ("bin", "Div", ("i", 1), ("i", 2)))),
]


def random_expr(rng, names: List[str], depth: int, want_double: bool = True):
    r = rng.random()
    if depth <= 0 or r < 0.18:
        c = rng.random()
        if c < 0.6:
            return rng.choice(D_LEAVES)
        if c < 0.75:
            return ("f", rng.choice([0.5, 1.5, 2.0, 0.25, 3.0]))
        if c < 0.9:
            return ("i", rng.choice([1, 2, 3, 4, 7]))
        return ("m", "nI")
    if r < 0.62:
        f = rng.choice(names)
        args = []
        for kch in PARAMS.get(f, "d"):
            if kch == "d":
                args.append(random_expr(rng, names, depth - 1))
            elif kch == "i":
                args.append(rng.choice([("i", 3), ("i", 1), ("m", "nI"), ("un", "USub", ("i", 2))]))
            elif kch == "s":
                args.append(("s", ""))
        return ("call", f, args)
    if r < 0.92:
        op = rng.choice(["Add", "Sub", "Mult", "Div", "Add", "Mult", "Pow"])
        l = random_expr(rng, names, depth - 1)
        if op == "Pow":
            return ("bin", "Pow", l, ("i", rng.choice([2, 3])))
        rr = random_expr(rng, names, depth - 1)
        if rng.random() < 0.06 and l[0] == "call" and l[1] not in ("ilogb", "abs"):
            rr = ("m", "xF")  # a float operand, only beside a double-valued call (a float-typed result would select the single-precision overloads)
        return ("bin", op, l, rr)
    return ("un", rng.choice(["USub", "USub", "UAdd"]), random_expr(rng, names, depth - 1))


def odd_expr(rng, names: List[str]):
    """inputs outside the documented fragment: the refusals and the merely-accepted"""
    F = call_of(rng.choice(names))
    k = rng.randrange(10)
    if k == 0:
        return ("call", rng.choice(["frexp", "modf", "lround", "llrint", "foo", "Sin", "math_sin", "sign"]), [("m", "pt")])
    if k == 1:
        return ("bin", "Add", F, ("call", rng.choice(["frexp", "foo"]), [("m", "pt")]))
    if k == 2:
        return ("call", rng.choice(["ast", "functions_to_replace"]), [F])
    if k == 3:
        return ("bin", "Add", ("s", "a"), ("i", 1))
    if k == 4:
        return ("bin", "Mult", F, ("s", ""))
    if k == 5:
        return ("bin", "Mod", ("bin", "Mult", F, ("i", 2)), ("i", 2))
    if k == 6:
        return ("un", "Not", F)
    if k == 7:
        return ("bin", "MatMult", F, ("i", 2))
    if k == 8:
        return ("un", "Invert", F)
    return ("call", rng.choice(names), [("call", "foo", [("m", "pt")]), ("bin", "Add", ("s", "a"), ("i", 1))])


def main_cases(ctx, g) -> List[Tuple[str, str, Any]]:
    """(stream, backend, expr)"""
    names = [n for n in g["readme"] if n in REF]
    usable = [n for n in names if n != "remquo"]
    backs = list(BACKENDS)
    out: List[Tuple[str, str, Any]] = []
    for n in names:
        for cname, mk in CONTEXTS:
            variants = [0, 1] if "i" in PARAMS.get(n, "d") and cname in ("alone", "times2plus1") else [0]
            for v in variants:
                e = mk(call_of(n, v))
                for b in backs:
                    if ctx.tier == "quick" and b != "atlas" and cname not in ("alone", "times2plus1", "half"):
                        continue
                    out.append(("row:" + cname, b, e))
    # abs / pow applied to integers outside division: still exact
    for e in [("call", "abs", [("un", "USub", ("i", 3))]), ("bin", "Mult", ("call", "abs", [("m", "nI")]), ("i", 2)),
              ("call", "pow", [("i", 2), ("i", 3)]), ("bin", "Div", ("call", "pow", [("i", 2), ("i", 3)]), ("i", 3)),
              ("bin", "Div", ("call", "fmax", [("i", 1), ("i", 2)]), ("i", 4))]:
        for b in backs:
            out.append(("int-arguments", b, e))
    nrand, nodd, depth = (250, 60, 3) if ctx.tier == "quick" else (10000, 1200, 5)
    for i in range(nrand):
        e = random_expr(ctx.rng, usable, ctx.rng.choice(range(1, depth + 1)))
        out.append(("random", backs[i % 3], e))
    for i in range(nodd):
        out.append(("outside", backs[i % 3], odd_expr(ctx.rng, usable)))
    return out


def resolver_pool(ctx, g) -> List[str]:
    pool: List[str] = []
    ns = vars(live_module())
    for n in (g["readme"] + [r["py"] for r in g["rows"]] + [r["py"].split(".")[-1] for r in g["rows"]] + g["locals"]
              + [k for k in ns if not k.startswith("__")] + [k for k in dir(builtins) if not k.startswith("__")]
              + ["frexp", "modf", "lround", "llround", "lrint", "llrint", "max", "min", "sum", "len", "Sin", "SIN", "sin_", "_sin", "fnc", "fnc_name", "math", "std", "cmath"]):
        if re.fullmatch(r"[A-Za-z_][A-Za-z_0-9]*", n) and n not in ("True", "False", "None") and n not in pool:
            pool.append(n)
    letters = "abcdefghijklmnopqrstuvwxyz_"
    for _ in range(60 if ctx.tier == "quick" else 600):
        n = "".join(ctx.rng.choice(letters) for _ in range(ctx.rng.randint(1, 6)))
        if re.fullmatch(r"[A-Za-z_][A-Za-z_0-9]*", n) and n not in pool and n not in ("True", "False", "None"):
            try:
                ast.parse(f"{n}(x)", mode="eval")
            except SyntaxError:
                continue
            pool.append(n)
    return pool


def impl_resolve(name: str) -> Dict[str, Any]:
    from func_adl_xAOD.common.cpp_functions import FunctionAST, find_known_functions

    node = ast.parse(f"{name}(x)", mode="eval").body
    try:
        r = find_known_functions().visit(node)
    except Exception as ex:
        return {"err": type(ex).__name__}
    if isinstance(r, ast.Call) and isinstance(r.func, FunctionAST):
        return {"row": live_row_dict(None, r.func)}
    return {"row": None}


def live_row_dict(py: Optional[str], info) -> Dict[str, Any]:
    inc = info.include_files
    rt = info.cpp_return_type
    ty = getattr(rt, "type", None)
    d = {"cpp": info.cpp_name if type(info.cpp_name) is str else repr(info.cpp_name),
         "includes": [i if type(i) is str else repr(i) for i in inc] if isinstance(inc, (list, tuple)) else [repr(inc)],
         "ret": ty if type(ty) is str else repr(rt)}
    if py is not None:
        d["py"] = py
    return d


def live_rows() -> List[Dict[str, Any]]:
    """the table as it is at run time (after every module of the package that may add rows was imported)"""
    for b in BACKENDS.values():
        __import__(b["mod"])
    m = live_module()
    return [live_row_dict(k if type(k) is str else repr(k), v) for k, v in m.functions_to_replace.items()]


# --------------------------------------------------------------------------------------------
# judging one expression on the real code
# --------------------------------------------------------------------------------------------


def judge(ctx, cases: List[Tuple[str, str, Any]], numeric: bool) -> List[Dict[str, Any]]:
    """For each (stream, backend, expr): run the real pipeline, the model, the Spec on the real output and
    (if `numeric`) the compiled expression against the function of that name.  Returns one record per case."""
    recs = []
    reqs = []
    all_obs = observe_many([(b, to_src(e)) for _, b, e in cases])
    for (stream, b, e), obs in zip(cases, all_obs):
        sep = BACKENDS[b]["sep"]
        j = to_json(e, sep)
        recs.append({"stream": stream, "backend": b, "expr": e, "src": to_src(e), "obs": obs})
        reqs.append({"op": "tr", "expr": j})
        reqs.append({"op": "spec", "expr": j, "leaves": leaves_of(e, sep),
                     "obs": None if "err" in obs else {"text": nospace(obs["text"]), "declTy": obs["declTy"], "incs": obs["incs"]}})
    ctx.check_time()
    ans = ctx.driver(DRIVER, reqs)
    items = []
    for i, r in enumerate(recs):
        r["model"], r["spec"] = ans[2 * i], ans[2 * i + 1]
        r["numeric"] = None
        if numeric and "bad" not in r["model"] and r["model"].get("documented") and "err" not in r["obs"] and (r["spec"].get("holds") or numeric == "always"):
            smp = samples_for(r["expr"], ctx.tier)
            ref = []
            for s in smp:
                try:
                    v = float(py_eval(r["expr"], s))
                    if len(called(r["expr"])) > 1 or len(ops_of(r["expr"])) > 0:
                        for jit in (1e-11, -1e-11):
                            w = float(py_eval(r["expr"], s, jit))
                            if not close(v, w, 1e-10):
                                ctx.count("g++:ill-conditioned-sample-skipped")
                                raise Skip()
                    ref.append(v if abs(v) < 1e15 or math.isinf(v) or math.isnan(v) else None)
                except (Skip, OverflowError):
                    ref.append(None)
            keep = [k for k, v in enumerate(ref) if v is not None]
            if keep:
                r["numeric"] = {"samples": [smp[k] for k in keep], "expected": [ref[k] for k in keep]}
                items.append({"id": i, "text": r["obs"]["text"], "declTy": r["obs"]["declTy"], "sep": BACKENDS[r["backend"]]["sep"],
                              "incs": r["obs"]["incs"], "samples": r["numeric"]["samples"]})
    if items:
        # identical (text, type, includes, samples) are evaluated once
        uniq: Dict[str, Dict[str, Any]] = {}
        alias: Dict[int, int] = {}
        for it in items:
            k = json.dumps([it["text"], it["declTy"], it["sep"], it["incs"], it["samples"]])
            if k not in uniq:
                uniq[k] = it
            alias[it["id"]] = uniq[k]["id"]
        got = gxx_eval(list(uniq.values()))
        ctx.count("g++:expressions-compiled", len(uniq))
        for it in items:
            recs[it["id"]]["numeric"]["got"] = got.get(alias[it["id"]])
    return recs


def numeric_failure(r) -> Optional[str]:
    n = r.get("numeric")
    if not n or "got" not in n:
        return None
    g = n["got"]
    if isinstance(g, dict):
        return "the emitted expression does not compile / run: " + g.get("compile", "?")
    has_float = any(l[1] == "float" for l in leaves_of(r["expr"], "."))
    tol = 1e-6 if has_float or size(r["expr"]) > 8 else 1e-9  # single-precision intermediates are not this oracle's business
    for s, want, have in zip(n["samples"], n["expected"], g):
        if not close(want, have, tol):
            return f"at (pt, eta, phi) = {s} the generated C++ gives {have!r}, the function of that name gives {want!r}"
    return None


def nospace(t: str) -> str:
    """white space between tokens is not the property's business (none of the operand texts contains any)"""
    return re.sub(r"\s+", "", t)


def canon_model(m: Dict[str, Any]) -> Dict[str, Any]:
    if "ok" in m:
        return {"text": nospace(m["ok"]["text"]), "declTy": m["ok"]["ty"], "incs": sorted(m["ok"]["incs"])}
    return {"refused": True}  # which exception class a refusal has is not this property's business (C09)


def canon_impl(o: Dict[str, Any]) -> Dict[str, Any]:
    if "err" in o:
        return {"refused": True} if o["err"] != "Unreadable" else {"unreadable": o.get("msg")}
    return {"text": nospace(o["text"]), "declTy": o["declTy"], "incs": sorted(o["incs"])}


HOW = ("python: a = ast.parse(\"Select(SelectMany(<dataset with add_method_type_info for nI:int, xF:float>, lambda e: <collection>), lambda j: <src>)\", mode='eval').body; "
       "exe = <backend>_executor(); exe.write_cpp_files(exe.apply_ast_transformations(a), dir); read the assignment to the output column in query.cxx / Analyzer.cc; "
       "or: ./check C12 --replay <this file>")


def report(ctx, r, keyprefix: str = "emit") -> Optional[str]:
    """violation (through ctx, so that listed findings are recognised) if the Spec or the numeric oracle fails"""
    key = f"{keyprefix}:{r['backend']}:{r['src']}"
    why = None
    if "bad" in r["spec"]:
        return None
    if not r["spec"].get("holds", False):
        why = r["spec"].get("why")
        nf = numeric_failure(r)
        if nf:
            why += "; " + nf
    else:
        why = numeric_failure(r)
    if why is None:
        return None
    ctx.violation(key=key, what=f"{r['src']} on {r['backend']}: {why}", case={"backend": r["backend"], "expr": r["expr"], "src": r["src"]},
                  observed={"translator": r["obs"], "numeric": r.get("numeric")}, how=HOW)
    return why


# --------------------------------------------------------------------------------------------
# the check
# --------------------------------------------------------------------------------------------


def _tuplify(e):
    if isinstance(e, list):
        return tuple(_tuplify(x) if isinstance(x, list) and x and isinstance(x[0], str) and x[0] in LEAF_KINDS + ("call", "bin", "un") else
                     ([_tuplify(y) for y in x] if isinstance(x, list) else x) for x in e)
    return e


def row_numeric(row: Dict[str, Any]) -> Optional[str]:
    """compile `<cpp>(args)` alone and compare with the function named `py` at its sample points"""
    name = row["py"].split(".")[-1]
    if name not in REF or PARAMS.get(name, "d") in ("ddp",):
        return None
    e = call_of(name)
    smp = samples_for(e, "thorough")
    exp = []
    for s in smp:
        try:
            exp.append(float(py_eval(e, s)))
        except Skip:
            exp.append(None)
    keep = [k for k, v in enumerate(exp) if v is not None]
    args = ",".join(leaf_cpp(a, "->")[0] for a in e[2])
    got = gxx_eval([{"id": 0, "text": f"{row['cpp']}({args})", "declTy": row["ret"] if row["ret"] in ("int", "float", "double") else "double",
                     "sep": "->", "incs": row["includes"], "samples": [smp[k] for k in keep]}]).get(0)
    if isinstance(got, dict):
        return f"{row['cpp']}({args}) with includes {row['includes']} does not compile: {got.get('compile')}"
    for k, h in zip(keep, got):
        if not close(exp[k], h):
            at = ", ".join(repr(v) for v in smp[k][: sum(1 for a in e[2] if a[0] == "m")])
            return f"{row['cpp']}({args}) at ({at}) = {h!r} but {name} there = {exp[k]!r}"
    return None


def check_table(ctx, g) -> None:
    live = live_rows()
    gen = [{"py": r["py"], "cpp": r["cpp"], "includes": r["includes"], "ret": r["ret"]} for r in g["rows"]]
    # dict semantics: a repeated key keeps its first position and takes the last value
    eff: Dict[str, Dict[str, Any]] = {}
    for r in gen:
        eff[r["py"]] = r if r["py"] not in eff else {**r}
    ctx.count("table:rows", len(live))
    if list(eff.values()) != live:
        diff = [(a, b) for a, b in zip(list(eff.values()) + [None] * len(live), live + [None] * len(eff)) if a != b][:3]
        ctx.disagreement("table: rows read from the source vs functions_to_replace at run time", {"first_differences": diff}, list(eff.values())[:0], live[:0])
    ans = ctx.driver(DRIVER, [{"op": "row", "row": r} for r in live])
    for r, a in zip(live, ans):
        ctx.case({"row": r}, True, {"table_row": r, "row_spec_on_live_table": a} if r["py"] in ("floor", "builtins.abs") else None)
        if "bad" in a:
            continue
        if not a.get("holds", False):
            why = [k for k in ("namesake", "header", "ret", "arith") if not a.get(k)]
            if not a.get("knownPy", True):
                why.append(f"(the python name {r['py']!r} is not in the model's enumeration of documented <cmath> names: FaxVerif.C12.meaningPy)")
            if not a.get("knownCpp", True):
                why.append(f"(the C++ name {r['cpp']!r} is not in the model's enumeration of <cmath> functions: FaxVerif.C12.meaningCpp)")
            num = None
            try:
                num = row_numeric(r)
            except Exception as ex:  # the numeric illustration is best effort
                num = f"(numeric illustration failed: {ex})"
            ctx.violation(key="row:" + r["py"], what=f"table row {r['py']} -> {r['cpp']} ({r['includes']}, {r['ret']}) fails: {', '.join(why)}" + (f"; {num}" if num else ""),
                          case={"row": r}, observed={"spec": a, "numeric": num},
                          how="from func_adl_xAOD.common.cpp_functions import functions_to_replace; functions_to_replace[<py>]")
    live_keys = [r["py"] for r in live]
    for n in g["readme"]:
        ctx.count("readme:names")
        if n not in live_keys:
            ctx.violation(key="readme:" + n, what=f"README lists the math function {n} but the table has no such key", case={"name": n}, observed={"keys": live_keys},
                          how="README.md section Math vs func_adl_xAOD.common.cpp_functions.functions_to_replace")
    if ctx.tier == "thorough":
        # every live row, compiled on its own
        for r in live:
            if in_defect_exclusion(call_of(r["py"].split(".")[-1])):
                continue
            msg = row_numeric(r)
            ctx.count("g++:rows-evaluated")
            if msg:
                ctx.violation(key="rownum:" + r["py"], what=f"table row {r['py']}: {msg}", case={"row": r}, observed=msg, how="compile std::<cpp>(args) with the row's include files")


def check_resolver(ctx, g) -> None:
    pool = resolver_pool(ctx, g)
    ns = vars(live_module())
    reqs = []
    impl = []
    for n in pool:
        impl.append(impl_resolve(n))
        b = binding_of(n, g["locals"], ns)
        reqs.append({"op": "resolve", "name": n})
        reqs.append({"op": "resolve", "name": n, "binding": {"k": b[0], "m": b[1] or ""}})
    ans = ctx.driver(DRIVER, reqs)
    live = {r["py"]: r for r in live_rows()}
    readme = set(g["readme"])
    accept_reqs, accept_names = [], []
    for i, n in enumerate(pool):
        m1, m2, im = ans[2 * i], ans[2 * i + 1], impl[i]
        if "bad" in m1 or "bad" in m2:
            continue

        def strip(m):
            if m.get("row"):
                return {"row": {k: v for k, v in m["row"].items() if k != "py"}}
            return {"row": None}  # left alone or refused: the class of a refusal is not this property's business

        if "err" in im or "err" in m1:
            ctx.count("resolver:refusal-class-" + ("agrees" if im.get("err") == m1.get("err") else "differs"))

        ctx.count("resolver:" + ("replaced" if im.get("row") else ("error" if "err" in im else "left-alone")))
        ctx.case({"resolve": n}, bool(im.get("row")) or "err" in im or n in readme, {"resolve_call_of": n, "implementation": im, "model": m1} if n in ("abs", "round") else None)
        if strip(m1) != strip(im):
            ctx.disagreement("find_known_functions vs findKnown (generated eval scope)", {"name": n}, strip(m1), strip(im))
        if strip(m2) != strip(im):
            ctx.disagreement("find_known_functions vs fncName/lookup (binding computed by the harness)", {"name": n}, strip(m2), strip(im))
        if n in readme and not in_defect_exclusion(call_of(n) if n in PARAMS else ("call", n, [])):
            # Spec on the implementation: the documented name reaches a row that is its namesake
            if not im.get("row"):
                ctx.violation(key="accept:" + n, what=f"the documented function {n} is not replaced by find_known_functions ({im})", case={"name": n}, observed=im,
                              how=f"find_known_functions().visit(ast.parse('{n}(x)', mode='eval').body)")
            else:
                accept_reqs.append({"op": "row", "row": {"py": n, **im["row"]}})
                accept_names.append((n, im))
    for (n, im), a in zip(accept_names, ctx.driver(DRIVER, accept_reqs)):
        if "bad" not in a and not a.get("namesake", False):
            ctx.violation(key="accept:" + n, what=f"a call of the documented function {n} is replaced by {im['row']['cpp']}, which is not its namesake", case={"name": n}, observed=im,
                          how=f"find_known_functions().visit(ast.parse('{n}(x)', mode='eval').body).func.cpp_name")


# --------------------------------------------------------------------------------------------
# the whole rendered package: <cmath> must be reachable in every file that calls a math function
# --------------------------------------------------------------------------------------------

INJECT_VARIANTS: Dict[str, List[Dict[str, Any]]] = {
    "none": [],
    "body-lists-cmath": [{"name": "c12_helpers", "body_includes": ["vector", "cmath"]}],
    "header-lists-cmath": [{"name": "c12_helpers", "header_includes": ["vector", "cmath"], "private_members": ["double m_scale = std::sqrt(2.0);"]}],
    "both-list-cmath": [{"name": "c12_helpers", "header_includes": ["cmath"], "body_includes": ["cmath", "algorithm"]}],
    "neither-lists-cmath": [{"name": "c12_a", "header_includes": ["vector"]}, {"name": "c12_b", "body_includes": ["map"]}],
    "body-lists-math.h": [{"name": "c12_helpers", "body_includes": ["math.h", "vector"]}],
    "header-lists-math.h": [{"name": "c12_helpers", "header_includes": ["math.h"], "body_includes": ["stdlib.h"]}],
    "two-blocks": [{"name": "c12_a", "header_includes": ["cmath"]}, {"name": "c12_b", "header_includes": ["string"], "body_includes": ["cmath"]}],
}


def _pkg_job(job) -> Dict[str, Any]:
    backend, src, variant = job
    return run_pipeline(backend, src, list(INJECT_VARIANTS[variant]))


def package_cases(ctx, g) -> List[Tuple[str, str, Any]]:
    """(backend, inject variant, expr); corpus cases with an `inject` key first"""
    pre = [(c["backend"], c["inject"], _tuplify(c["expr"])) for c in vlib.corpus_cases(ID) if c.get("inject") in INJECT_VARIANTS and "companion" not in c]
    return pre + _package_cases(ctx, g)


def _package_cases(ctx, g) -> List[Tuple[str, str, Any]]:
    names = [n for n in g["readme"] if n in REF and n != "remquo"]
    exprs = [call_of("sin"), ("bin", "Add", ("i", 1), ("bin", "Mult", call_of("fabs"), ("i", 2))), ("bin", "Pow", ("m", "pt"), ("i", 2)),
             call_of("abs"), ("bin", "Div", call_of("hypot"), ("i", 2)), call_of("round"), call_of("ilogb"), call_of("nan")]
    if ctx.tier == "thorough":
        exprs += [call_of(n) for n in names if n not in ("sin", "abs", "round", "ilogb", "nan")]
    nrand = 6 if ctx.tier == "quick" else 120
    for _ in range(nrand):
        e = random_expr(ctx.rng, names, ctx.rng.choice([1, 2, 3]))
        if (called(e) or "Pow" in ops_of(e)) and not in_defect_exclusion(e):
            exprs.append(e)
    return [(b, v, e) for e in exprs for b in BACKENDS for v in INJECT_VARIANTS]


def judge_package(ctx, cases: List[Tuple[str, str, Any]]) -> List[Dict[str, Any]]:
    for b in BACKENDS:
        added_includes(b, [])
    jobs = [(b, to_src(e), v) for b, v, e in cases]
    if len(jobs) >= 64:
        import multiprocessing as mp
        from concurrent.futures import ProcessPoolExecutor

        try:
            with ProcessPoolExecutor(max_workers=min(12, os.cpu_count() or 2), mp_context=mp.get_context("fork")) as ex:
                obs = list(ex.map(_pkg_job, jobs, chunksize=16))
        except Exception:
            obs = [_pkg_job(j) for j in jobs]
    else:
        obs = [_pkg_job(j) for j in jobs]
    reqs = []
    for (b, v, e), o in zip(cases, obs):
        mds = INJECT_VARIANTS[v]
        hdr_calls = any("std::" in m for md in mds for m in md.get("private_members", []))
        reqs.append({"op": "package", "expr": to_json(e, BACKENDS[b]["sep"]), "backend": b, "hdrCalls": hdr_calls,
                     "injects": [{"header_includes": md.get("header_includes", []), "body_includes": md.get("body_includes", [])} for md in mds]})
        reqs.append({"op": "pkgspec", "files": o.get("package") or []})
    ans = ctx.driver(DRIVER, reqs)
    return [{"backend": b, "variant": v, "expr": e, "src": to_src(e), "obs": o, "model": ans[2 * i], "spec": ans[2 * i + 1]} for i, ((b, v, e), o) in enumerate(zip(cases, obs))]


def package_why(r) -> Optional[str]:
    if "err" in r["obs"] or "bad" in r["spec"]:
        return None
    if not r["spec"].get("holds", False):
        return f"the rendered {r['spec'].get('culprit')} calls a std:: math function but <cmath> is not included there, nor by a rendered header it includes"
    return None


def check_package(ctx, g) -> None:
    recs = judge_package(ctx, package_cases(ctx, g))
    for r in recs:
        ctx.count("package:" + r["variant"])
        if "err" in r["obs"]:
            ctx.count("package:not-rendered:" + r["obs"]["err"])
            continue
        smp = None
        if r["variant"] == "header-lists-cmath" and ctx.dist.get("sampled:package", 0) < 1:
            ctx.count("sampled:package")
            smp = {"backend": r["backend"], "inject_code": INJECT_VARIANTS[r["variant"]], "query_expression": r["src"],
                   "rendered_cpp_files": [{"name": f["name"], "calls_std_math": f["calls"], "includes": [i for i in f["incs"] if i in ("cmath", "vector") or i.endswith(".h") and "/" not in i]}
                                          for f in r["obs"]["package"]], "package_spec_on_rendered_files": r["spec"]}
        ctx.case({"pkg": [r["backend"], r["variant"], r["src"]]}, True, smp)
        why = package_why(r)
        if why:
            ctx.violation(key=f"pkg:{r['backend']}:{r['variant']}:{r['src']}", what=f"{r['src']} on {r['backend']} with inject_code {INJECT_VARIANTS[r['variant']]}: {why}",
                          case={"backend": r["backend"], "expr": r["expr"], "src": r["src"], "inject": r["variant"]},
                          observed={"rendered_cpp_files": r["obs"]["package"]}, how=HOW + " (wrap the dataset in MetaData(ds, {'metadata_type': 'inject_code', ...}) as given in `what`)")
        # the tie: per file, what the model's package adds to the baseline vs what the rendered file adds
        if "bad" in r["model"] or "err" in r["model"]:
            if "err" in r["model"]:
                ctx.disagreement("package: the model refuses an expression the translator renders", {"backend": r["backend"], "src": r["src"]}, r["model"], "rendered")
            continue
        base = _BASELINE_PKG[r["backend"]]
        seen = {f["name"]: f for f in r["obs"]["package"]}
        for mf in r["model"]["files"]:
            of = seen.get(mf["name"])
            if of is None:
                ctx.disagreement("package: files rendered", {"backend": r["backend"], "variant": r["variant"], "src": r["src"]}, mf["name"], sorted(seen))
                continue
            b0 = set(base.get(mf["name"], []))
            m_add, o_add = sorted(set(mf["incs"]) - b0), sorted(set(of["incs"]) - b0)
            m_str = [i for i in mf["incs"] if i in seen]
            o_str = [i for i in of["incs"] if i in seen]
            if m_add != o_add or sorted(set(m_str)) != sorted(set(o_str)) or mf["calls"] != of["calls"]:
                ctx.disagreement("package: include lists of the rendered C++ files (packageFiles vs write_cpp_files + templates)",
                                 {"backend": r["backend"], "variant": r["variant"], "src": r["src"], "file": mf["name"]},
                                 {"added": m_add, "rendered_headers": m_str, "calls": mf["calls"]}, {"added": o_add, "rendered_headers": o_str, "calls": of["calls"]})
        for of in r["obs"]["package"]:
            if of["calls"] and of["name"] not in {mf["name"] for mf in r["model"]["files"]}:
                ctx.disagreement("package: a rendered file the model does not know calls a math function", {"backend": r["backend"], "src": r["src"]}, None, of["name"])


# --------------------------------------------------------------------------------------------
# the function used TOGETHER with the other sources of include files a query has
# --------------------------------------------------------------------------------------------

COMPANION_INJECTS = ["none", "none", "none", "body-lists-math.h", "header-lists-math.h", "neither-lists-cmath", "body-lists-cmath"]


def companion_query(backend: str, comp: str, shape: str, e, inject: str = "none") -> Tuple[str, Any]:
    """(query text, F as the model sees it)"""
    b = BACKENDS[backend]
    C = COMPANIONS[comp]
    mds: List[Dict[str, Any]] = [dict(md, metadata_type="inject_code") for md in INJECT_VARIANTS[inject]]
    mds += [{"metadata_type": "add_method_type_info", "type_string": b["elem"], "method_name": m, "return_type": ty} for m, ty in TYPED_METHODS.items()]
    mds += list(C.get("md", []))
    if C.get("collection"):
        mds.append(COLLECTION_MD[backend])
    ds = "EventDataset()"
    for m in mds:
        ds = f"MetaData({ds}, {m!r})"
    F = to_src(e)
    if shape in COLLECTION_SHAPES:
        things, col = "e.C12Things('c12').Select(lambda t: t.pt())", f"{b['coll']}.Select(lambda j: {F})"
        body = f"({things}, {col})" if shape == "collection-first" else f"({col}, {things})"
        return f"Select({ds}, lambda e: {body})", e
    if shape == "tuple-function-first":
        body = f"({F}, {C['plain']})"
    elif shape == "tuple-companion-first":
        body = f"({C['plain']}, {F})"
    elif shape == "product-function-first":
        body = f"{F} * {C['plain']}"
    elif shape == "product-companion-first":
        body = f"{C['plain']} * {F}"
    elif shape == "function-of-companion":
        body = F  # (e holds the ("comp", name) operand)
    elif shape == "companion-of-function":
        body = C["wrap"](F)
    else:
        raise ValueError(shape)
    return f"Select(SelectMany({ds}, lambda e: {b['coll']}), lambda j: {body})", e


def companion_expr(f: str, comp: str, shape: str):
    e = call_of(f)
    if shape == "function-of-companion":
        args = list(e[2])
        k = next((i for i, a in enumerate(args) if a[0] == "m"), None)
        if k is None:
            return None
        args[k] = ("comp", comp)
        e = ("call", f, args)
    return e


def companion_rows(shape: str, comp: str, e) -> Any:
    """(row per, column expressions) for the job oracle"""
    if shape in COLLECTION_SHAPES:
        return ("event", ["vecpt", "vecF"] if shape == "collection-first" else ["vecF", "vecpt"])
    C = ("comp", comp)
    return ("jet", {"tuple-function-first": [e, C], "tuple-companion-first": [C, e], "product-function-first": [("bin", "Mult", e, C)],
                    "product-companion-first": [("bin", "Mult", C, e)], "function-of-companion": [e], "companion-of-function": [("compw", comp, e)]}[shape])


def companion_requests(shape: str, comp: str) -> Tuple[List[str], List[str]]:
    """the include requests the companion makes before / after the function's own (see COMPANION_SHAPES)"""
    incs = list(COMPANIONS[comp]["incs"])
    before = shape in ("tuple-companion-first", "product-companion-first", "function-of-companion", "companion-of-function", "collection-first")
    return (incs, []) if before else ([], incs)


def _companion_job(job) -> Dict[str, Any]:
    import logging

    backend, comp, shape, e, inject = job
    logging.disable(logging.CRITICAL)
    b = BACKENDS[backend]
    d = Path(tempfile.mkdtemp(prefix="c12_"))
    try:
        a = ast.parse(companion_query(backend, comp, shape, e, inject)[0], mode="eval").body
        exe = _executor(backend)
        info = exe.write_cpp_files(exe.apply_ast_transformations(a), d)
        files = {f: (d / f).read_text() for f in info.all_filenames if (d / f).is_file() and f.endswith(CPP_SUFFIXES)}
        main = files[b["main"]]
    except Exception as ex:
        return {"err": type(ex).__name__, "msg": str(ex)[:200]}
    finally:
        shutil.rmtree(d, ignore_errors=True)
        logging.disable(logging.NOTSET)
    base = _BASELINE_PKG[backend]
    pkg = package_of(files)
    seen = {f["name"]: f for f in pkg}
    # what this translation added to the main file, in the order of the rendered #include lines; and what the main file sees
    # through the rendered header it includes (ATLAS: query.h)
    added = [i for i in seen[b["main"]]["incs"] if i not in base.get(b["main"], [])]
    through = [i for h in seen[b["main"]]["incs"] if h in seen and h != b["main"] for i in seen[h]["incs"] if i not in base.get(h, [])]
    return {"package": pkg, "added": added, "through_header": through, "body": method_body(backend, main), "members": class_members(backend, files),
            "math_calls": sorted(set(m.group(1) for m in (_CALL_RE.finditer(main) if _CALL_RE else [])))}


def companion_cases(ctx, g) -> List[Tuple[str, str, str, Any, str]]:
    names = [n for n in g["readme"] if n in REF and n != "remquo"]
    out: List[Tuple[str, str, str, Any, str]] = []
    k = 0
    combos = [(c, s) for c in COMPANIONS for s in (COLLECTION_SHAPES if COMPANIONS[c].get("collection") else COMPANION_SHAPES)
              if not (s == "companion-of-function" and COMPANIONS[c]["wrap"] is None)]
    for comp, shape in combos:
        for b in COMPANIONS[comp]["backends"]:
            fs = names if ctx.tier == "thorough" else [names[(k + i * 19) % len(names)] for i in range(2)]
            k += 1
            for f in fs:
                e = companion_expr(f, comp, shape)
                if e is not None:
                    out.append((b, comp, shape, e, "none"))
    for _ in range(40 if ctx.tier == "quick" else 600):
        comp, shape = ctx.rng.choice(combos)
        e = companion_expr(ctx.rng.choice(names), comp, shape)
        if e is not None:
            out.append((ctx.rng.choice(COMPANIONS[comp]["backends"]), comp, shape, e, ctx.rng.choice(COMPANION_INJECTS)))
    return [c for c in out if not in_defect_exclusion(c[3])]


def companion_expectation(ctx, shape: str, comp: str, e) -> Optional[Dict[str, Any]]:
    per, cols = companion_rows(shape, comp, e)
    events = [[tuple(s), SECOND_JET] for s in samples_for(e, "quick")]
    exp: List[Any] = []
    for jets in events:
        if per == "event":
            vf = [robust_value(ctx, e, j, jets) for j in jets]
            row = [([j[0] for j in jets] if c == "vecpt" else (None if any(v is None for v in vf) else vf)) for c in cols]
            exp.append([row])
        else:
            exp.append([[robust_value(ctx, x, s, jets) for x in cols] for s in jets])
    return {"events": events, "expected": exp}


def judge_companions(ctx, cases: List[Tuple[str, str, str, Any, str]]) -> List[Dict[str, Any]]:
    for b in BACKENDS:
        added_includes(b, [])
    package_of({})  # (the pattern of math calls is built before forking)
    if len(cases) >= 64:
        import multiprocessing as mp
        from concurrent.futures import ProcessPoolExecutor

        try:
            with ProcessPoolExecutor(max_workers=min(12, os.cpu_count() or 2), mp_context=mp.get_context("fork")) as ex:
                obs = list(ex.map(_companion_job, cases, chunksize=16))
        except Exception:
            obs = [_companion_job(j) for j in cases]
    else:
        obs = [_companion_job(j) for j in cases]
    reqs = []
    for (b, comp, shape, e, inject), o in zip(cases, obs):
        mds = INJECT_VARIANTS[inject]
        pre, post = companion_requests(shape, comp)
        reqs.append({"op": "package", "expr": to_json(e, BACKENDS[b]["sep"]), "backend": b, "hdrCalls": False, "pre": pre, "post": post,
                     "injects": [{"header_includes": md.get("header_includes", []), "body_includes": md.get("body_includes", [])} for md in mds]})
        reqs.append({"op": "pkgspec", "files": o.get("package") or []})
    ans = ctx.driver(DRIVER, reqs)
    recs, items = [], []
    for i, ((b, comp, shape, e, inject), o) in enumerate(zip(cases, obs)):
        r = {"backend": b, "companion": comp, "shape": shape, "expr": e, "inject": inject, "src": to_src(e), "query": companion_query(b, comp, shape, e, inject)[0],
             "obs": o, "model": ans[2 * i], "spec": ans[2 * i + 1], "job": None}
        if "err" not in o and o.get("body") and "bad" not in r["model"] and "err" not in r["model"]:
            je = companion_expectation(ctx, shape, comp, e)
            if je:
                r["job"] = je
                items.append({"id": i, "backend": b, "body": o["body"], "members": o["members"], "events": je["events"], "incs": o["added"] + o["through_header"]})
        recs.append(r)
    if items:
        got = job_eval_exact(items)
        ctx.count("g++:companion-methods-compiled-with-exactly-the-added-includes", len(items))
        ctx.count("g++:companion-translation-units", len({tuple(it["incs"]) for it in items}))
        for it in items:
            recs[it["id"]]["job"]["got"] = got.get(it["id"])
    return recs


def companion_why(r) -> Optional[str]:
    if "err" in r["obs"]:
        return f"a documented function used together with {r['companion']} ({r['shape']}) was rejected ({r['obs']['err']}: {r['obs'].get('msg')})"
    why = []
    if "bad" not in r["spec"] and not r["spec"].get("holds", False):
        main = next((f for f in r["obs"]["package"] if f["name"] == r["spec"].get("culprit")), None)
        std = [i for i in (main["incs"] if main else []) if "/" not in i]
        why.append(f"the rendered {r['spec'].get('culprit')} calls {', '.join(n + '(' for n in r['obs'].get('math_calls', [])) or 'a std:: math function'} but the header that declares "
                   f"it in namespace std, <cmath>, is not included there nor by a rendered header it includes (it includes {std})")
    jw = job_why({"job": r["job"], "expr": r["expr"] if COMPANIONS[r["companion"]]["type"] == "double" else ("bin", "Add", r["expr"], ("call", "x", [r["expr"]] * 8))})
    if jw:
        why.append(jw.replace("against the mock event model", "with exactly the include files this translation added (math.h: a stand-in that declares nothing in namespace std)"))
    return "; ".join(why) if why else None


def check_companions(ctx, g) -> None:
    pre = [(c["backend"], c["companion"], c["shape"], _tuplify(c["expr"]), c.get("inject", "none")) for c in vlib.corpus_cases(ID)
           if c.get("companion") in COMPANIONS and c.get("shape") in COMPANION_SHAPES + COLLECTION_SHAPES]
    recs = judge_companions(ctx, pre + companion_cases(ctx, g))
    for r in recs:
        ctx.count("companion:" + r["companion"])
        ctx.count("companion-shape:" + r["shape"])
        ctx.count("companion-inject:" + r["inject"])
        if "err" in r["obs"]:
            ctx.count("companion:not-rendered:" + r["obs"]["err"])
        if r["job"] and isinstance(r["job"].get("got"), dict) and "events" in r["job"]["got"]:
            ctx.count("g++:companion-cases-evaluated")
        smp = None
        if r["companion"] == "DeltaR" and r["shape"] == "function-of-companion" and ctx.dist.get("sampled:companion", 0) < 1 and "err" not in r["obs"] and r["job"] and r["job"].get("got"):
            ctx.count("sampled:companion")
            smp = {"backend": r["backend"], "companion": r["companion"], "shape": r["shape"], "query_expression": r["src"], "includes_added_to_the_rendered_main_file_in_order": r["obs"]["added"],
                   "package_spec_on_rendered_files": r["spec"], "model_include_list": next((f["incs"] for f in r["model"].get("files", []) if f["name"] == BACKENDS[r["backend"]]["main"]), None),
                   "compiled_with_exactly_those_includes_rows": (r["job"]["got"].get("events") or {}).get(0), "function_of_that_name_rows": r["job"]["expected"][0]}
        ctx.case({"companion": [r["backend"], r["companion"], r["shape"], r["src"], r["inject"]]}, True, smp)
        why = companion_why(r)
        if why:
            ctx.violation(key=f"companion:{r['backend']}:{r['companion']}:{r['shape']}:{r['inject']}:{r['src']}",
                          what=f"{r['src']} with {r['companion']} ({r['shape']}) on {r['backend']}, inject_code {r['inject']}: {why}",
                          case={"backend": r["backend"], "companion": r["companion"], "shape": r["shape"], "expr": r["expr"], "src": r["src"], "inject": r["inject"], "query": r["query"]},
                          observed={"rendered_cpp_files": r["obs"].get("package"), "added_includes": r["obs"].get("added"), "job": r.get("job")},
                          how="python: ast.parse(<case.query>, mode='eval').body through <backend>_executor().apply_ast_transformations + write_cpp_files; read the #include lines of "
                              "query.cxx / Analyzer.cc; or ./check C12 --replay <this file>")
        if "err" in r["obs"]:
            if "ok" in r["model"] or "files" in r["model"]:
                ctx.disagreement("companions: accepted by the model vs by the translator", {"backend": r["backend"], "companion": r["companion"], "shape": r["shape"], "src": r["src"]},
                                 "accepted", {"refused": r["obs"]["err"]})
            continue
        if "bad" in r["model"] or "err" in r["model"]:
            if "err" in r["model"]:
                ctx.disagreement("companions: the model refuses an expression the translator renders", {"backend": r["backend"], "src": r["src"]}, r["model"], "rendered")
            continue
        # the tie: the include list the model gives the main file (withCompanions: requests in translation order) vs the rendered one
        mainf = BACKENDS[r["backend"]]["main"]
        base = _BASELINE_PKG[r["backend"]]
        seen = {f["name"] for f in r["obs"]["package"]}
        mf = next(f for f in r["model"]["files"] if f["name"] == mainf)
        m_added = [i for i in mf["incs"] if i not in base.get(mainf, []) and i not in seen]
        o_added = [i for i in r["obs"]["added"] if i not in seen]
        if m_added != o_added:
            ctx.disagreement("companions: include files added to the rendered main file, in order (withCompanions vs generated_code.add_include + write_cpp_files)",
                             {"backend": r["backend"], "companion": r["companion"], "shape": r["shape"], "inject": r["inject"], "src": r["src"]}, m_added, o_added)


# --------------------------------------------------------------------------------------------
# placements: the function is accepted wherever an expression may stand
# --------------------------------------------------------------------------------------------

PLACE_TOKEN = "@F@"
PLACEMENTS: Dict[str, str] = {
    "method-argument": "Select(SelectMany(DS, lambda e: COLL), lambda j: j.mD(@F@))",
    "method-argument-in-arithmetic": "Select(SelectMany(DS, lambda e: COLL), lambda j: 1 + j.mD(@F@, j.pt()) * 2)",
    "cpp-function-argument": "Select(SelectMany(DS, lambda e: COLL), lambda j: c12_twice(@F@))",
    "tuple-element": "Select(SelectMany(DS, lambda e: COLL), lambda j: (j.pt(), @F@))",
    "dict-element": "Select(SelectMany(DS, lambda e: COLL), lambda j: {'a': j.pt(), 'b': @F@})",
    "index-expression": "Select(SelectMany(DS, lambda e: COLL), lambda j: j.vD()[@F@])",
    "conditional-test": "Select(SelectMany(DS, lambda e: COLL), lambda j: 1.5 if @F@ > 0.5 else 2.5)",
    "conditional-arms": "Select(SelectMany(DS, lambda e: COLL), lambda j: @F@ if j.pt() > 1.0 else -@F@)",
    "other-function-argument": "Select(SelectMany(DS, lambda e: COLL), lambda j: sqrt(@F@))",
    "where-predicate": "Select(DS, lambda e: COLL.Where(lambda j: @F@ < 2.4).Count())",
    "where-predicate-then-method": "Select(DS, lambda e: COLL.Where(lambda j: @F@ < 2.4).First().pt())",
    "inner-select": "Select(DS, lambda e: COLL.Select(lambda j: @F@))",
    "boolean-operand": "Select(SelectMany(DS, lambda e: COLL), lambda j: @F@ > 1.0 and j.pt() > 2)",
    "method-argument-of-first": "Select(DS, lambda e: COLL.First().mD(@F@))".replace("@F@", "@G@"),
    "list-element": "Select(SelectMany(DS, lambda e: COLL), lambda j: [j.pt(), @F@])",
    "or-operand": "Select(SelectMany(DS, lambda e: COLL), lambda j: @F@ > 1.0 or j.pt() > 2)",
    "aggregate-body": "Select(DS, lambda e: COLL.Aggregate(0.0, lambda acc, j: acc + @F@))",
    "aggregate-seed": "Select(DS, lambda e: COLL.Aggregate(@F@, lambda acc, j: acc + j.pt()))".replace("@F@", "@G@"),
    "sum-of-inner-select": "Select(DS, lambda e: COLL.Select(lambda j: @F@).Sum())",
    # shadowing: a method / a lambda parameter / a user C++ function NAMED LIKE the function (@N@ = its name)
    "shadow-method": "Select(SelectMany(DS, lambda e: COLL), lambda j: j.@N@(@F@))",
    "shadow-lambda-parameter": "Select(DS, lambda e: COLL.Select(lambda @N@: @FN@))",
    "shadow-user-function": "Select(SelectMany(DS, lambda e: COLL), lambda j: @F@)",
    # the value of the function is the row (object level): the positions the histories are run on
    "column": "Select(SelectMany(DS, lambda e: COLL), lambda j: @F@)",
    "column-in-arithmetic": "Select(SelectMany(DS, lambda e: COLL), lambda j: @F@ * 2 + 1)",
    # event level: the operands are event-level values (EVENT_LEAF_KINDS) whose evaluation emits statements and may leave
    # the translator inside new blocks; the call has to be put where those operands are alive
    "event-column": "Select(DS, lambda e: @F@)",
    "event-column-in-arithmetic": "Select(DS, lambda e: @F@ * 2 + 1)",
    "event-tuple-first": "Select(DS, lambda e: (@F@, COLL.Count()))",
    "event-tuple-last": "Select(DS, lambda e: (COLL.Count(), @F@))",
    "event-dict-element": "Select(DS, lambda e: {'n': COLL.Count(), 'v': @F@})",
    "event-other-function-argument": "Select(DS, lambda e: atan(@F@))",
    "event-filter": "Select(Where(DS, lambda e: @F@ > 0.5), lambda e: COLL.Count())",
}
EVENT_PLACEMENTS = [p for p in PLACEMENTS if p.startswith("event-")]
# placements whose rows the compiled-job oracle knows how to predict: placement -> (row per, columns, filter)
#   row per: "jet" (one row per element of COLL) | "event";  columns: functions of the call expression F giving the
#   column expressions in booking order ("vec": one vector-valued column of F over the jets);  filter: F -> condition
_CNT = ("cnt",)
JOB_PLACEMENTS: Dict[str, Any] = {
    "column": ("jet", lambda F: [F], None),
    "column-in-arithmetic": ("jet", lambda F: [("bin", "Add", ("bin", "Mult", F, ("i", 2)), ("i", 1))], None),
    "inner-select": ("event", "vec", None),
    "event-column": ("event", lambda F: [F], None),
    "event-column-in-arithmetic": ("event", lambda F: [("bin", "Add", ("bin", "Mult", F, ("i", 2)), ("i", 1))], None),
    "event-tuple-first": ("event", lambda F: [F, _CNT], None),
    "event-tuple-last": ("event", lambda F: [_CNT, F], None),
    "event-dict-element": ("event", lambda F: [_CNT, F], None),
    "event-other-function-argument": ("event", lambda F: [("call", "atan", [F])], None),
    "event-filter": ("event", lambda F: [_CNT], lambda F: F),
    "sum-of-inner-select": ("event", "sum", None),
    "aggregate-body": ("event", "sum", None),
}
CONSTANT_PLACEMENTS = ("method-argument-of-first", "aggregate-seed")  # no loop variable there: constant arguments
SHADOW_HEADER = "c12shadow.h"
# histories: what happened to the query object before the translation that is judged
#   fresh               nothing: a new AST, a new executor
#   again               the transformed AST was already written once by the same executor
#   again-new-executor  … and is written again by another executor of the same backend
#   reapplied           apply_ast_transformations + write_cpp_files ran on the same AST object before, all of it is run again
#   same-text-before    another AST object parsed from the same query text was translated by the same executor just before
HISTORIES = ["fresh", "again", "again-new-executor", "reapplied", "same-text-before"]


def placement_query(backend: str, placement: str, e) -> str:
    b = BACKENDS[backend]
    mds = [{"metadata_type": "add_method_type_info", "type_string": b["elem"], "method_name": m, "return_type": t} for m, t in TYPED_METHODS.items()]
    mds += [{"metadata_type": "add_method_type_info", "type_string": b["elem"], "method_name": "mD", "return_type": "double"},
            {"metadata_type": "add_method_type_info", "type_string": b["elem"], "method_name": "vD", "return_type_element": "double"},
            {"metadata_type": "add_cpp_function", "name": "c12_twice", "include_files": [], "arguments": ["c12_x"],
             "code": ["double result = 2.0 * (c12_x);"], "return_type": "double"}]
    if placement == "shadow-user-function" and e[0] == "call":
        # a user C++ function with the NAME of the math function: the table wins, this code must not be used
        mds.append({"metadata_type": "add_cpp_function", "name": e[1], "include_files": [SHADOW_HEADER], "arguments": [f"c12_a{i}" for i in range(len(e[2]))],
                    "code": ["double result = 12345.0;"], "return_type": "double"})
    ds = "EventDataset()"
    for m in mds:
        ds = f"MetaData({ds}, {m!r})"
    # "@G@": the function applied to a constant (no loop variable in scope at that position)
    return placement_text(placement, to_src(e), e).replace("DS", ds).replace("COLL", b["coll"])


def placement_text(placement: str, src: str, e: Any = None) -> str:
    name = e[1] if e is not None and e[0] == "call" else "sin"
    renamed = re.sub(r"\bj\.", name + ".", src)  # the loop variable is called like the function
    return PLACEMENTS[placement].replace("@FN@", renamed).replace(PLACE_TOKEN, src).replace("@G@", src).replace("@N@", name)


# --------------------------------------------------------------------------------------------
# the POSITIONS model (lean/FaxVerif/C12/PosModel.lean): the fragment of the query around the call, as the model's QExpr
# --------------------------------------------------------------------------------------------

def _node(kind: Dict[str, Any], *kids) -> Dict[str, Any]:
    return {"k": "node", "kind": kind, "kids": list(kids)}


def _lf(t: str, ty: str) -> Dict[str, Any]:
    return {"k": "leaf", "t": t, "ty": ty}


def _meth(name: str, ret: str, *kids, coll: bool = False) -> Dict[str, Any]:
    return _node({"t": "meth", "name": name, "ret": ret, "coll": coll}, *kids)


def _cmp(op: str, l, r) -> Dict[str, Any]:
    return _node({"t": "cmp", "op": op}, l, r)


def _bin(op: str, l, r) -> Dict[str, Any]:
    return _node({"t": "bin", "op": op}, l, r)


def _lam(params: List[str], body) -> Dict[str, Any]:
    return _node({"t": "lam", "params": params}, body)


def _qcall(f: str, *args) -> Dict[str, Any]:
    return {"k": "call", "f": f, "args": list(args)}


_TIMES2PLUS1 = lambda F: _bin("Add", _bin("Mult", F, _lf("2", "int")), _lf("1", "int"))  # noqa: E731
# placement -> (F, pt, name) -> the position as the model's QExpr (j: the loop variable; pt: the operand `j.pt()`;
# COLL / the dataset are opaque leaves: what they emit is not C12's business)
POSITIONS: Dict[str, Any] = {
    "method-argument": lambda F, pt, n: _meth("mD", "double", {"k": "var", "n": "j"}, F),
    "method-argument-of-first": lambda F, pt, n: _meth("mD", "double", {"k": "var", "n": "j"}, F),
    "method-argument-in-arithmetic": lambda F, pt, n: _bin("Add", _lf("1", "int"), _bin("Mult", _meth("mD", "double", {"k": "var", "n": "j"}, F, pt), _lf("2", "int"))),
    "cpp-function-argument": lambda F, pt, n: _qcall("c12_twice", F),
    "tuple-element": lambda F, pt, n: _node({"t": "tuple"}, pt, F),
    "list-element": lambda F, pt, n: _node({"t": "list"}, pt, F),
    "dict-element": lambda F, pt, n: _node({"t": "dict", "keys": ["a", "b"]}, pt, F),
    "index-expression": lambda F, pt, n: _node({"t": "index"}, _meth("vD", "double", {"k": "var", "n": "j"}, coll=True), F),
    "conditional-test": lambda F, pt, n: _node({"t": "ite"}, _cmp("Gt", F, _lf("0.5", "double")), _lf("1.5", "double"), _lf("2.5", "double")),
    "conditional-arms": lambda F, pt, n: _node({"t": "ite"}, _cmp("Gt", pt, _lf("1.0", "double")), F, _node({"t": "un", "op": "USub"}, F)),
    "other-function-argument": lambda F, pt, n: _qcall("sqrt", F),
    "where-predicate": lambda F, pt, n: _qcall("Where", _lf("<COLL>", "coll"), _lam(["j"], _cmp("Lt", F, _lf("2.4", "double")))),
    "where-predicate-then-method": lambda F, pt, n: _qcall("Where", _lf("<COLL>", "coll"), _lam(["j"], _cmp("Lt", F, _lf("2.4", "double")))),
    "inner-select": lambda F, pt, n: _lam(["j"], F),
    "boolean-operand": lambda F, pt, n: _node({"t": "boolop", "op": "And"}, _cmp("Gt", F, _lf("1.0", "double")), _cmp("Gt", pt, _lf("2", "int"))),
    "or-operand": lambda F, pt, n: _node({"t": "boolop", "op": "Or"}, _cmp("Gt", F, _lf("1.0", "double")), _cmp("Gt", pt, _lf("2", "int"))),
    "aggregate-body": lambda F, pt, n: _qcall("Aggregate", _lf("<COLL>", "coll"), _lf("0.0", "double"), _lam(["acc", "j"], _bin("Add", {"k": "var", "n": "acc"}, F))),
    "aggregate-seed": lambda F, pt, n: _qcall("Aggregate", _lf("<COLL>", "coll"), F, _lam(["acc", "j"], _bin("Add", {"k": "var", "n": "acc"}, pt))),
    "sum-of-inner-select": lambda F, pt, n: _lam(["j"], F),
    "shadow-method": lambda F, pt, n: _meth(n, "double", {"k": "var", "n": "j"}, F),
    "shadow-lambda-parameter": lambda F, pt, n: _lam([n], F),
    "shadow-user-function": lambda F, pt, n: F,
    "column": lambda F, pt, n: F,
    "column-in-arithmetic": lambda F, pt, n: _TIMES2PLUS1(F),
    "event-column": lambda F, pt, n: F,
    "event-column-in-arithmetic": lambda F, pt, n: _TIMES2PLUS1(F),
    "event-tuple-first": lambda F, pt, n: _node({"t": "tuple"}, F, _lf("aggResult", "int")),
    "event-tuple-last": lambda F, pt, n: _node({"t": "tuple"}, _lf("aggResult", "int"), F),
    "event-dict-element": lambda F, pt, n: _node({"t": "dict", "keys": ["n", "v"]}, _lf("aggResult", "int"), F),
    "event-other-function-argument": lambda F, pt, n: _qcall("atan", F),
    "event-filter": lambda F, pt, n: _qcall("Where", _lf("<DS>", "coll"), _lam(["e"], _cmp("Gt", F, _lf("0.5", "double")))),
}
# nested positions: the constructs composed at random around the call.  A shape is a term in prefix notation over
#   F the call | P j.pt() | K 1.5 | M(x) j.mD(x) | U(x) c12_twice(x) | X(x) j.vD()[x] | S(x) sqrt(x) | N(x) -x
#   I(a,b,c) (b if a > 0.5 else c) | A(a,b) (a + b) | D(a,b) (a / b)
# registered as the placement "nested:<shape>" (query template and position builder at once)
_NESTED_ARITY = {"F": 0, "P": 0, "K": 0, "M": 1, "U": 1, "X": 1, "S": 1, "N": 1, "I": 3, "A": 2, "D": 2}


def _parse_shape(text: str):
    pos = 0

    def go():
        nonlocal pos
        h = text[pos]
        pos += 1
        n = _NESTED_ARITY[h]
        kids = []
        if n:
            assert text[pos] == "("
            pos += 1
            for i in range(n):
                kids.append(go())
                assert text[pos] == ("," if i < n - 1 else ")")
                pos += 1
        return (h, kids)

    t = go()
    assert pos == len(text)
    return t


def _shape_src(t) -> str:
    h, k = t
    s = [_shape_src(x) for x in k]
    return {"F": lambda: PLACE_TOKEN, "P": lambda: "j.pt()", "K": lambda: "1.5", "M": lambda: f"j.mD({s[0]})", "U": lambda: f"c12_twice({s[0]})",
            "X": lambda: f"j.vD()[{s[0]}]", "S": lambda: f"sqrt({s[0]})", "N": lambda: f"(-{s[0]})", "I": lambda: f"({s[1]} if {s[0]} > 0.5 else {s[2]})",
            "A": lambda: f"({s[0]} + {s[1]})", "D": lambda: f"({s[0]} / {s[1]})"}[h]()


def _shape_q(t, F, pt):
    h, k = t
    q = [_shape_q(x, F, pt) for x in k]
    j = {"k": "var", "n": "j"}
    return {"F": lambda: F, "P": lambda: pt, "K": lambda: _lf("1.5", "double"), "M": lambda: _meth("mD", "double", j, q[0]), "U": lambda: _qcall("c12_twice", q[0]),
            "X": lambda: _node({"t": "index"}, _meth("vD", "double", j, coll=True), q[0]), "S": lambda: _qcall("sqrt", q[0]),
            "N": lambda: _node({"t": "un", "op": "USub"}, q[0]), "I": lambda: _node({"t": "ite"}, _cmp("Gt", q[0], _lf("0.5", "double")), q[1], q[2]),
            "A": lambda: _bin("Add", q[0], q[1]), "D": lambda: _bin("Div", q[0], q[1])}[h]()


def register_nested(placement: str) -> bool:
    if not placement.startswith("nested:"):
        return placement in PLACEMENTS
    if placement not in PLACEMENTS:
        try:
            t = _parse_shape(placement[7:])
        except (AssertionError, KeyError, IndexError):
            return False
        PLACEMENTS[placement] = "Select(SelectMany(DS, lambda e: COLL), lambda j: " + _shape_src(t) + ")"
        POSITIONS[placement] = lambda F, pt, n, t=t: _shape_q(t, F, pt)
    return True


def random_shape(rng, depth: int) -> str:
    def go(d: int, must: bool) -> str:
        if d == 0:
            return "F" if must or rng.random() < 0.4 else rng.choice(["P", "K"])
        h = rng.choice(["M", "U", "X", "S", "N", "I", "A", "D", "I", "M", "U"])
        n = _NESTED_ARITY[h]
        where = rng.randrange(n) if must else -1
        return h + "(" + ",".join(go(d - 1 if rng.random() < 0.8 else 0, i == where) for i in range(n)) + ")"

    return go(depth, True)


_GEN_NAMES: Dict[str, str] = {}


def gen_names() -> Dict[str, str]:
    if not _GEN_NAMES:
        _GEN_NAMES.update(read_gen_names((vlib.REPO / SRC_TRANS).read_text())[0])
    return _GEN_NAMES


def position_request(backend: str, placement: str, e, o: Dict[str, Any]) -> Optional[Dict[str, Any]]:
    """the driver request `trx` for one placement: the position as QExpr, the user functions and variables of the query, and —
    when the translator accepted — the statements of the rendered per-event method and the include files it added"""
    if placement not in POSITIONS or e[0] != "call":
        return None
    sep = BACKENDS[backend]["sep"]
    name = e[1]
    obj = "obj*" if sep == "->" else "obj"
    q = POSITIONS[placement](to_json(e, sep), _lf(f"i_obj{sep}pt()", "double"), name)
    fns = [{"name": "c12_twice", "nargs": 1, "incs": [], "ret": "double"}]
    if placement == "shadow-user-function":
        fns.append({"name": name, "nargs": len(e[2]), "incs": [SHADOW_HEADER], "ret": "double"})
    gn = gen_names()
    names_re = re.compile(r"\b(i_obj|aggResult|c12_twice|" + "|".join(re.escape(v) for v in gn.values()) + r")\d+")
    vs = [["j", "i_obj", obj], ["acc", gn["accName"], "double"]]
    if placement == "shadow-lambda-parameter":
        vs.append([name, "i_obj", obj])
    lines = None
    if "err" not in o and o.get("body"):
        lines = [nospace(names_re.sub(lambda m: m.group(1), l)) for l in o["body"].splitlines() if l.strip() and not l.strip().startswith(("//", "#"))]
    return {"op": "trx", "expr": q, "fns": fns, "vars": vs, "lines": lines, "incs": o.get("incs", [])}


def norm_names(text: str) -> str:
    """the numbers the translator glues to its loop variables and accumulators are renamed away (the operand texts
    the Lean side is given are written without them)"""
    return re.sub(r"\baggResult\d+", "aggResult", re.sub(r"\bi_obj\d+", "i_obj", text))


_STR_RE = re.compile(r'"(?:[^"\\]|\\.)*"')
# a name the translator generates (unique_name: prefix + counter) used as a variable: not a member access, not qualified
_GEN_USE_RE = re.compile(r"(?<![\w.])(?<!->)(?<!::)([A-Za-z_]\w*?\d+)\b(?!\s*::)")
_FOR_RE = re.compile(r"^for\s*\(\s*auto\s*&&\s*(\w+)\s*:\s*(.*)\)$")
_DECL_RE = re.compile(r"^(?:const\s+)?[A-Za-z_][\w:<>, ]*?[\s\*&]+(\w+)\s*(?:;|=(?!=)|\()")
_NOT_DECL = re.compile(r"^(?:return|throw|if|else|for|while|delete|using|case|goto|do|virtual|static|explicit|public|private|protected|typedef)\b")


def method_body(backend: str, main: str) -> Optional[str]:
    """the text `{ … }` of the per-event method of the rendered main file (string literals may hold braces)"""
    m = re.search(r"StatusCode\s+query\s*::\s*execute\s*\(\s*\)", main) if backend == "atlas" else re.search(r"void\s+Analyzer::analyze\s*\([^)]*\)", main)
    if not m:
        return None
    i = main.find("{", m.end())
    if i < 0:
        return None
    depth, k, n = 0, i, len(main)
    while k < n:
        ch = main[k]
        if ch == '"':
            mm = _STR_RE.match(main, k)
            k = mm.end() if mm else k + 1
            continue
        if ch == "/" and main.startswith("//", k):
            k = main.find("\n", k)
            if k < 0:
                return None
            continue
        if ch == "{":
            depth += 1
        elif ch == "}":
            depth -= 1
            if depth == 0:
                return main[i:k + 1]
        k += 1
    return None


def class_members(backend: str, files: Dict[str, str]) -> List[Tuple[str, str]]:
    """(type, name) of the data members of the generated class (query.h on ATLAS, the class at the top of Analyzer.cc)"""
    text = files.get("query.h", "") if backend == "atlas" else files.get("Analyzer.cc", "")
    m = re.search(r"\bclass\s+\w+[^{;]*\{(.*?)^\};", text, re.S | re.M)
    if not m:
        return []
    out = []
    for l in m.group(1).splitlines():
        s = l.strip()
        mm = re.match(r"^((?:const\s+)?[A-Za-z_][\w:<>, ]*?[\s\*&]+)(\w+)\s*;$", s)
        if mm and "(" not in s and not _NOT_DECL.match(s):
            out.append((mm.group(1).strip(), mm.group(2)))
    return out


def method_lines(body: str) -> List[Dict[str, Any]]:
    """the per-event method cut into the lines the Lean side walks (op `alive`): kind, normalised text (only of the
    lines that mention a std:: function: only those can hold the call), generated variables declared / mentioned"""
    out: List[Dict[str, Any]] = []
    for raw in body.splitlines():
        s = raw.strip()
        if not s or s.startswith(("//", "#")):
            continue
        if s == "{":
            out.append({"k": "open", "t": "", "d": [], "u": []})
            continue
        if s == "}":
            out.append({"k": "close", "t": "", "d": [], "u": []})
            continue
        bare = _STR_RE.sub('""', s)
        text = nospace(norm_names(s)) if "std::" in bare else ""
        m = _FOR_RE.match(bare)
        if m:
            out.append({"k": "for", "t": text, "d": [m.group(1)], "u": sorted(set(_GEN_USE_RE.findall(m.group(2))))})
            continue
        decl: List[str] = []
        if not _NOT_DECL.match(bare):
            m = _DECL_RE.match(bare)
            if m:
                decl = [m.group(1)]
        out.append({"k": "stmt", "t": text, "d": decl, "u": sorted(set(_GEN_USE_RE.findall(bare)) - set(decl))})
    return out


def _place_job(job) -> Dict[str, Any]:
    import logging

    backend, placement, e = job[:3]
    history = job[3] if len(job) > 3 else "fresh"
    logging.disable(logging.CRITICAL)
    b = BACKENDS[backend]
    d = Path(tempfile.mkdtemp(prefix="c12_"))

    def write(exe, a2):
        shutil.rmtree(d, ignore_errors=True)
        d.mkdir()
        info = exe.write_cpp_files(a2, d)
        return {f: (d / f).read_text() for f in info.all_filenames if (d / f).is_file() and f.endswith(CPP_SUFFIXES)}

    try:
        a = ast.parse(placement_query(backend, placement, e), mode="eval").body
        exe = _executor(backend)
        if history == "reapplied":
            write(exe, exe.apply_ast_transformations(a))
            files = write(exe, exe.apply_ast_transformations(a))
        elif history == "same-text-before":
            write(exe, exe.apply_ast_transformations(ast.parse(placement_query(backend, placement, e), mode="eval").body))
            files = write(exe, exe.apply_ast_transformations(a))
        else:
            a2 = exe.apply_ast_transformations(a)
            files = write(exe, a2)
            if history == "again":
                files = write(exe, a2)
            elif history == "again-new-executor":
                files = write(_executor(backend), a2)
        main = files[b["main"]]
    except Exception as ex:
        return {"err": type(ex).__name__, "msg": str(ex)[:200]}
    finally:
        shutil.rmtree(d, ignore_errors=True)
        logging.disable(logging.NOTSET)
    code = [nospace(norm_names(l)) for l in main.splitlines() if "std::" in l and not l.lstrip().startswith(("#", "//"))]
    body = method_body(backend, main)
    return {"code": "\n".join(code), "incs": added_includes(backend, INCLUDE_RE.findall(main)), "body": body,
            "members": class_members(backend, files)}


# --------------------------------------------------------------------------------------------
# the compiled job: the per-event method the translator rendered, run over mock events
# --------------------------------------------------------------------------------------------

JOB_MOCK = r"""#include <cstdio>
#include <vector>
#include <string>
#include <stdexcept>
%(includes)s
struct Jet { double a, b, c; int n; float x;
  double pt() const { return a; } double eta() const { return b; } double phi() const { return c; }
  int nI() const { return n; } float xF() const { return x; }
  template <class T> T getAttribute(const std::string&) const { return (T) 0.25; } };
typedef std::vector<const Jet*> PtrColl;
typedef std::vector<Jet> ValColl;
namespace xAOD { typedef ::Jet Jet; typedef ::PtrColl JetContainer; }
namespace reco { typedef ::Jet Muon; typedef ::ValColl MuonCollection; }
namespace pat { typedef ::Jet Muon; typedef ::ValColl MuonCollection; }
static PtrColl g_ptrs; static ValColl g_vals; static int g_ev = 0;
struct Store { bool retrieve(const PtrColl*& r, const char*) { r = &g_ptrs; return true; } };
static Store g_store; static Store* evtStore() { return &g_store; }
#define ANA_CHECK(x) x
struct StatusCode { enum { SUCCESS = 0 }; };
static void (*g_fill)() = 0;
struct TTree { void Fill() { g_fill(); } };
static TTree g_tree; static TTree* tree(const char*) { return &g_tree; } static TTree* myTree = &g_tree;
namespace edm {
  template <class T> struct Handle { const T* p = 0; const T& operator*() const { return *p; } const T* operator->() const { return p; } };
  template <class T> struct EDGetTokenT {};
  struct Event { bool getByLabel(const char*, Handle<ValColl>& h) const { h.p = &g_vals; return true; }
                 bool getByToken(const EDGetTokenT<ValColl>&, Handle<ValColl>& h) const { h.p = &g_vals; return true; } };
  struct EventSetup {};
}
static void pv(double v) { printf(" %%a", v); }
template <class T> static void pv(const std::vector<T>& v) { printf(" ["); for (const auto& x : v) pv((double) x); printf(" ]"); }
static void set_event(const double* j, int n) { g_vals.clear(); g_ptrs.clear();
  for (int k = 0; k < n; k++) g_vals.push_back(Jet{j[3 * k], j[3 * k + 1], j[3 * k + 2], %(ni)d, %(xf)sf});
  for (auto& x : g_vals) g_ptrs.push_back(&x); }
%(cases)s
int main() {
  setvbuf(stdout, 0, _IOLBF, 0);
  edm::Event ev; edm::EventSetup es;
%(calls)s
  return 0;
}
"""


def job_eval(items: List[Dict[str, Any]], timeout: int = 300) -> Dict[int, Any]:
    """`_job_eval` on batches of 250 methods, four compilers at a time"""
    todo = [it for it in items if it.get("body")]
    chunks = [todo[i:i + 250] for i in range(0, len(todo), 250)]
    out: Dict[int, Any] = {}
    if len(chunks) <= 1:
        return _job_eval(todo, timeout)
    from concurrent.futures import ThreadPoolExecutor

    with ThreadPoolExecutor(max_workers=4) as ex:
        for res in ex.map(lambda c: _job_eval(c, timeout), chunks):
            out.update(res)
    return out


# stand-ins for headers that are not on this machine / must not leak: `math.h` puts nothing into namespace std (the C header
# declares ::sqrt …, only <cmath> declares std::sqrt; libstdc++'s own math.h wrapper would hide a missing <cmath>)
JOB_STUBS = {
    "math.h": "/* stand-in for the C header: nothing in namespace std */\n",
    "TVector2.h": "struct TVector2 { static double Phi_mpi_pi(double x) { const double pi = 3.14159265358979323846;\n"
                  "  while (x >= pi) x -= 2 * pi; while (x < -pi) x += 2 * pi; return x; } };\n",
}


def job_eval_exact(items: List[Dict[str, Any]], timeout: int = 300) -> Dict[int, Any]:
    """the per-event methods compiled with EXACTLY the include files their translation added to the rendered file
    (item["incs"]), no <cmath> from the mock: one translation unit per distinct include list, four compilers at a time"""
    groups: Dict[Tuple[str, ...], List[Dict[str, Any]]] = {}
    for it in items:
        if it.get("body"):
            groups.setdefault(tuple(it["incs"]), []).append(it)
    out: Dict[int, Any] = {}
    from concurrent.futures import ThreadPoolExecutor

    units = [(list(k), v[i:i + 250]) for k, v in groups.items() for i in range(0, len(v), 250)]
    with ThreadPoolExecutor(max_workers=4) as ex:
        for res in ex.map(lambda u: _job_eval(u[1], timeout, u[0]), units):
            out.update(res)
    return out


def _job_eval(items: List[Dict[str, Any]], timeout: int = 300, exact: Optional[List[str]] = None) -> Dict[int, Any]:
    """items: {"id", "backend", "body", "members": [(type, name)], "events": [[(pt, eta, phi)…]…]} ->
    id -> {"events": {k: [[column values…]…] | "threw"}} | {"compile": msg}.
    The per-event method is compiled as the translator wrote it (its data members become variables of a namespace of
    its own) against a stand-in for the event store, the collections and the tree; every Fill() prints the columns."""
    out: Dict[int, Any] = {}
    todo = [it for it in items if it.get("body")]
    d = Path(tempfile.mkdtemp(prefix="c12_job_"))
    try:
        for _round in range(12):
            if not todo:
                break
            cases, calls = [], []
            for it in todo:
                i = it["id"]
                cols = [(ty, nm) for ty, nm in it["members"] if nm.startswith("_")]
                other = [(ty, nm) for ty, nm in it["members"] if not nm.startswith("_") and nm != "myTree"]
                ret = "int" if it["backend"] == "atlas" else "void"
                mem = "\n".join(f"  {ty} {nm}{'' if '<' in ty else ' = 0'};" for ty, nm in cols) + "\n" + "\n".join(f"  {ty} {nm};" for ty, nm in other)
                fill = " ".join(f"pv({nm});" for _, nm in cols)
                cases.append(f"namespace c12_{i} {{\n{mem}\n  static void fill() {{ printf(\"ROW {i} %d\", g_ev); {fill} printf(\"\\n\"); }}\n"
                             f"#line 1 \"c12job_{i}\"\n  static {ret} event(const edm::Event &iEvent, const edm::EventSetup &iSetup)\n{it['body']}\n}}\n#line 1 \"c12mock\"")
                for k, jets in enumerate(it["events"]):
                    flat = ", ".join(repr(float(v)) for j in jets for v in j)
                    calls.append(f"  {{ static const double js[] = {{{flat}}}; set_event(js, {len(jets)}); g_ev = {k}; g_fill = &c12_{i}::fill; "
                                 f"try {{ c12_{i}::event(ev, es); }} catch (const std::exception&) {{ printf(\"THROW {i} {k}\\n\"); }} }}")
            if exact is None:  # (which header the translator asks for is judged by the Spec on the include lists)
                includes = "#include <cmath>"
            else:
                includes = "\n".join(f'#include "{i}"' for i in exact) or "// the translation added no include file"
                for nm, txt in JOB_STUBS.items():
                    (d / nm).write_text(txt)
            (d / "t.cc").write_text(JOB_MOCK % {"ni": N_I, "xf": repr(X_F), "includes": includes, "cases": "\n".join(cases), "calls": "\n".join(calls)})
            p = subprocess.run(["g++", "-std=c++17", "-O0", "-w", "-o", str(d / "t"), str(d / "t.cc")], capture_output=True, text=True, timeout=timeout)
            if p.returncode != 0:
                bad = set()
                for m in re.finditer(r"c12job_(\d+):\d+:\d+: error: (.*)", p.stderr):
                    cid = int(m.group(1))
                    if cid not in bad:
                        bad.add(cid)
                        out[cid] = {"compile": m.group(2)[:200]}
                    elif "std" in m.group(2) and "std" not in out[cid]["compile"]:
                        out[cid] = {"compile": m.group(2)[:200]}
                if not bad:
                    raise vlib.InternalError("g++ failed outside the generated per-event methods: " + p.stderr[:800])
                todo = [it for it in todo if it["id"] not in bad]
                continue
            r = subprocess.run([str(d / "t")], capture_output=True, text=True, timeout=timeout)
            if r.returncode != 0:
                raise vlib.InternalError(f"the compiled mock job died (status {r.returncode}): " + r.stderr[:300])
            res: Dict[int, Dict[int, Any]] = {it["id"]: {k: [] for k in range(len(it["events"]))} for it in todo}
            for l in r.stdout.splitlines():
                parts = l.split()
                if len(parts) >= 3 and parts[0] == "THROW":
                    res[int(parts[1])][int(parts[2])] = "threw"
                elif len(parts) >= 3 and parts[0] == "ROW":
                    row: List[Any] = []
                    cur: Optional[List[float]] = None
                    for tok in parts[3:]:
                        if tok == "[":
                            cur = []
                        elif tok == "]":
                            row.append(cur)
                            cur = None
                        else:
                            c = tok.lower()
                            v = float("nan") if "nan" in c else (float("inf") if c == "inf" else (float("-inf") if c == "-inf" else float.fromhex(c)))
                            (cur if cur is not None else row).append(v)
                    slot = res[int(parts[1])][int(parts[2])]
                    if isinstance(slot, list):
                        slot.append(row)
            for it in todo:
                out[it["id"]] = {"events": res[it["id"]]}
            todo = []
    finally:
        shutil.rmtree(d, ignore_errors=True)
    return out


SECOND_JET = (1.25, 0.5, -0.75)


def robust_value(ctx, x, s, ev) -> Optional[float]:
    """python's value of `x` for the jet `s` of the event `ev`; None where it is not defined or ill-conditioned"""
    try:
        v = float(py_eval(x, s, 0.0, ev))
        if len(called(x)) > 1 or len(ops_of(x)) > 0:
            for jit in (1e-11, -1e-11):
                if not close(v, float(py_eval(x, s, jit, ev)), 1e-10):
                    ctx.count("g++:ill-conditioned-sample-skipped")
                    return None
        return v if abs(v) < 1e15 or math.isinf(v) or math.isnan(v) else None
    except (Skip, OverflowError):
        return None


def job_expectation(ctx, placement: str, e) -> Optional[Dict[str, Any]]:
    """mock events (two jets each: a sample point of the function's domain and a fixed second jet) and, per event, the rows
    python numerics give (None: not predicted — a value is undefined or ill-conditioned there)"""
    per, cols, filt = JOB_PLACEMENTS[placement]
    events = [[tuple(s), SECOND_JET] for s in samples_for(e, "quick")]
    exp: List[Any] = []
    for jets in events:
        rows: Optional[List[List[Any]]] = []
        for s in (jets if per == "jet" else [jets[0]]):
            if cols in ("vec", "sum"):
                vals = [robust_value(ctx, e, j, jets) for j in jets]
                row = [None if any(v is None for v in vals) else (vals if cols == "vec" else math.fsum(vals))]
            else:
                row = [robust_value(ctx, x, s, jets) for x in cols(e)]
            if filt is not None:
                c = robust_value(ctx, filt(e), s, jets)
                if c is None or abs(c - 0.5) < 1e-6:
                    rows = None
                    break
                if not c > 0.5:
                    continue
            rows.append(row)
        exp.append(rows)
    if all(r is None or all(v is None for row in r for v in row) for r in exp) and filt is None:
        return None
    return {"events": events, "expected": exp}


def job_why(r) -> Optional[str]:
    j = r.get("job")
    if not j or "got" not in j:
        return None
    g = j["got"]
    if g is None:
        return None
    if "compile" in g:
        return "the per-event method the translator rendered does not compile against the mock event model: " + g["compile"]
    tol = 1e-6 if size(r["expr"]) > 8 else 1e-9
    for k, want in enumerate(j["expected"]):
        have = g["events"].get(k)
        if want is None:
            continue
        at = f"on the event with jets (pt, eta, phi) = {j['events'][k]}"
        if have == "threw":
            return f"{at} the generated method throws"
        if len(have) != len(want):
            return f"{at} the generated method fills {len(have)} row(s), the query has {len(want)}"
        for hr, wr in zip(have, want):
            if len(hr) != len(wr):
                return f"{at} a row has {len(hr)} columns, the query has {len(wr)}"
            for hv, wv in zip(hr, wr):
                if wv is None:
                    continue
                if isinstance(wv, list):
                    if not isinstance(hv, list) or len(hv) != len(wv) or not all(close(a, b, tol) for a, b in zip(wv, hv)):
                        return f"{at} the generated job gives {hv!r}, the function of that name gives {wv!r}"
                elif isinstance(hv, list) or not close(wv, hv, tol):
                    return f"{at} the generated job gives {hv!r}, the function of that name gives {wv!r}"
    return None


def judge_placements(ctx, cases: List[Tuple[Any, ...]]) -> List[Dict[str, Any]]:
    """cases: (backend, placement, expr[, history])"""
    for b in BACKENDS:
        added_includes(b, [])
    if len(cases) >= 64:
        import multiprocessing as mp
        from concurrent.futures import ProcessPoolExecutor

        try:
            with ProcessPoolExecutor(max_workers=min(12, os.cpu_count() or 2), mp_context=mp.get_context("fork")) as ex:
                obs = list(ex.map(_place_job, cases, chunksize=16))
        except Exception:
            obs = [_place_job(j) for j in cases]
    else:
        obs = [_place_job(j) for j in cases]
    reqs = []
    for c, o in zip(cases, obs):
        b, pl, e = c[:3]
        sep = BACKENDS[b]["sep"]
        ok = "err" not in o
        reqs.append({"op": "tr", "expr": to_json(e, sep)})
        reqs.append({"op": "placement", "expr": to_json(e, sep), "leaves": leaves_of(e, sep), "obs": {"code": o["code"], "incs": o["incs"]} if ok else None})
        reqs.append({"op": "alive", "expr": to_json(e, sep), "leaves": leaves_of(e, sep), "members": [nm for _, nm in o["members"]] if ok else [],
                     "lines": method_lines(o["body"]) if ok and o.get("body") else []})
        reqs.append(position_request(b, pl, e, o) or {"op": "accepted", "name": "sin"})
    ans = ctx.driver(DRIVER, reqs)
    recs = []
    items = []
    for i, (c, o) in enumerate(zip(cases, obs)):
        b, pl, e = c[:3]
        r = {"backend": b, "placement": pl, "expr": e, "history": c[3] if len(c) > 3 else "fresh", "src": to_src(e), "obs": o,
             "model": ans[4 * i], "spec": ans[4 * i + 1], "alive": ans[4 * i + 2], "job": None,
             "pos": ans[4 * i + 3] if position_request(b, pl, e, o) else None, "pos_expr": (position_request(b, pl, e, o) or {}).get("expr")}
        if "err" not in o and not o.get("body"):
            r["alive"] = {"bad": "the per-event method was not found in the rendered main file"}
        if pl in JOB_PLACEMENTS and "err" not in o and o.get("body") and "bad" not in r["model"] and r["model"].get("documented"):
            je = job_expectation(ctx, pl, e)
            if je:
                r["job"] = je
                items.append({"id": i, "backend": b, "body": o["body"], "members": o["members"], "events": je["events"]})
        recs.append(r)
    if items:
        got = job_eval(items)
        ctx.count("g++:per-event-methods-compiled", len(items))
        for it in items:
            recs[it["id"]]["job"]["got"] = got.get(it["id"])
    return recs


def placement_why(r) -> Optional[str]:
    if "bad" in r["spec"]:
        return None
    if "err" in r["obs"]:
        return None if r["spec"].get("holds", False) else r["spec"].get("why") + f" ({r['obs']['err']}: {r['obs'].get('msg')})"
    why = []
    if not r["spec"].get("holds", False):
        why.append(r["spec"].get("why"))
    al = r.get("alive") or {}
    if "bad" not in al and not al.get("holds", True) and not (why and al.get("why", "").startswith("no line")):
        why.append(al.get("why"))
    jw = job_why(r)
    if jw:
        why.append(jw)
    return "; ".join(why) if why else None


def history_text(h: str) -> str:
    return {"fresh": "", "again": " (second write_cpp_files of the same transformed AST by the same executor)",
            "again-new-executor": " (second write_cpp_files of the same transformed AST, by a new executor)",
            "reapplied": " (apply_ast_transformations + write_cpp_files run a second time on the same AST object)",
            "same-text-before": " (after another AST object with the same query text was translated by the same executor)"}[h]


def placement_cases(ctx, g) -> List[Tuple[Any, ...]]:
    names = [n for n in g["readme"] if n in REF and n != "remquo"]
    few = ["abs", "cosh", "round", "ilogb", "pow", "fma", "ldexp", "nan"]
    old = [pl for pl in PLACEMENTS if pl not in EVENT_PLACEMENTS and not pl.startswith("nested:")]
    out: List[Tuple[Any, ...]] = []
    for n in names:
        for pl in old:
            for b in BACKENDS:
                if ctx.tier == "quick" and b != "atlas" and n not in few:
                    continue
                e = call_of(n)
                if pl in CONSTANT_PLACEMENTS:  # no loop variable there: constant arguments
                    e = ("call", n, [a if a[0] != "m" else ("f", 0.5) for a in e[2]])
                out.append((b, pl, e, "fresh"))
    # event level: every function on values that come straight out of a First(), as the whole column …
    for n in names:
        for b in BACKENDS:
            if ctx.tier == "quick" and b != "atlas" and n not in few:
                continue
            for pl in (EVENT_PLACEMENTS if ctx.tier == "thorough" else ["event-column"]):
                out.append((b, pl, event_call_of(n, None), "fresh"))
    # … and with a random mix of operand kinds at a random event-level position
    backs = list(BACKENDS)
    for i in range(90 if ctx.tier == "quick" else 1500):
        out.append((backs[i % 3], ctx.rng.choice(EVENT_PLACEMENTS), event_call_of(ctx.rng.choice(names), ctx.rng), "fresh"))
    # nested positions: the constructs composed at random around the call (depth <= 3), the tie of the positions model is the judge of the model
    for i in range(150 if ctx.tier == "quick" else 2500):
        pl = "nested:" + random_shape(ctx.rng, ctx.rng.choice([1, 2, 2, 3]))
        register_nested(pl)
        out.append((backs[i % 3], pl, call_of(ctx.rng.choice(names)), "fresh"))
    # histories: the same query object translated once more
    hist = [h for h in HISTORIES if h != "fresh"]
    jobpl = list(JOB_PLACEMENTS)
    k = 0
    for n in names:
        for b in BACKENDS:
            if ctx.tier == "quick" and b != "atlas" and n not in few:
                continue
            for h in (hist if ctx.tier == "thorough" else [hist[k % len(hist)]]):
                out.append((b, "column", call_of(n), h))
            k += 1
    for i in range(60 if ctx.tier == "quick" else 1000):
        pl = ctx.rng.choice(jobpl + ["where-predicate", "conditional-arms", "method-argument"])
        n = ctx.rng.choice(names)
        e = event_call_of(n, ctx.rng) if pl in EVENT_PLACEMENTS else call_of(n)
        out.append((backs[i % 3], pl, e, ctx.rng.choice(hist)))
    return [c for c in out if not in_defect_exclusion(c[2])]


def event_call_of(f: str, rng):
    """`f` on event-level operands: rng None -> every double parameter a value out of a First() (pt, eta, phi in turn);
    otherwise a random mix of First() / Select().First() / Sum() / Count() / constants with at least one that emits code"""
    meths = ["pt", "eta", "phi"]
    for _ in range(20):
        args: List[Any] = []
        di = 0
        for kch in PARAMS.get(f, "d"):
            if kch == "d":
                if rng is None:
                    args.append(("fm", meths[di % 3]))
                else:
                    c = rng.random()
                    args.append(("fm", meths[di % 3]) if c < 0.4 else ("sf", meths[di % 3]) if c < 0.6 else ("sum", "pt") if c < 0.75 else ("cnt",) if c < 0.88
                                else ("f", rng.choice([0.5, 1.5, 2.0, 0.25])))
                di += 1
            elif kch == "i":
                args.append(("i", 3) if rng is None or rng.random() < 0.5 else ("cnt",))
            elif kch == "s":
                args.append(("s", ""))
            elif kch == "p":
                args.append(("i", 0))
        kinds = {a[0] for a in args}
        if "d" not in PARAMS.get(f, "d") or (kinds & set(EVENT_LEAF_KINDS) and not {"cnt", "sum"} <= kinds):
            break  # (Count and Sum both read `aggResult<n>`: one operand text with two types is kept out)
    return ("call", f, args)


def check_placements(ctx, g) -> None:
    pre = [(c["backend"], c["placement"], _tuplify(c["expr"]), c.get("history", "fresh")) for c in vlib.corpus_cases(ID) if c.get("placement") and register_nested(c["placement"])]
    recs = judge_placements(ctx, pre + placement_cases(ctx, g))
    for r in recs:
        ctx.count("placement:" + r["placement"].split(":")[0])
        ctx.count("history:" + r["history"])
        if r["job"] and r["job"].get("got") and "events" in r["job"]["got"]:
            ctx.count("g++:job-cases-evaluated")
            ctx.count("g++:job-events", len(r["job"]["events"]))
        if "bad" not in (r.get("alive") or {"bad": 1}):
            ctx.count("alive:judged")
        for a in (r["expr"][2] if r["expr"][0] == "call" else []):
            if a[0] in EVENT_LEAF_KINDS:
                ctx.count("event-operand:" + a[0])
        smp = None
        if r["placement"] == "method-argument" and ctx.dist.get("sampled:placement", 0) < 1 and "err" not in r["obs"]:
            ctx.count("sampled:placement")
            smp = {"backend": r["backend"], "placement": r["placement"], "query": placement_text(r["placement"], r["src"], r["expr"]),
                   "emitted_lines_with_std": r["obs"]["code"].split("\n")[:3], "placement_spec_on_implementation": r["spec"]}
        elif r["placement"] in EVENT_PLACEMENTS and ctx.dist.get("sampled:event-placement", 0) < 1 and r["job"] and isinstance(r["job"].get("got"), dict) and "events" in r["job"]["got"]:
            ctx.count("sampled:event-placement")
            smp = {"backend": r["backend"], "placement": r["placement"], "query": placement_text(r["placement"], r["src"], r["expr"]),
                   "emitted_lines_with_std": r["obs"]["code"].split("\n")[:3], "placement_spec_on_implementation": r["spec"], "alive_spec_on_implementation": r["alive"],
                   "mock_event_jets_pt_eta_phi": r["job"]["events"][0], "compiled_job_rows": r["job"]["got"]["events"].get(0), "function_of_that_name_rows": r["job"]["expected"][0]}
        elif r["history"] != "fresh" and ctx.dist.get("sampled:history", 0) < 1 and "err" not in r["obs"]:
            ctx.count("sampled:history")
            smp = {"backend": r["backend"], "placement": r["placement"], "history": r["history"], "query": placement_text(r["placement"], r["src"], r["expr"]),
                   "emitted_lines_with_std_of_the_last_translation": r["obs"]["code"].split("\n")[:3], "includes_added_by_the_last_translation": r["obs"]["incs"],
                   "placement_spec_on_implementation": r["spec"], "alive_spec_on_implementation": r["alive"]}
        ctx.case({"place": [r["backend"], r["placement"], r["src"], r["history"]]}, True, smp)
        why = placement_why(r)
        if why:
            hk = "" if r["history"] == "fresh" else ":" + r["history"]
            obs = {k: v for k, v in r["obs"].items() if k != "members"}
            ctx.violation(key=f"place:{r['backend']}:{r['placement']}{hk}:{r['src']}",
                          what=f"{r['src']} as {r['placement']} on {r['backend']}{history_text(r['history'])}: {why}",
                          case={"backend": r["backend"], "placement": r["placement"], "expr": r["expr"], "src": r["src"], "history": r["history"],
                                "query": placement_text(r["placement"], r["src"], r["expr"])},
                          observed={"translator": obs, "job": r.get("job")},
                          how="python: ast.parse(<query with DS = the dataset wrapped in the MetaData of placement_query, COLL = the backend's collection>, mode='eval').body "
                          "through <backend>_executor().apply_ast_transformations + write_cpp_files (history: see HISTORIES in tools/props/c12.py); or ./check C12 --replay <this file>")
        # the tie: the text the model gives the call stands in the emitted code
        if "ok" in r["model"] and "err" not in r["obs"] and nospace(r["model"]["ok"]["text"]) not in r["obs"]["code"]:
            ctx.disagreement("placement: the model's text of the call occurs in the emitted code", {"backend": r["backend"], "placement": r["placement"], "history": r["history"], "src": r["src"]},
                             nospace(r["model"]["ok"]["text"]), r["obs"]["code"][:300])
        # the tie of the POSITIONS model: its statements (in order) and the text of its value stand in the rendered method, its
        # include requests were added; accepted by both or refused by both
        pos = r.get("pos")
        if pos is not None and "bad" not in pos:
            ctx.count("position-model:" + ("translated" if "ok" in pos else "refused"))
            where = {"backend": r["backend"], "placement": r["placement"], "history": r["history"], "src": r["src"], "position": r.get("pos_expr")}
            if "ok" in pos:
                ctx.count("position-model:in-theorem-scope" if pos.get("scoped") else "position-model:beyond-theorem-scope")
            if ("ok" in pos) != ("err" not in r["obs"]):
                ctx.disagreement("position: accepted by the positions model vs by the translator", where,
                                 {"model": "accepted" if "ok" in pos else pos.get("err")}, {"refused": r["obs"].get("err")} if "err" in r["obs"] else "accepted")
            elif "ok" in pos and pos.get("tie") and not pos["tie"].get("holds"):
                ctx.disagreement("position: the statements / value text / includes of the positions model vs the rendered per-event method", where,
                                 {"frags": pos["ok"]["frags"], "incs": pos["ok"]["incs"], "why": pos["tie"].get("why")},
                                 {"method": (r["obs"].get("body") or "")[:1500], "incs": r["obs"].get("incs")})
            elif "ok" in pos and r["placement"] == "shadow-user-function" and SHADOW_HEADER in (r["obs"].get("incs") or []) and SHADOW_HEADER not in pos["ok"]["incs"]:
                ctx.disagreement("position: include files of a user function shadowed by the table", where, pos["ok"]["incs"], r["obs"].get("incs"))
            if ctx.dist.get("sampled:position", 0) < 1 and "ok" in pos and r["placement"] == "conditional-arms":
                ctx.count("sampled:position")
        elif pos is not None:
            ctx.notes.append("positions driver: " + str(pos)[:200])
        if ("ok" in r["model"]) != ("err" not in r["obs"]):
            ctx.disagreement("placement: accepted by the model vs by the translator", {"backend": r["backend"], "placement": r["placement"], "history": r["history"], "src": r["src"]},
                             canon_model(r["model"]), {"refused": r["obs"].get("err")} if "err" in r["obs"] else "accepted")


def run(ctx):
    g = getattr(ctx, "gen", None) or read_all()
    if g["unrecognised"]:
        ctx.notes.append("translator could not read: " + "; ".join(g["unrecognised"][:5]))
    if ctx.tier == "thorough" and not any(b.get("kind") == "lean-build" for b in ctx.broken):
        # replay the compiled modules through the external kernel checker
        mods = ["FaxVerif.C12.Model", "FaxVerif.C12.Spec", "FaxVerif.Generated.C12Table", "FaxVerif.C12.Proofs", "FaxVerif.C12.Theorems",
                "FaxVerif.C12.PosModel", "FaxVerif.C12.PosSpec", "FaxVerif.C12.PosTheorems", "FaxVerif.C12.PosAccepted"]
        with vlib.LakeLock():
            rc, out, err = vlib.sh(["lake", "env", "leanchecker"] + mods, cwd=vlib.LEAN, timeout=1200)
        ctx.count("leanchecker:modules", len(mods))
        if rc != 0:
            ctx.broken.append({"kind": "leanchecker", "rc": rc, "output": (out + err)[-1500:]})
    # 1. listed findings (still failing -> KNOWN-FINDING) and repaired ones (failing again -> violation)
    known = [e for e in ctx.known_entries("known") if e.get("input", {}).get("expr")]
    fixed = [e for e in ctx.known_entries("fixed") if e.get("input", {}).get("expr")]
    recs = judge(ctx, [("finding", e["input"]["backend"], _tuplify(e["input"]["expr"])) for e in known + fixed], numeric="always")
    for e, r in zip(known + fixed, recs):
        ctx.count("stream:findings")
        if e["status"] == "known":
            if f"emit:{r['backend']}:{r['src']}" != e["key"]:
                ctx.notes.append(f"known finding key {e['key']} does not match its input ({r['src']})")
            report(ctx, r)
        else:
            why = report_why(r)
            if why:
                ctx.violation(key="regressed:" + e["key"], what=f"repaired defect is back: {r['src']} on {r['backend']}: {why}",
                              case={"backend": r["backend"], "expr": r["expr"], "src": r["src"]}, observed=r["obs"], how=HOW)
    # 2. the table as it is at run time
    check_table(ctx, g)
    # 3. name resolution
    check_resolver(ctx, g)
    # 3b. the whole rendered package, with and without inject_code metadata
    check_package(ctx, g)
    # 3b'. … and together with the other sources of include files (built-in / user C++ functions, collections, inject_code)
    check_companions(ctx, g)
    # 3c. every documented function at every kind of expression position
    check_placements(ctx, g)
    # 4. corpus, then every documented function standalone and inside arithmetic, then random expressions
    cases = [("corpus", c["backend"], _tuplify(c["expr"])) for c in vlib.corpus_cases(ID) if "inject" not in c and "placement" not in c and "companion" not in c]
    for stream, b, e in main_cases(ctx, g):
        ex = in_defect_exclusion(e)
        if ex:
            ctx.count("excluded-defect:" + ex)
            continue
        cases.append((stream, b, e))
    recs = judge(ctx, cases, numeric=True)
    for r in recs:
        ctx.count("stream:" + r["stream"].split(":")[0])
        ctx.count("backend:" + r["backend"])
        ctx.count("impl:" + ("ok" if "err" not in r["obs"] else r["obs"]["err"]))
        ctx.count("size:" + str(min(size(r["expr"]), 12)))
        if "bad" in r["model"] or "bad" in r["spec"]:
            continue
        ctx.count("population:" + ("theorem-scope" if r["model"].get("scoped") else ("documented-beyond-scope" if r["model"].get("documented") else "outside-documented")))
        if r.get("numeric") and "got" in r["numeric"]:
            ctx.count("g++:cases-evaluated")
            ctx.count("g++:sample-points", len(r["numeric"]["samples"]))
        smp = None
        if r["stream"] in ("row:times2plus1", "random") and ctx.dist.get("sampled:" + r["stream"], 0) < 1 and r.get("numeric") and "got" in r["numeric"]:
            ctx.count("sampled:" + r["stream"])
            smp = {"backend": r["backend"], "query_expression": r["src"], "implementation": canon_impl(r["obs"]), "model": canon_model(r["model"]),
                   "spec_on_implementation": r["spec"], "sample_points_pt_eta_phi": r["numeric"]["samples"][:3],
                   "compiled_cpp_values": (r["numeric"]["got"] or [])[:3] if isinstance(r["numeric"]["got"], list) else r["numeric"]["got"],
                   "function_of_that_name": r["numeric"]["expected"][:3]}
        ctx.case({"b": r["backend"], "src": r["src"]}, len(called(r["expr"])) > 0 and r["model"].get("documented", False), smp)
        if "err" in r["obs"] and "err" in r["model"]:
            ctx.count("refusal-class-" + ("agrees" if r["obs"]["err"] == r["model"]["err"] else "differs"))
        report(ctx, r)
        if canon_model(r["model"]) != canon_impl(r["obs"]):
            ctx.disagreement("translation of a scalar expression: model tr vs apply_ast_transformations+write_cpp_files", {"backend": r["backend"], "src": r["src"], "expr": r["expr"]},
                             canon_model(r["model"]), canon_impl(r["obs"]))
        if "ok" in r["model"] and not r["model"].get("roundtrip", False):
            ctx.disagreement("parseCpp (render term) = term", {"src": r["src"]}, r["model"], None)
    ctx.extra_cov["exhaustive"] = False
    ctx.extra_cov["exhaustive_part"] = ("every function of the README list x 11 arithmetic contexts on ATLAS and 3 (quick) / 11 (thorough) on the CMS backends (translation, Spec, compiled value at the sample points of its domain); "
                                        "every row of the live table (row Spec); every python builtin, module global and documented name through the resolver; "
                                        "every function as whole event-level column on First()-derived operands and as row value under one re-translation history")


def report_why(r) -> Optional[str]:
    if "bad" in r["spec"]:
        return None
    if not r["spec"].get("holds", False):
        nf = numeric_failure(r)
        return r["spec"].get("why") + ("; " + nf if nf else "")
    return numeric_failure(r)


def subexprs(e) -> List[Any]:
    out = []
    if e[0] == "call":
        for i, a in enumerate(e[2]):
            if a[0] in ("call", "bin", "un"):
                out.append(a)
                for s in subexprs(a):
                    out.append(("call", e[1], list(e[2][:i]) + [s] + list(e[2][i + 1:])))
                out.append(("call", e[1], list(e[2][:i]) + [("m", "pt")] + list(e[2][i + 1:])))
    elif e[0] == "bin":
        out += [e[2], e[3]]
        out += [("bin", e[1], s, e[3]) for s in subexprs(e[2])] + [("bin", e[1], e[2], s) for s in subexprs(e[3])]
    elif e[0] == "un":
        out += [e[2]] + [("un", e[1], s) for s in subexprs(e[2])]
    return [x for x in out if x[0] in ("call", "bin", "un")]


def shrink(ctx, r):
    for _ in range(12):
        cands = [c for c in subexprs(r["expr"]) if size(c) < size(r["expr"]) and not in_defect_exclusion(c)][:40]
        if not cands:
            break
        rs = judge(ctx, [("shrink", r["backend"], c) for c in cands], numeric=True)
        nxt = next((x for x in sorted(rs, key=lambda x: size(x["expr"])) if report_why(x)), None)
        if nxt is None:
            break
        r = nxt
    return r


def search(ctx, broken):
    """A larger sweep with the Spec on the implementation's output and the compiled values as the only judges."""
    g = getattr(ctx, "gen", None) or read_all()
    names = [n for n in g["readme"] if n in REF and n != "remquo"]
    cases = []
    for i in range(1500):
        e = random_expr(ctx.rng, names, ctx.rng.choice([1, 2, 3, 4]))
        if not in_defect_exclusion(e):
            cases.append(("search", list(BACKENDS)[i % 3], e))
    recs = judge(ctx, cases, numeric=True)
    bad = [r for r in recs if report_why(r)]
    if not bad:
        return None
    r = shrink(ctx, min(bad, key=lambda x: size(x["expr"])))
    key = f"emit:{r['backend']}:{r['src']}"
    known = {e["key"] for e in ctx.known_entries("known")}
    return {"key": key, "what": f"{r['src']} on {r['backend']}: {report_why(r)}", "case": {"backend": r["backend"], "expr": r["expr"], "src": r["src"]},
            "observed": {"translator": r["obs"], "numeric": r.get("numeric")}, "known": key in known}


def replay(ctx, rep) -> int:
    case = rep.get("case") or {}
    if "expr" in case and "placement" in case:
        if not register_nested(case["placement"]):
            print("unknown placement", case["placement"])
            return 1
        r = judge_placements(ctx, [(case["backend"], case["placement"], _tuplify(case["expr"]), case.get("history", "fresh"))])[0]
        print("query:", placement_text(case["placement"], r["src"], r["expr"]), " backend:", r["backend"], " history:", r["history"] + history_text(r["history"]))
        print("translator:", {k: v for k, v in r["obs"].items() if k not in ("members", "body")})
        if r["obs"].get("body"):
            print("per-event method of the judged translation:")
            print("\n".join("    " + l for l in r["obs"]["body"].splitlines() if l.strip() and not l.strip().startswith(("//", "#"))))
        print("model's text of the call:", canon_model(r["model"]))
        print("placement spec on the translator's output:", r["spec"])
        print("alive spec on the translator's output:", r["alive"])
        if r.get("job"):
            print("compiled per-event method over mock events:", r["job"].get("got"), " rows python numerics give:", r["job"]["expected"], " events (jets pt, eta, phi):", r["job"]["events"])
        why = placement_why(r)
        print("verdict:", why or "holds")
        return 1 if why else 0
    if "expr" in case and "companion" in case:
        r = judge_companions(ctx, [(case["backend"], case["companion"], case["shape"], _tuplify(case["expr"]), case.get("inject", "none"))])[0]
        print("query:", r["query"])
        print("backend:", r["backend"], " companion:", r["companion"], COMPANIONS[r["companion"]]["incs"], " shape:", r["shape"], " inject_code:", INJECT_VARIANTS[r["inject"]])
        if "err" in r["obs"]:
            print("translator:", r["obs"])
        else:
            for f in r["obs"]["package"]:
                print("  rendered", f["name"], "calls a std:: math function:", f["calls"], " includes:", [i for i in f["incs"] if "/" not in i])
            print("  added to the main file by this translation, in order:", r["obs"]["added"], " through the rendered header:", r["obs"]["through_header"])
        print("model's package:", r["model"])
        print("package spec on the rendered files:", r["spec"])
        if r.get("job"):
            print("per-event method compiled with exactly the added includes:", r["job"].get("got"), " rows python numerics give:", r["job"]["expected"])
        why = companion_why(r)
        print("verdict:", why or "holds")
        return 1 if why else 0
    if "expr" in case and "inject" in case:
        r = judge_package(ctx, [(case["backend"], case["inject"], _tuplify(case["expr"]))])[0]
        print("query expression:", r["src"], " backend:", r["backend"], " inject_code:", INJECT_VARIANTS[case["inject"]])
        for f in (r["obs"].get("package") or []):
            print("  rendered", f["name"], "calls a std:: math function:", f["calls"], " includes:", f["incs"])
        print("model's package:", r["model"])
        print("package spec on the rendered files:", r["spec"])
        why = package_why(r) or ("not rendered: " + r["obs"]["err"] if "err" in r["obs"] else None)
        print("verdict:", why or "holds")
        return 1 if why else 0
    if "expr" in case:
        r = judge(ctx, [("replay", case["backend"], _tuplify(case["expr"]))], numeric="always")[0]
        print("query expression:", r["src"], " backend:", r["backend"])
        print("translator:", r["obs"])
        print("model:", canon_model(r["model"]))
        print("spec on the translator's output:", r["spec"])
        if r.get("numeric"):
            print("compiled values:", r["numeric"].get("got"), " the function of that name:", r["numeric"]["expected"], " at", r["numeric"]["samples"])
        why = report_why(r)
        print("verdict:", why or "holds")
        return 1 if why else 0
    if "row" in case:
        py = case["row"]["py"]
        live = {r["py"]: r for r in live_rows()}
        if py not in live:
            print("row is gone:", py)
            return 1
        a = ctx.driver(DRIVER, [{"op": "row", "row": live[py]}])[0]
        print("live row:", live[py])
        print("row spec:", a)
        print("numeric:", row_numeric(live[py]) or "agrees with the function of that name at the sample points")
        return 0 if a.get("holds") else 1
    if "name" in case:
        im = impl_resolve(case["name"])
        print("find_known_functions on", case["name"] + "(x):", im)
        if not im.get("row"):
            return 1
        a = ctx.driver(DRIVER, [{"op": "row", "row": {"py": case["name"], **im["row"]}}])[0]
        print("namesake:", a.get("namesake"))
        return 0 if a.get("namesake") else 1
    print("nothing to replay in", list(rep))
    return 1


THEOREMS = ["FaxVerif.C12." + t for t in [
    "translator_complete", "documented_present", "keys_nodup", "rows_found", "namesake", "header", "return_type_faithful", "return_type_numeric",
    "table_arith", "spec_row", "callable_by_value_partial", "callable_by_value_counterexample",
    "documented_accepted", "rows_reached_partial", "cfg_ok",
    "resolver_spec", "replaced_iff", "call_emitted", "includes_of_called", "usable_in_arithmetic", "scoped_faithful", "refused_only_unresolved",
    "package_spec", "package_spec_discriminates", "package_partial", "computes_namesake_partial", "spec_partial", "documented_plain_partial", "documented_scoped_partial", "abs_scope_partial", "documented_never_refused", "documented_clean_scoped", "c12_partial",
    "computes_namesake_counterexample_remquo", "computes_namesake_counterexample_abs_int",
    "call_alive", "alive_spec_model", "alive_discriminates_late", "alive_discriminates_stale",
    "package_companions_partial", "companions_keep_all", "companions_discriminates",
    # the positions (PosTheorems.lean)
    "resolved_everywhere", "documented_resolved_everywhere", "resolve_total", "documented_positions_never_refused",
    "shadow_method", "shadow_lambda_param", "shadow_variable", "shadow_user_function", "user_function_used_iff_not_in_table",
    "call_emitted_everywhere", "includes_of_replaced", "includes_reachable_positions", "package_positions",
    "sem_emit", "namesake_semantics_positions", "documented_call_in_scope", "cmp_ops_ok",
    "namesake_positions_counterexample_abs_int", "position_tie_discriminates",
    # acceptance at the positions (PosAccepted.lean)
    "accepted_emit", "positions_accepted",
]]
RULE = (
    "(a) every row of functions_to_replace as it is at run time (row Spec: namesake, header, declared type = C++ result type, arithmetic type; each row is a non-trivial case); (b) name "
    "resolution on every documented name, table key, python builtin, module global of cpp_functions.py and random identifiers (non-trivial: documented, replaced or "
    "refused); (c) scalar query expressions "
    "Select(SelectMany(ds, e -> collection), j -> EXPR) through apply_ast_transformations + write_cpp_files on the three backends: EXPR = every documented "
    "function (arguments by parameter kind: method values, int literal / int method, string constant) standalone and in 10 arithmetic contexts "
    "(*2+1, /2, 1-F, -F, F**2, atan(F), F+cos(eta), (F+int)*float, F/0.5, F+1/2), random expressions of depth <= 3 (quick) / 5 (thorough) over "
    "documented functions, + - * / **, unary + -, int/float constants, double/int/float method values, and expressions outside the documented fragment "
    "(unknown names, module-less bindings, strings in arithmetic, %, not, @, ~); (d) the whole rendered package on the three backends for queries using a math "
    "function or **, without and with five shapes of inject_code metadata whose header_includes / body_includes do or do not list cmath: every rendered C++ file that "
    "calls a std:: math function must include cmath directly or through a rendered header it includes (every such case is non-trivial); (e) placements: every documented function (arguments as in (c)) written as the argument of a metadata-declared object "
    "method (alone, inside arithmetic, on First()), of a user C++ function (add_cpp_function), as tuple / dict element, index expression, test and arms of a "
    "conditional, argument of another documented function, predicate of Where (then Count / First().method), inner Select (alone / summed), operand of `and` / `or`, list element, seed and body of an Aggregate, "
    "150 (quick) / 2500 (thorough) NESTED positions (method argument, user-function argument, subscript, sqrt, unary minus, conditional, + and / composed at random to depth 3 around the call), "
    "and the shadowing positions (argument of a METHOD named like the function, body of a lambda whose PARAMETER is named like the function and is called, a query that declares a USER C++ FUNCTION named like the function) — quick: all functions "
    "on ATLAS and 8 on the CMS backends, thorough: all on all three; judged by PlacementSpec (accepted, some expression of the emitted code means the call, header "
    "included) and tied to the model by containment of the model's text of the call and by PositionTie (the positions model's statements, in its order, then the text of the position's value occur in the rendered "
    "per-event method; its include requests were added; accepted by both or by neither); (f) event level: every documented function on operands whose evaluation emits "
    "statements and moves the translator's cursor — X.First().m(), X.Select(..).First(), X.Select(..).Sum(), X.Count(), constants — as the whole column (every function "
    "with every double parameter straight out of a First(): all on ATLAS, 8 on the CMS backends) and, with a random mix of those operand kinds, as column inside "
    "arithmetic, first / last tuple element, dict element, argument of another function, event filter (Where on the dataset); (g) histories: the same query object "
    "translated once more (write_cpp_files again by the same executor / by a new executor of the same backend / apply_ast_transformations + write_cpp_files again on the same "
    "AST object / a second AST object parsed from the same text after the first was translated), the LAST translation is judged — every function as row value (history rotating), plus random (function, position, history, backend). (e)-(g) are judged by "
    "PlacementSpec, by AliveSpec (the line of the per-event method that holds the call mentions only generated variables declared in an enclosing block of THIS method or as "
    "data members) and, for the positions whose rows are predictable (row value, inside arithmetic, inner Select, all event-level positions), by compiling the rendered "
    "per-event method with g++ against a mock event store / collections / tree, running it over mock events (two jets: a sample point of the function's domain and a fixed "
    "second jet) and comparing every filled row with python numerics; (h) companions: a documented function used TOGETHER with every other source of include files the pipeline has — "
    "the built-in DeltaR (TVector2.h, math.h) and getAttributeFloat (vector, ATLAS), user add_cpp_function blocks whose include_files are a C spelling (math.h; stdlib.h + math.h), the "
    "C++ spelling (cmath), unrelated headers, none, and a user-declared event collection whose include_files list math.h — as tuple (function first / companion first), product (both "
    "orders), function of the companion, companion of the function, collection column before / after the function's column, on every backend the companion exists on (functions rotating "
    "through the README list; thorough: all), plus random (function, companion, shape, backend, inject_code variant incl. body/header lists with math.h); oracle: PackageSpec on the "
    "rendered files (every file that calls a std:: math function sees cmath — math.h does not count — directly or through a rendered header), the rendered per-event method compiled "
    "with EXACTLY the include files the translation added (one translation unit per distinct list; math.h and TVector2.h are stand-ins, math.h declares nothing in namespace std) and "
    "run over mock events, rows compared; tie: the include list of the model (withCompanions, requests in translation order) equals the rendered one, order included. Inputs inside the listed defect classes (remquo; abs-of-integers "
    "under a division) are produced only by the findings stream; the repaired ones (round, ilogb/2, the rounding rows, sin(x)*2) are replayed on every run. A case is non-trivial when it is a documented expression containing at least one "
    "function call; distinct = distinct (backend, expression)."
)
TRUSTED_BASE = [
    "the translator tools/props/c12.py (python ast on cpp_functions.py / utils.py / ast_to_cpp_translator.py, README bullet) and its reading of the eval scope "
    "(parameters of visit_Call, vars() of the imported module, python's builtins); the generated rows are compared with functions_to_replace at run time",
    "hand models of find_known_functions.visit_Call, visit_function_ast, visit_BinOp, visit_special_BinOp, visit_UnaryOp, most_accurate_type (Model.lean) tied to the "
    "code by the correspondence streams of this run (text, declared type and added include files of the generated C++)",
    "hand model of the include lists write_cpp_files hands to the templates and of which rendered file includes which (packageFiles), tied by comparing, per rendered "
    "C++ file, what it adds to a baseline query; `calls a math function` is a regular expression over the rendered text (table C++ names and std::pow)",
    "MathFn / meaningPy / meaningCpp / MathFn.params / cppRet: my reading of ISO C++ <cmath> (which name is which function, which header, signatures, result types); "
    "checked against g++ 12 + glibc by compiling every emitted expression with exactly the includes the translator added and comparing values",
    "parseCpp (Lean) reads the emitted text back; parse(render t) = t is tested on every model output, not proved",
    "the cut of the rendered per-event method into lines (method_lines: braces on lines of their own, `for (auto &&v : …)` headers, declarations `T name;|=|(`; a generated "
    "variable is an unqualified identifier ending in digits that is not a member access) and the reading of the class declaration for the data members; the mock event "
    "model of the compiled-job oracle (JOB_MOCK: event store, collections of pointers / values, handles, tokens, tree) and the extraction of the method body by brace matching",
    "the companion stream's reading of the translation order of include requests (a companion's own before its arguments, a function's after its arguments) — checked by the ordered "
    "tie on every case; the stand-in headers of the exact-include compilation (math.h empty, TVector2.h with Phi_mpi_pi) and the python references of the companions",
    "hand models of the call visitor on the positions (PosModel.lean: visit_Call_Member, process_ast_node, visit_Subscript, visit_Tuple / List / Dict, visit_IfExp, visit_Compare, visit_BoolOp, "
    "call_Where, visit_call_Aggregate_initial, statement.set_var) as far as value text, declared type, include requests and the order of emitted statements go; tied by PositionTie on every placement "
    "case; compare_operations and the call_<name> methods are regenerated from the source; the harness supplies the C++ text of the loop variables and the declared method types",
    "ArgShape / columnCode (Lean): a hand model of the block structure visit_function_ast's arguments leave behind, up to the position of declarations inside a block; "
    "tied to the code by AliveSpec evaluated on the rendered method",
    "numerical agreement of libm with python's math module (tolerance 1e-9 relative) and the C definitions used where python has no such function "
    "(round half away from zero, rint/nearbyint half to even, ilogb, scalbn, fdim, fma by exact rational arithmetic)",
    "func_adl / qastle are bypassed: the query AST is built with ast.parse in the form qastle delivers; the mock loop variable (struct Obj) stands for the EDM object",
]
ASSUMPTIONS = [
    "arguments of math functions are int- or double-typed values: with float-typed arguments C++ selects the single-precision overloads, which is outside the abstraction",
    "int -> double conversions are exact (|n| < 2^53); the EDM accessors are pure",
    "namesake means the <cmath> function of that name (the README says the functions are pulled from cmath): round is C's round (half away from zero), not python's",
    "arithmetic meaning is compared symbolically (free term algebra over MathFn and + - * fdiv idiv ...): the theorems hold for every interpretation of those symbols",
]
LEVEL_TEXT = (
    "Machine-checked proof (Lean 4). Over the table regenerated from the source on every run: every documented function is a key, no key is assigned twice, every row "
    "names the C++ function that is the namesake of its python name, pulls in <cmath>, declares the result type C++ really gives the call (double; int for ilogb) which most_accurate_type knows; every documented name "
    "is resolved (through python's eval rule) to a namesake row. For every table, environment and expression of unbounded size: the resolution rule, call "
    "emission, inclusion of the headers of every called function, success and arithmetic type of every accepted expression, the exact cause of each refusal; and for "
    "every expression in the stated scope the emitted C++ term denotes, under the C++ typing rules, the same value as the query under python numerics with every function "
    "read by its documented name; and at package level, for any inject_code include lists, every rendered C++ file of the model's package that calls a math function sees <cmath>; and for every list of "
    "arguments that are constants, values out of a First() or accumulators of Count()/Sum(), the code the model emits for a column whose value is the call keeps every line inside the "
    "blocks that declare the variables it mentions (call_alive), so AliveSpec holds of it; two literals show the clause rejects a call emitted after its First() loop was closed and a "
    "call that names the loop variable of another translation; and whatever include requests other constructs of the query make before or after the expression's own (withCompanions), "
    "cmath stays in the list and every rendered file that calls a math function sees it (package_companions_partial; companions_discriminates: an add_include that took math.h and cmath for "
    "one path fails the clause in the companion-first order only). Two counterexample theorems (remquo, abs(int)/2) mark where the full statement is false of the code. "
    "Positions (the call as argument of a method or of a user C++ function, tuple / list / dict element, subscript, test or arm of a conditional, operand of a comparison or of and / or, Where "
    "predicate, body of an inner Select, seed / body of an aggregate, any nesting, unbounded): the find_known_functions pre-pass replaces every Name-call by the row of its own key and changes "
    "nothing else (resolved_everywhere), every documented function is replaced by a namesake row that pulls in cmath and is never left as an unknown call (documented_resolved_everywhere), the pre-pass "
    "fails only on module-less bindings (resolve_total, documented_positions_never_refused); shadowing is stated exactly (shadow_method, shadow_lambda_param, shadow_variable, shadow_user_function, "
    "user_function_used_iff_not_in_table); the call is emitted as cpp_name(args) whatever its arguments are (call_emitted_everywhere); cmath is requested and reachable in every rendered file "
    "(includes_of_replaced, includes_reachable_positions, package_positions); the emitted term means what the query means through every construct (sem_emit, namesake_semantics_positions, "
    "documented_call_in_scope, cmp_ops_ok); every position that is well formed for the call visitor is accepted, the only condition on a math call being that its arguments are values "
    "(accepted_emit, positions_accepted); namesake_positions_counterexample_abs_int marking the known defect at a position and position_tie_discriminates the tie predicate."
)
LEVEL_NOTE = (
    "Theorem: table facts (all rows), resolver/emission facts (all expressions), namesake semantics for expressions with int/double operands, + - * / **, unary + -, and "
    "every documented function except remquo and abs-of-integers (defect exclusions, each with a counterexample theorem and a listed finding). POSITIONS (PosModel / PosTheorems.lean): "
    "the model's language now has method calls, user C++ functions, tuple / list / dict, subscript, conditional, comparison, and / or, lambdas and the sequence operators "
    "(Where, Select, Aggregate, ...) around a math call; for every expression of that language, without bound: resolved_everywhere / documented_resolved_everywhere (the pre-pass "
    "annotates every Name-call with the row of its own key and changes nothing else; a documented function is never left alone, never given another function's row), the shadowing "
    "statements (a method named like a function is never replaced; lambda parameters do not shadow; the table wins over a user C++ function of the same name), call_emitted_everywhere, "
    "accepted_emit / positions_accepted (a math call is never the reason of a refusal), includes_reachable_positions / package_positions, namesake_semantics_positions (sem_emit for every configuration: the emitted term denotes what the query denotes under every "
    "interpretation of the cmath meanings, of arithmetic and of the surrounding constructs, which are uninterpreted constructors; scope ScopedX is decidable and, by "
    "documented_call_in_scope, excludes only the two defect classes and float operands). Tied on every placement case: the statements the model says are emitted (if / else / assignments of "
    "conditionals and of and / or, the substituted argument of a user function, the if of a Where, accumulator initialisation and update) occur in the model's order in the rendered per-event "
    "method, followed by the text of the position's value; the model's include requests were added; accepted by both or by neither. NOT in the positions model (other properties): which loop variable "
    "a lambda parameter is bound to (the harness supplies the C++ text of each variable), loop headers, declarations and braces, the text substitution inside a user function's code lines, "
    "the query rewrites that run before the pre-pass (aggregate shortcuts, chained-call simplification). Sampled only: the event-level block structure (AliveSpec on the implementation's output and "
    "the compiled per-event method over mock events; the model of the block structure is proved to satisfy AliveSpec but is not compared line by line with the rendered method), the re-translation "
    "histories, the package rendering beyond its include lists, "
    "float-typed operands, % and not (accepted — `not x` is declared bool since ea7911a, so it is refused as an operand of + - * / % and accepted elsewhere; judged by the Spec on the implementation), and the numeric values (libm is trusted). The hand model's agreement with the "
    "python is checked by differential execution on three backends, not proved. Trusted: Lean kernel (axioms audited), translator, harness, my reading of <cmath>."
)
TECHNIQUE = "Lean 4 theorems over tables regenerated from the source (decide) and over a hand model (induction) + correspondence check against the real pipeline + g++ value oracle"
DESIGN_REF = "DESIGN.md §4 C12"
