"""C10 — declared method, collection-return and enum types are honoured exactly.

Model: lean/FaxVerif/C10/Model.lean + ExtModel.lean (tails of columns, namespace objects with parent links, process_metadata
as a fold, access text as characters) (parse_type, terminal/collection, process_metadata's method branch,
determine_type_mf, base_type_member_access / dereference_var, chains of declared calls through the member
visitors, enum / namespace resolution).
Tie T: tools → lean/FaxVerif/Generated/C10Tables.lean (refusal list, fallback type, metadata keys) from the source.
Tie K: unit streams against the real functions + pipeline stream (metadata declared in the query, chains of
calls over the declared signatures, collection returns iterated and indexed) through the public executor API.
Spec on the implementation: DecorOk / AccessOk / EnumOk and `fragOk` — the C++ typing judgement of Spec.lean run
on the generated per-event text against the classes the query's own metadata declares.
Executed-artefact oracle: the generated per-event fragment compiled by `g++ -fsyntax-only` against C++ model
classes generated from exactly the declared signatures (sample in quick, every case in thorough).
"""
from __future__ import annotations

import ast
import itertools
import json
import logging
import os
import re
import shutil
import subprocess
import tempfile
from concurrent.futures import ThreadPoolExecutor
from pathlib import Path
from typing import Any, Dict, List, Optional, Tuple

ID = "C10"
LEAN_MODULES = ["FaxVerif.C10.Theorems", "FaxVerif.C10.ExtTheorems", "FaxVerif.C10.TailTheorems"]
LEAN_SOURCES = ["FaxVerif/C10", "FaxVerif/Generated/C10Tables.lean"]
DRIVER = "FaxVerif/C10/Driver.lean"
THEOREMS = [
    "FaxVerif.C10.parse_type",
    "FaxVerif.C10.parse_type_const",
    "FaxVerif.C10.parse_print_idem",
    "FaxVerif.C10.print_parse_idem",
    "FaxVerif.C10.access_depth",
    "FaxVerif.C10.access_injective",
    "FaxVerif.C10.access_render",
    "FaxVerif.C10.access_typed",
    "FaxVerif.C10.access_exact",
    "FaxVerif.C10.element_pointer_honoured",
    "FaxVerif.C10.declared_type_used",
    "FaxVerif.C10.fallback_double_warns",
    "FaxVerif.C10.fallback_logs_warning",
    "FaxVerif.C10.warns_iff_undeclared",
    "FaxVerif.C10.undeclared_call_warns",
    "FaxVerif.C10.translation_history_free",
    "FaxVerif.C10.md_keys",
    "FaxVerif.C10.md_value_type",
    "FaxVerif.C10.md_collection_type",
    "FaxVerif.C10.md_collection_default",
    "FaxVerif.C10.md_registry",
    "FaxVerif.C10.md_error_justified",
    "FaxVerif.C10.chain_typed_partial",
    "FaxVerif.C10.collection_loop_typed",
    "FaxVerif.C10.collection_deep_pointer_counterexample",
    "FaxVerif.C10.column_typed_partial",
    "FaxVerif.C10.col_typed_partial",
    "FaxVerif.C10.column_addOne_typed",
    "FaxVerif.C10.column_eqConst_typed",
    "FaxVerif.C10.deref_var_typed",
    "FaxVerif.C10.accepts_iff",
    "FaxVerif.C10.tree_type_pointer_counterexample",
    "FaxVerif.C10.enum_qualified",
    "FaxVerif.C10.enum_world_resolves",
    "FaxVerif.C10.enum_first_definition_wins",
    "FaxVerif.C10.enum_dot_refused",
    "FaxVerif.C10.unknown_namespace_refused",
    # extension: any total indirection, any namespace depth, process_metadata as a fold, tails
    "FaxVerif.C10.accessText_chars",
    "FaxVerif.C10.access_any_depth",
    "FaxVerif.C10.shape_exact",
    "FaxVerif.C10.nsObj_fullName_dotted",
    "FaxVerif.C10.enum_qualified_any_depth",
    "FaxVerif.C10.process_is_fold",
    "FaxVerif.C10.process_eq_entries",
    "FaxVerif.C10.process_ok_iff",
    "FaxVerif.C10.md_defaults_own",
    "FaxVerif.C10.declaration_local",
    "FaxVerif.C10.declaration_order_free",
    "FaxVerif.C10.finishTail_ofFin",
    "FaxVerif.C10.runColT_ofFin",
    "FaxVerif.C10.column_tail_typed_partial",
    "FaxVerif.C10.col_tail_typed_partial",
    "FaxVerif.C10.accepts_iff_tail",
]
RULE = (
    "unit streams: type strings = (const?) base x 0..3 stars x blank patterns (exhaustive over a small alphabet, then random "
    "incl. unicode blanks and arbitrary strings); terminal/collection constructors; member access for pointer depth x deref "
    "count 0..3 exhaustive then random to 9; metadata lists -> registry; determine_type_mf on declared / undeclared / base-type "
    "receivers; lists of 1-4 enum declarations (several enums in the same nested namespace, siblings, parent/child, every processing order of "
    "small worlds) x attribute paths to every value. Pipeline stream: one query per case whose own metadata declares the event "
    "collection (on CMS with element_pointer absent / False / True), the method signatures (value / pointer depth 0..3 / object / collection by value or pointer of values or "
    "pointers / deref_count 0..3 / tree_type) and enums; columns are chains of calls, indexings and Select/SelectMany loops over "
    "them, ending plainly or in a tail (+ - * / literal, every comparison with a literal, == / != with an enum constant through up to 5 namespace levels; directed over every arithmetic base x tree_type, then random); "
    "extension unit streams: base_type_member_access on every split d+k=n of every total n=0..6 then random to 14 (counting Spec shapeOk); define_enum + value_as_cpp through namespace nesting 1..10; "
    "lists of 2-4 declarations of distinct methods (directed: a declaration carrying deref_count / tree_type / return_type_collection next to one that does not; random) in EVERY order, each registry entry compared "
    "with the entry the declaration gets alone (localOk); sequences of 2-3 such translations in one process (same undeclared method used repeatedly, on new and shared executors, through write_cpp_files and through "
    "the bare visitor, interleaved with declared-only and refused queries) judged translation by translation; exhaustive over single-signature worlds, then random worlds with 3 classes and chains up to 6 steps, on the three "
    "backends. A case is non-trivial when it exercises a pointer depth or deref count > 0, a collection, a tree_type, an enum or "
    "a fallback; distinct = distinct canonical input."
)
TRUSTED_BASE = [
    "hand model (Model.lean) tied to the code by the correspondence streams of this run; the constants of determine_type_mf and the metadata keys are regenerated from the source (Generated/C10Tables.lean)",
    "the C++ typing judgement `typeOf` of Spec.lean (rules for . -> unary * on raw pointers and on classes with operator*/operator->, range-for, at, static_cast) is modelled, validated on every compiled case by g++ -fsyntax-only against classes generated from the same declarations",
    "the expression parser `parseExpr` (Lean) used on the implementation's text: round-trip checked on everything the model prints on every run, not proved",
    "the harness tools/props/c10.py: generators, extraction of loops / assignments / declarations from the emitted lines by regular expressions, renaming of loop variables, C++ mock generator",
    "func_adl's front end (string lambdas -> ast) and simplify_chained_calls are used as they are to build the queries",
]
ASSUMPTIONS = [
    "deref_count n on method m of T means: m is reached through n applications of T's operator*/operator-> (README: 'an object can hide other objects by dereferencing them')",
    "declared methods are const, take any arguments (the metadata declares no parameter types), and a declared collection type is a std::vector-like class of its declared element type",
    "python str.strip() removes exactly the code points for which str.isspace() is true",
]
DESIGN_REF = "DESIGN.md §4 C10"
TECHNIQUE = "Lean 4 theorems over a hand model + generated constants + correspondence (differential execution, unit and whole pipeline) + verified-style type checker run on the implementation's text + g++ -fsyntax-only on generated classes"
LEVEL_TEXT = (
    "Machine-checked proof (Lean 4): parse_type returns (base, k, const) for every base name, every pointer depth k and every "
    "interleaving of blanks, and print∘parse is idempotent on all strings; base_type_member_access for every pointer depth d and "
    "deref count n is x. / x-> / (*…(*x))-> with d+n-1 stars, is well typed with the declared return type under C++ typing rules for "
    ". -> and unary * (access_typed) and for no other number of indirections (access_exact); undeclared methods fall back to double "
    "with the warning flag, double/float/int receivers are refused (constants regenerated from the source); process_metadata registers "
    "exactly the parsed declared types, last declaration wins; every chain (any length) of declared calls, indexings and loops keeps "
    "the emitted expression typed with exactly the type the translator holds (chain_typed_partial); collections are iterated/indexed "
    "with the element type; columns carry the declared tree type with a cast exactly when needed; enum constants render as "
    "ns::…::Value in every namespace state and through every depth of namespace nesting (enum_qualified_any_depth: full_name as the "
    "recursion through parent_ns); the access text for every total indirection n has exactly n-1 explicit * and one -> / . "
    "(access_any_depth, shape_exact); process_metadata's method branch is a fold whose only carried state is the registry: each "
    "declaration is read on its own keys (declaration_local), lists of distinct methods may be processed in any order "
    "(declaration_order_free); columns ending in + - * / literal, a comparison with a literal or with an enum constant are declared "
    "with the method's tree type / double / bool, cast exactly when needed, and well typed (column_tail_typed_partial, "
    "col_tail_typed_partial, accepts_iff_tail). The hand model is tied to the code on every run by unit-level and whole-pipeline "
    "differential execution, and the same typing judgement is evaluated on the implementation's generated text."
)
LEVEL_NOTE = (
    "Partial where named *_partial: chain_typed_partial excludes collections reached through >= 2 pointers when a loop is opened on "
    "them (counterexample theorem + known finding: dereferenced once only); column_typed_partial excludes a tree_type on a "
    "pointer-valued method (counterexample + known finding: column float* fed by static_cast<float>); column_tail_typed_partial / "
    "col_tail_typed_partial cover the tails inside the decidable `tailDomain` (operand a non-pointer int/float/double — or enum for a "
    "constant comparison; true division of a float is outside: C++ computes a float that is stored in the declared double column, "
    "which the exact-type judgement colOk does not admit; `%` and tails with two method operands are not modelled — those are "
    "covered only by g++ on the generated text when generated). CMS `element_pointer` (repaired in /repo f99b3dd) is modelled (`rootElemDepth`), generated in the main stream and replayed as a fixed finding. Trusted: Lean kernel; the typing rules as a model "
    "of C++ (validated by g++ each run); the expression parser; agreement model/Python is by differential execution."
)

BACKENDS = ["atlas", "cms_aod", "cms_miniaod"]


def root_depth(case) -> int:
    """Pointer depth of the event collection's elements as the C++ classes have it: ATLAS pointers, CMS values unless
    the collection metadata declares element_pointer=True (harness-side statement of the declaration; the model's own
    version is `rootElemDepth`, which the driver uses)."""
    if case["backend"] == "atlas":
        return 1
    return 1 if case.get("element_pointer") is True else 0


def mk_case(c: Dict[str, Any]) -> Dict[str, Any]:
    """The fields of a case that define it (replay files and corpus entries carry more)."""
    out = {"backend": c["backend"], "sigs": c["sigs"], "enums": c.get("enums", []), "cols": c["cols"]}
    if c.get("element_pointer") is not None and c["backend"] != "atlas":
        out["element_pointer"] = bool(c["element_pointer"])
    return out
ARITH = ["double", "int", "float"]
TLOG = "func_adl_xAOD.common.ast_to_cpp_translator"


# ----------------------------------------------------------------------------------------------
# tie T: constants of determine_type_mf and the metadata keys, regenerated from the source
# ----------------------------------------------------------------------------------------------
def _lean_strs(xs):
    from vlib import lean_str

    return "[" + ", ".join(lean_str(x) for x in xs) + "]"


def translate(ctx):
    from vlib import LEAN, REPO, lean_str, write_if_changed

    def unrec(what: str) -> str:
        return "unrecognised " + lean_str(what[:200])

    base_types = fb_type = fb_depth = fb_deref = fb_log = None
    try:
        src = (REPO / "func_adl_xAOD/common/ast_to_cpp_translator.py").read_text()
        fn = next(n for n in ast.parse(src).body if isinstance(n, ast.FunctionDef) and n.name == "determine_type_mf")
        for n in ast.walk(fn):
            if isinstance(n, ast.Assign) and len(n.targets) == 1 and isinstance(n.targets[0], ast.Name) and n.targets[0].id == "base_types":
                if isinstance(n.value, (ast.List, ast.Tuple, ast.Set)) and all(isinstance(e, ast.Constant) and isinstance(e.value, str) for e in n.value.elts):
                    base_types = [e.value for e in n.value.elts]
        # the fallback: the (only) `return …MethodInvokeInfo(…terminal("<type>"[, p_depth]), <deref>)` of the function
        rets = [n for n in ast.walk(fn) if isinstance(n, ast.Return) and isinstance(n.value, ast.Call) and ast.unparse(n.value.func).endswith("MethodInvokeInfo")]
        if len(rets) == 1:
            a = rets[0].value.args
            if len(a) == 2 and isinstance(a[0], ast.Call) and ast.unparse(a[0].func).endswith("terminal") and isinstance(a[1], ast.Constant):
                t = a[0]
                if t.args and isinstance(t.args[0], ast.Constant) and isinstance(t.args[0].value, str):
                    fb_type = t.args[0].value
                    fb_depth = 0
                    if len(t.args) > 1 and isinstance(t.args[1], ast.Constant):
                        fb_depth = t.args[1].value
                    for kw in t.keywords:
                        if kw.arg == "p_depth" and isinstance(kw.value, ast.Constant):
                            fb_depth = kw.value.value
                    if not isinstance(fb_depth, int):
                        fb_depth = None
                if isinstance(a[1].value, int):
                    fb_deref = a[1].value
        # the logging call of the function: `…getLogger(…).<level>(…)`
        logs = [n.func.attr for n in ast.walk(fn) if isinstance(n, ast.Call) and isinstance(n.func, ast.Attribute)
                and isinstance(n.func.value, ast.Call) and ast.unparse(n.func.value.func).endswith("getLogger")]
        if len(logs) == 1:
            fb_log = logs[0]
    except Exception as e:  # unreadable source: every constant becomes unrecognised
        ctx.notes.append(f"translator: determine_type_mf not recognised ({type(e).__name__}: {e})")

    keys = None
    try:
        src = (REPO / "func_adl_xAOD/common/meta_data.py").read_text()
        fn = next(n for n in ast.parse(src).body if isinstance(n, ast.FunctionDef) and n.name == "process_metadata")
        branch = None
        for n in ast.walk(fn):
            if isinstance(n, ast.If) and isinstance(n.test, ast.Compare) and len(n.test.comparators) == 1:
                c = n.test.comparators[0]
                if isinstance(c, ast.Constant) and c.value == "add_method_type_info":
                    branch = n
                    break
        if branch is not None:
            found = []
            for st in branch.body:
                for n in ast.walk(st):
                    k = None
                    if isinstance(n, ast.Subscript) and isinstance(n.value, ast.Name) and n.value.id == "md" and isinstance(n.slice, ast.Constant):
                        k = n.slice.value
                    elif isinstance(n, ast.Compare) and len(n.comparators) == 1 and isinstance(n.comparators[0], ast.Name) and n.comparators[0].id == "md" and isinstance(n.left, ast.Constant):
                        k = n.left.value
                    elif isinstance(n, ast.Call) and isinstance(n.func, ast.Attribute) and n.func.attr == "get" and isinstance(n.func.value, ast.Name) and n.func.value.id == "md" and n.args and isinstance(n.args[0], ast.Constant):
                        k = n.args[0].value
                    if isinstance(k, str):
                        found.append((getattr(n, "lineno", 0), getattr(n, "col_offset", 0), k))
            keys = sorted(set(k for _, _, k in found))
    except Exception as e:
        ctx.notes.append(f"translator: process_metadata not recognised ({type(e).__name__}: {e})")

    L = []
    L.append("-- GENERATED by tools/props/c10.py from /repo/func_adl_xAOD/common/ast_to_cpp_translator.py")
    L.append("-- (function determine_type_mf) and common/meta_data.py (add_method_type_info branch). Do not edit.")
    L.append("namespace FaxVerif.Generated.C10")
    L.append("")
    L.append("/-- what the translator writes when it cannot recognise the source (never equal to a real value) -/")
    L.append('def unrecognised (what : String) : String := "<unrecognised: " ++ what ++ ">"')
    L.append("def unrecognisedN (_what : String) : Nat := 1000003")
    L.append("")
    L.append("/-- `base_types` in determine_type_mf: receivers on which an undeclared method is refused -/")
    L.append("def baseTypes : List String := " + (_lean_strs(base_types) if base_types is not None else "[" + unrec("base_types is not a list of string literals") + "]"))
    L.append("")
    L.append("/-- type name of the `MethodInvokeInfo` returned for an undeclared method -/")
    L.append("def fallbackType : String := " + (lean_str(fb_type) if fb_type is not None else unrec("final return of determine_type_mf is not MethodInvokeInfo(terminal(<str>), <int>)")))
    L.append("")
    L.append("/-- pointer depth of that terminal and the deref count -/")
    L.append("def fallbackDepth : Nat := " + (str(fb_depth) if isinstance(fb_depth, int) and fb_depth >= 0 else "unrecognisedN " + lean_str("p_depth of the fallback terminal")))
    L.append("def fallbackDeref : Nat := " + (str(fb_deref) if isinstance(fb_deref, int) and fb_deref >= 0 else "unrecognisedN " + lean_str("deref count of the fallback")))
    L.append("")
    L.append("/-- the statement before the fallback return is `logging.getLogger(…).<this>(…)` -/")
    L.append("def fallbackLogs : String := " + (lean_str(fb_log) if fb_log is not None else unrec("no logging call before the fallback return")))
    L.append("")
    L.append("/-- metadata keys read by the add_method_type_info branch of process_metadata (sorted) -/")
    L.append("def methodMdKeys : List String := " + (_lean_strs(keys) if keys is not None else "[" + unrec("add_method_type_info branch not found") + "]"))
    L.append("")
    L.append("end FaxVerif.Generated.C10")
    write_if_changed(LEAN / "FaxVerif/Generated/C10Tables.lean", "\n".join(L) + "\n")


# ----------------------------------------------------------------------------------------------
# the real functions, unit level
# ----------------------------------------------------------------------------------------------
class _Capture(logging.Handler):
    def __init__(self):
        super().__init__(level=logging.DEBUG)
        self.records: List[logging.LogRecord] = []

    def emit(self, record):
        self.records.append(record)


class capture_warnings:
    """Collect what the translator module logs (the property's observable for the fallback)."""

    def __enter__(self):
        self.h = _Capture()
        self.lg = logging.getLogger(TLOG)
        self.old_level = self.lg.level
        self.old_prop = self.lg.propagate
        self.lg.setLevel(logging.DEBUG)
        self.lg.propagate = False
        self.lg.addHandler(self.h)
        return self

    def __exit__(self, *a):
        self.lg.removeHandler(self.h)
        self.lg.setLevel(self.old_level)
        self.lg.propagate = self.old_prop

    def fallbacks(self) -> List[List[str]]:
        """(type, method, assumed type) of each fallback message at level WARNING or above."""
        out = []
        for r in self.h.records:
            if r.levelno < logging.WARNING:
                continue
            m = re.search(r"method '(.*)::(\w+)\(\.\.\.\)' has return type '([^']*)'", r.getMessage())
            if m:
                out.append([m.group(1), m.group(2), m.group(3)])
        return out


def reset_globals():
    import func_adl_xAOD.common.cpp_types as ctyp

    ctyp.g_method_type_dict = {}
    ctyp.g_toplevel_ns.clear()


def describe(t) -> Dict[str, Any]:
    tt = t.tree_type
    return {"name": t.type, "depth": t.p_depth, "const": bool(t.is_const), "tree": (tt.type if tt is not t else None), "str": str(t)}


def describe_rty(t) -> Dict[str, Any]:
    import func_adl_xAOD.common.cpp_types as ctyp

    if isinstance(t, ctyp.collection):
        return {"kind": "coll", "t": describe(t), "elem": describe(t.element_type)}
    return {"kind": "value", "t": describe(t)}


def mk_terminal(d):
    import func_adl_xAOD.common.cpp_types as ctyp

    return ctyp.terminal(d["name"], p_depth=d["depth"], is_const=d.get("const", False), tree_type=d.get("tree"))


def impl_unit(req: Dict[str, Any]) -> Dict[str, Any]:
    """Run the real function an op talks about; exceptions become {"err": class name}."""
    import func_adl_xAOD.common.cpp_representation as crep
    import func_adl_xAOD.common.cpp_types as ctyp
    from func_adl_xAOD.common.ast_to_cpp_translator import determine_type_mf
    from func_adl_xAOD.common.meta_data import process_metadata

    op = req["op"]
    try:
        if op == "parse":
            p = ctyp.parse_type(req["s"])
            return {"name": p.name, "depth": p.pointer_depth, "const": bool(p.is_const), "str": str(p), "full": str(ctyp.terminal(p))}
        if op == "term":
            t = mk_terminal(req["t"])
            try:
                d = describe(t.get_dereferenced_type())
            except RuntimeError:
                d = None
            return {"str": str(t), "tree": describe(t.tree_type), "deref": d}
        if op == "coll":
            elem = mk_terminal(req["elem"])
            if "arr_s" in req:
                c = ctyp.collection(elem, array_type=req["arr_s"], p_depth=req.get("pdepth", 0))
            elif "arr_p" in req:
                a = req["arr_p"]
                c = ctyp.collection(elem, array_type=ctyp.CPPParsedTypeInfo(a["name"], a["depth"], a.get("const", False)), p_depth=req.get("pdepth", 0))
            else:
                c = ctyp.collection(elem, p_depth=req.get("pdepth", 0))
            return describe_rty(c)
        if op == "access":
            v = crep.cpp_value(req["x"], None, ctyp.terminal("T", p_depth=req["d"]))
            return {"text": crep.base_type_member_access(v, req["n"])}
        if op == "derefvar":
            v = crep.cpp_value(req["x"], None, mk_terminal(req["t"]))
            r = crep.dereference_var(v)
            return {"x": r.as_cpp(), "t": describe(r.cpp_type())}
        if op in ("mdreg", "mf"):
            reset_globals()
            process_metadata([{"metadata_type": "add_method_type_info", **md} for md in req["mds"]])
            if op == "mdreg":
                out = []
                for t, ms in ctyp.g_method_type_dict.items():
                    for m, info in ms.items():
                        out.append({"type": t, "method": m, "info": {"rty": describe_rty(info.r_type), "deref": info.deref_depth}})
                return {"ok": out}
            with capture_warnings() as cw:
                info = determine_type_mf(mk_terminal(req["parent"]), req["m"])
            fb = cw.fallbacks()
            return {"ok": {"rty": describe_rty(info.r_type), "deref": info.deref_depth}, "warn": len(fb) > 0}
        if op == "enum_obj":
            reset_globals()
            e = ctyp.define_enum(".".join(req["ns"]), req["name"], [req["v"]])
            depth, n = 0, e.ns
            while n is not None and depth < 1000:
                depth, n = depth + 1, n.parent_ns
            return {"cpp": e.value_as_cpp(req["v"]), "full": str(e), "depth": depth}
        if op == "mdlocal":
            def registry(mds):
                reset_globals()
                process_metadata([{"metadata_type": "add_method_type_info", **md} for md in mds])
                return {(t, m): {"rty": describe_rty(info.r_type), "deref": info.deref_depth} for t, ms in ctyp.g_method_type_dict.items() for m, info in ms.items()}

            whole = registry(req["mds"])
            items = []
            for md in req["mds"]:
                k = (md["type_string"], md["method_name"])
                items.append({"alone": registry([md]).get(k), "inlist": whole.get(k)})
            return {"items": items}
        if op == "enum":
            from func_adl_xAOD.atlas.xaod.query_ast_visitor import atlas_xaod_query_ast_visitor

            reset_globals()
            process_metadata([{"metadata_type": "define_enum", "namespace": d["ns"], "name": d["name"], "values": list(d["values"])} for d in req["enums"]])
            q = atlas_xaod_query_ast_visitor()
            r = q.get_rep(ast.parse(".".join(req["path"]), mode="eval").body)
            if isinstance(r, crep.cpp_value):
                return {"kind": "value", "cpp": r.as_cpp(), "ty": r.cpp_type().type}
            if isinstance(r, crep.cpp_namespace):
                return {"kind": "ns", "full": r.ns.full_name}
            if isinstance(r, crep.cpp_enum):
                return {"kind": "enum", "full": r.enum.full_name}
            return {"kind": type(r).__name__}
    except Exception as e:
        return {"err": type(e).__name__}
    finally:
        if op in ("mdreg", "mf", "enum", "enum_obj", "mdlocal"):
            reset_globals()
    raise ValueError(op)


MODEL_ERR = {
    "KeyError": {"KeyError"},
    "xAODTranslationError": {"xAODTranslationError"},
    "notCollection": {"RuntimeError", "ValueError"},
    "bareCollection": {"AssertionError"},
    "notArith": {"AssertionError"},
    "noRep": {"RuntimeError"},
    "noMember": {"RuntimeError"},
    "enumDot": {"ValueError"},
}


def canon_unit(op: str, x: Dict[str, Any]) -> Any:
    """Both sides in one shape: registry as a sorted dict, errors as classes."""
    if "err" in x:
        return {"err": x["err"]}
    if op == "mdreg":
        return {"ok": sorted(x["ok"], key=lambda e: (e["type"], e["method"]))}
    return x


def same_unit(op: str, model: Dict[str, Any], impl: Dict[str, Any]) -> bool:
    if "err" in model or "err" in impl:
        return "err" in model and "err" in impl and impl["err"] in MODEL_ERR.get(model["err"], {model["err"]})
    return canon_unit(op, model) == canon_unit(op, impl)


# ----------------------------------------------------------------------------------------------
# generators: type strings
# ----------------------------------------------------------------------------------------------
BLANKS = ["", " ", "  ", "\t", " \t", "\n"]
UBLANKS = [" ", " ", "　", "\x1f", "\x0b", " ", "\x85", " "]
BASES = ["int", "T", "xAOD::Jet", "std::vector<int *>", "unsigned  long", "a*b", "constant", "const", "x"]


def decorate(c: bool, base: str, pre: str, gaps: List[str], post: str) -> str:
    return pre + ("const " if c else "") + base + "".join(g + "*" for g in gaps) + post


def decor_cases_exhaustive(tier: str):
    blanks = ["", " ", "\t"] if tier == "quick" else ["", " ", "\t", "  "]
    bases = ["int", "xAOD::Jet", "std::vector<int *>"] if tier == "quick" else BASES[:6]
    for base in bases:
        for c in (False, True):
            for k in range(0, 4):
                for pre in blanks[:2]:
                    for post in blanks[:2]:
                        for gaps in itertools.product(blanks, repeat=k):
                            yield {"const": c, "base": base, "pre": pre, "gaps": list(gaps), "post": post}


def decor_case_random(rng) -> Dict[str, Any]:
    pool = BLANKS + (UBLANKS if rng.random() < 0.3 else [])
    base = rng.choice(BASES) if rng.random() < 0.7 else "".join(rng.choice("abT:<>* ,_1") for _ in range(rng.randint(1, 8)))
    k = rng.choice([0, 1, 1, 2, 2, 3, 4, 7])
    return {"const": rng.random() < 0.4, "base": base, "pre": rng.choice(pool), "gaps": [rng.choice(pool) for _ in range(k)], "post": rng.choice(pool)}


def arbitrary_string(rng) -> str:
    alphabet = ["*", " ", "\t", "c", "o", "n", "s", "t", "const ", "T", "<", ">", ":", " ", "\n", "x"]
    return "".join(rng.choice(alphabet) for _ in range(rng.randint(0, 10)))


# ----------------------------------------------------------------------------------------------
# worlds: declared signatures; queries over them
# ----------------------------------------------------------------------------------------------
def cpp_type(base: str, depth: int, const: bool = False) -> str:
    return ("const " if const else "") + base + "*" * depth


def deco_str(rng, const: bool, base: str, depth: int) -> str:
    """The declared type string: the structural type under a random decoration with blanks."""
    if rng is None:
        return decorate(const, base, "", [""] * depth, "")
    pool = ["", "", "", " ", "  ", "\t"]
    return decorate(const, base, rng.choice(pool), [rng.choice(pool) for _ in range(depth)], rng.choice(pool))


def coll_class(sig) -> str:
    """C++ name of the collection class a collection signature returns."""
    if sig.get("cname"):
        return sig["cname"]
    return "std::vector<" + sig["ebase"] + "*" * sig["edepth"] + ">"


def sig_md(sig: Dict[str, Any]) -> Dict[str, Any]:
    md: Dict[str, Any] = {"type_string": sig["owner"], "method_name": sig["m"]}
    if sig["form"] == "value":
        md["return_type"] = sig["rt_str"]
        if sig.get("tree") is not None:
            md["tree_type"] = sig["tree"]
    else:
        md["return_type_element"] = sig["et_str"]
        if sig.get("cname"):
            md["return_type_collection"] = sig["ct_str"]
    if sig.get("deref") is not None:
        md["deref_count"] = sig["deref"]
    return md


def mk_value_sig(rng, owner, m, base, depth, deref=None, tree=None, const=False):
    return {"owner": owner, "m": m, "form": "value", "base": base, "depth": depth, "const": const, "deref": deref, "tree": tree,
            "rt_str": deco_str(rng, const, base, depth)}


def mk_coll_sig(rng, owner, m, ebase, edepth, cname, cdepth, deref=None, econst=False):
    s = {"owner": owner, "m": m, "form": "coll", "ebase": ebase, "edepth": edepth, "econst": econst, "cname": cname, "cdepth": cdepth if cname else 0,
         "deref": deref, "et_str": deco_str(rng, econst, ebase, edepth)}
    if cname:
        s["ct_str"] = deco_str(rng, False, cname, cdepth)
    return s


def collection_md(case: Dict[str, Any]) -> Dict[str, Any]:
    backend = case["backend"]
    kind = {"atlas": "add_atlas_event_collection_info", "cms_aod": "add_cms_aod_event_collection_info", "cms_miniaod": "add_cms_miniaod_event_collection_info"}[backend]
    md = {"metadata_type": kind, "name": "Things", "include_files": [], "container_type": "TC", "element_type": "T0", "contains_collection": True}
    if backend != "atlas" and case.get("element_pointer") is not None:  # the ATLAS branch refuses the key
        md["element_pointer"] = bool(case["element_pointer"])
    return md


def steps_expr(var: str, steps: List[Dict[str, Any]]) -> str:
    s = var
    for st in steps:
        if st["k"] == "call":
            s += f".{st['m']}({st['arg'] if st.get('arg') is not None else ''})"
        elif st["k"] == "index":
            s += f"[{st['i']}]"
        else:
            raise ValueError("each inside a simple chain")
    return s


def fin_text(fin: Dict[str, Any]) -> str:
    if fin["k"] == "plain":
        return ""
    if fin["k"] == "addOne":
        return " + 1"
    if fin["k"] == "arith":
        return f" {fin['op']} {fin['n']}"
    if fin["k"] == "div":
        return f" / {fin['n']}"
    if fin["k"] == "cmp":
        return f" {fin['op']} {fin['n']}"
    if fin["k"] == "cmpConst":
        return f" {fin['op']} " + ".".join(fin["path"])
    return " == " + ".".join(fin["path"])


def col_expr(col: Dict[str, Any]) -> str:
    """The python expression of a column: `each` steps become SelectMany … Select."""
    steps, fin = col["steps"], col.get("fin", {"k": "plain"})
    segs: List[List[Dict[str, Any]]] = [[]]
    for st in steps:
        if st["k"] == "each":
            segs.append([])
        else:
            segs[-1].append(st)
    if len(segs) == 1:
        return "(" + steps_expr("t", segs[0]) + fin_text(fin) + ")" if fin["k"] != "plain" else steps_expr("t", segs[0])
    s = steps_expr("t", segs[0])
    for i, seg in enumerate(segs[1:], 1):
        last = i == len(segs) - 1
        if last:
            s += f".Select(lambda u{i}: {steps_expr(f'u{i}', seg)}{fin_text(fin)})"
        else:
            s += f".SelectMany(lambda u{i}: {steps_expr(f'u{i}', seg)})"
    return s


def query_src(case: Dict[str, Any]) -> str:
    cols = ", ".join(f'"c{i}": {col_expr(c)}' for i, c in enumerate(case["cols"]))
    return f"ds.SelectMany('lambda e: e.Things(\"x\")').Select('lambda t: {{{cols}}}')"


def case_mds(case: Dict[str, Any]) -> List[Dict[str, Any]]:
    return [sig_md(s) for s in case["sigs"]]


def root_req(case) -> Dict[str, Any]:
    """What the driver needs to let the MODEL derive the element type of the event collection."""
    r: Dict[str, Any] = {"backend": case["backend"]}
    if case.get("element_pointer") is not None and case["backend"] != "atlas":
        r["element_pointer"] = bool(case["element_pointer"])
    return r


# ----------------------------------------------------------------------------------------------
# the real pipeline
# ----------------------------------------------------------------------------------------------
def _executor(backend: str):
    if backend == "atlas":
        from func_adl_xAOD.atlas.xaod.executor import atlas_xaod_executor as E
    elif backend == "cms_aod":
        from func_adl_xAOD.cms.aod.executor import cms_aod_executor as E
    else:
        from func_adl_xAOD.cms.miniaod.executor import cms_miniaod_executor as E

    class Recording(E):  # type: ignore
        def _copy_template_file(self, j2_env, info, template_file, final_dir):
            self.recorded_info = dict(info)
            return super()._copy_template_file(j2_env, info, template_file, final_dir)

    return Recording()


_DS = None


def _dataset():
    global _DS
    if _DS is None:
        from func_adl import EventDataset

        class DS(EventDataset):
            async def execute_result_async(self, a, title=None):
                return a

        _DS = DS
    return _DS()


def build_query_ast(case: Dict[str, Any]):
    """The query of a case as func_adl hands it to a backend: all declarations travel in its own MetaData calls."""
    ds = _dataset()
    ds = ds.MetaData(collection_md(case))
    # func_adl's extract_metadata hands the dictionaries over outermost call first: apply them in reverse so
    # that process_metadata sees `case_mds(case)` in list order (the order the model and the Spec use)
    for e in reversed(case.get("enums", [])):
        ds = ds.MetaData({"metadata_type": "define_enum", "namespace": e["ns"], "name": e["name"], "values": list(e["values"])})
    for md in reversed(case_mds(case)):
        ds = ds.MetaData({"metadata_type": "add_method_type_info", **md})
    return eval(query_src(case), {"ds": ds}).value()


class _ListEmitter:
    """The two-space indenter of executor._cpp_source_emitter, for code taken straight from a visitor."""

    def __init__(self):
        self.lines: List[str] = []
        self._indent = 0

    def add_line(self, ll):
        if ll == "}":
            self._indent -= 1
        self.lines.append("  " * self._indent + ll)
        if ll == "{":
            self._indent += 1


def translate_once(case: Dict[str, Any], exe, path: str) -> Dict[str, Any]:
    """One translation with the given executor, NO reset of process-global state before or after.
    path "write":   exe.apply_ast_transformations + exe.write_cpp_files (the public entry point, resets at its end)
    path "visitor": exe.apply_ast_transformations + exe.get_visitor_obj().get_as_ROOT (what a caller that only wants
                    the code does, e.g. the repo's own test datasets): nothing is reset afterwards."""
    with capture_warnings() as cw:
        try:
            a = build_query_ast(case)
            a2 = exe.apply_ast_transformations(a)
            if path == "write":
                out = Path(tempfile.mkdtemp(prefix="vp_c10_"))
                try:
                    exe.write_cpp_files(a2, out)
                finally:
                    shutil.rmtree(out, ignore_errors=True)
                rec = exe.recorded_info
                res = {"query": list(rec["query_code"]), "class_decl": [str(x) for x in rec["class_decl"]], "book": list(rec["book_code"])}
            else:
                import func_adl_xAOD.common.cpp_representation as crep
                from func_adl import find_EventDataset
                from func_adl_xAOD.common.util_scope import top_level_scope

                file = find_EventDataset(a2)
                iterator = crep.cpp_variable("bogus-do-not-use", top_level_scope(), cpp_type=None)
                crep.set_rep(file, crep.cpp_sequence(iterator, iterator, top_level_scope(), file))
                qv = exe.get_visitor_obj()
                qv.get_as_ROOT(a2)
                qe, be = _ListEmitter(), _ListEmitter()
                qv.emit_query(qe)
                qv.emit_book(be)
                res = {"query": qe.lines, "class_decl": [str(x) for x in qv.class_declaration_code()], "book": be.lines}
        except Exception as e:
            return {"err": type(e).__name__, "msg": str(e)[:300], "fallbacks": cw.fallbacks()}
    res["fallbacks"] = cw.fallbacks()
    return res


class _quiet_frontend:
    def __enter__(self):
        self.old = [(lg, lg.level) for lg in (logging.getLogger("func_adl"), logging.getLogger("func_adl.type_based_replacement"))]
        for lg, _ in self.old:
            lg.setLevel(logging.ERROR)

    def __exit__(self, *a):
        for lg, lv in self.old:
            lg.setLevel(lv)


def run_pipeline(case: Dict[str, Any]) -> Dict[str, Any]:
    """Declare everything in the query's own metadata, translate through the public executor API, in a clean process state."""
    reset_globals()
    try:
        with _quiet_frontend():
            r = translate_once(case, _executor(case["backend"]), "write")
        if "err" in r:
            return {"err": r["err"], "msg": r["msg"]}
        return r
    finally:
        reset_globals()


def run_sequence(seq: Dict[str, Any]) -> List[Dict[str, Any]]:
    """Several translations one after the other in this process; global state is cleaned before the first and after the
    last only. `exe: "reuse"` queries share one executor object, `exe: "new"` ones get a fresh one."""
    reset_globals()
    shared = None
    out = []
    try:
        with _quiet_frontend():
            for q in seq["queries"]:
                case = {**mk_case({**seq, "cols": q["cols"]})}
                if q.get("exe") == "reuse":
                    if shared is None:
                        shared = _executor(seq["backend"])
                    exe = shared
                else:
                    exe = _executor(seq["backend"])
                out.append(translate_once(case, exe, q.get("path", "write")))
        return out
    finally:
        reset_globals()


FOR_RE = re.compile(r"^\s*for \(auto &&(\w+) : (.*)\)$")
SET_RE = re.compile(r"^\s*(_\w+) = (.*);$")
PUSH_RE = re.compile(r"^\s*(_\w+)\.push_back\((.*)\);$")
BRANCH_RE = re.compile(r'Branch\("(\w+)", &(_\w+)\)')
DECL_RE = re.compile(r"^(.*\S)\s+(\w+);\s*$")
IDENT_RE = re.compile(r"[A-Za-z_]\w*")


def observe(res: Dict[str, Any]) -> Dict[str, Any]:
    """What the emitted text says: loops, per-column declaration and assignment. Raw, not renamed."""
    loops = []
    sets: Dict[str, Tuple[bool, str]] = {}
    for ln in res["query"]:
        m = FOR_RE.match(ln)
        if m:
            loops.append([m.group(1), m.group(2)])
            continue
        m = PUSH_RE.match(ln)
        if m:
            sets[m.group(1)] = (True, m.group(2))
            continue
        m = SET_RE.match(ln)
        if m:
            sets[m.group(1)] = (False, m.group(2))
    decls = {}
    for d in res["class_decl"]:
        m = DECL_RE.match(d)
        if m:
            decls[m.group(2)] = m.group(1)
    cols = []
    for ln in res["book"]:
        m = BRANCH_RE.search(ln)
        if m:
            name, var = m.group(1), m.group(2)
            seq, rhs = sets.get(var, (False, "<never assigned>"))
            cols.append({"name": name, "var": var, "decl": decls.get(var, "<not declared>"), "seq": seq, "rhs": rhs})
    root = ""
    if loops and loops[0][1].startswith("*"):
        root = loops[0][1][1:]
    return {"root": root, "loops": loops, "cols": cols}


def canon_col(obs: Dict[str, Any], col: Dict[str, Any]) -> Dict[str, Any]:
    """Rename the loop variables a column depends on to v0 (event collection element), v1, … outermost first."""
    by_var = {v: c for v, c in obs["loops"]}
    chain: List[str] = []

    def visit(expr: str):
        for tok in IDENT_RE.findall(expr):
            if tok in by_var and tok not in chain:
                visit(by_var[tok])
                if tok not in chain:
                    chain.append(tok)

    visit(col["rhs"])
    ren = {v: f"v{i}" for i, v in enumerate(chain)}

    def rename(expr: str) -> str:
        return IDENT_RE.sub(lambda m: ren.get(m.group(0), m.group(0)), expr)

    return {"loops": [[ren[v], rename(by_var[v])] for v in chain[1:]], "decl": col["decl"], "seq": col["seq"], "rhs": rename(col["rhs"])}


def canon_model_col(m: Dict[str, Any]) -> Dict[str, Any]:
    return {"loops": m["loops"], "decl": m["decl"], "seq": m["seq"], "rhs": m["rhs"]}


# ----------------------------------------------------------------------------------------------
# C++ model classes generated from the declarations; g++ as the property's own oracle
# ----------------------------------------------------------------------------------------------
PRELUDE = r"""
#include <vector>
#include <string>
#include <stdexcept>
struct TTree { int Fill(); };
struct VPStore { template<class T> bool retrieve(T& r, const std::string&) { return true; } };
#define ANA_CHECK(x) x
namespace edm {
  template<class T> struct Handle { const T& operator*() const; const T* operator->() const; };
  template<class T> struct EDGetTokenT {};
}
using namespace edm;
struct VPEvent {
  template<class L, class H> bool getByLabel(L, H&) const;
  template<class K, class H> bool getByToken(K, H&) const;
};
"""


def cpp_world(case: Dict[str, Any], warned: List[List[str]]) -> str:
    """Forward declarations, enums, one struct per class and per operator* level, collection classes."""
    sigs = case["sigs"]
    warned = sorted(set((w[0], w[1]) for w in warned))
    L: List[str] = []
    for e in case.get("enums", []):
        segs = e["ns"].split(".")
        L.append(" ".join(f"namespace {s} {{" for s in segs) + f" enum {e['name']} {{ " + ", ".join(e["values"]) + " }; " + "}" * len(segs))
    classes = ["T0", "T1", "T2"]
    colls: Dict[str, str] = {}
    for s in sigs:
        if s["form"] == "coll" and s.get("cname"):
            colls[s["cname"]] = cpp_type(s["ebase"], s["edepth"], s.get("econst", False))
    owners = [c for c in classes] + [c for c in colls if any(s["owner"] == c for s in sigs)]
    maxlvl = {c: 0 for c in owners}
    for s in sigs:
        if s["owner"] in maxlvl:
            maxlvl[s["owner"]] = max(maxlvl[s["owner"]], s.get("deref") or 0)
    # effective declaration per (owner, method): the last one
    eff: Dict[Tuple[str, str], Dict[str, Any]] = {}
    for s in sigs:
        eff[(s["owner"], s["m"])] = s
    for c in owners:
        for lv in range(maxlvl[c], -1, -1):
            L.append(f"struct {c}{'__d' + str(lv) if lv else ''};")
    for c in colls:
        if c not in owners:
            L.append(f"struct {c};")

    def ret_type(s) -> str:
        if s["form"] == "value":
            return cpp_type(s["base"], s["depth"], s.get("const", False))
        return coll_class(s) + "*" * (s["cdepth"] if s.get("cname") else 0)

    def body(c: str, lv: int) -> List[str]:
        out = []
        for (o, m), s in eff.items():
            if o == c and (s.get("deref") or 0) == lv:
                out.append(f"  template<class... A> {ret_type(s)} {m}(A&&...) const;")
        if lv == 0:
            for w in warned:
                if w[0] == c and (c, w[1]) not in eff:
                    out.append(f"  template<class... A> double {w[1]}(A&&...) const;")
        if lv < maxlvl[c]:
            nxt = f"{c}__d{lv + 1}"
            out.append(f"  {nxt}& operator*() const; {nxt}* operator->() const;")
        return out

    for c in owners:
        for lv in range(maxlvl[c], -1, -1):
            name = f"{c}{'__d' + str(lv) if lv else ''}"
            base = f" : std::vector<{colls[c]}>" if (c in colls and lv == 0) else ""
            L.append(f"struct {name}{base} {{")
            L.extend(body(c, lv))
            L.append("};")
    for c, et in colls.items():
        if c not in owners:
            L.append(f"struct {c} : std::vector<{et}> {{}};")
    root_elem_t = "T0*" if root_depth(case) == 1 else "T0"
    L.append(f"struct TC : std::vector<{root_elem_t}> {{}};")
    return "\n".join(L)


def cpp_fragment(idx: int, case: Dict[str, Any], res: Dict[str, Any], warned: List[List[str]]) -> str:
    L = [f"namespace frag{idx} {{", cpp_world(case, warned), "struct Frag {", "  VPStore* evtStore(); TTree* tree(const char*); TTree* myTree; VPEvent iEvent;"]
    for d in res["class_decl"]:
        L.append("  " + d.strip())
    L.append("  void run()")
    for ln in res["query"]:
        L.append("  " + ln)
    L.append("};")
    L.append("}")
    return "\n".join(L)


def gpp(text: str, timeout: int = 300) -> Tuple[bool, str]:
    d = tempfile.mkdtemp(prefix="vp_c10_gpp_")
    try:
        p = Path(d) / "tu.cpp"
        p.write_text(text)
        r = subprocess.run(["g++", "-std=c++17", "-fsyntax-only", "-w", str(p)], capture_output=True, text=True, timeout=timeout)
        return r.returncode == 0, r.stderr[-3000:]
    finally:
        shutil.rmtree(d, ignore_errors=True)


def compile_cases(items: List[Tuple[Dict[str, Any], Dict[str, Any], List[List[str]]]], batch: int = 20) -> List[Tuple[bool, str]]:
    """g++ -fsyntax-only on every fragment; batches share one translation unit, a failing batch is split."""
    results: List[Optional[Tuple[bool, str]]] = [None] * len(items)

    def unit(ixs: List[int]) -> str:
        return PRELUDE + "\n".join(cpp_fragment(i, *items[i]) for i in ixs)

    def work(ixs: List[int]):
        ok, err = gpp(unit(ixs))
        if ok:
            for i in ixs:
                results[i] = (True, "")
        elif len(ixs) == 1:
            results[ixs[0]] = (False, err)
        else:
            for i in ixs:
                ok1, err1 = gpp(unit([i]))
                results[i] = (ok1, err1)

    groups = [list(range(i, min(i + batch, len(items)))) for i in range(0, len(items), batch)]
    with ThreadPoolExecutor(max_workers=min(14, os.cpu_count() or 4)) as ex:
        list(ex.map(work, groups))
    return [r if r is not None else (False, "not compiled") for r in results]


# ----------------------------------------------------------------------------------------------
# pipeline case generators
# ----------------------------------------------------------------------------------------------
def call(m, arg=None):
    return {"k": "call", "m": m, "arg": arg}


EACH = {"k": "each"}
V_DOUBLE = {"owner": "T1", "m": "v", "form": "value", "base": "double", "depth": 0, "const": False, "deref": None, "tree": None, "rt_str": "double"}


def exhaustive_worlds(tier: str):
    """Single-signature worlds: every value form and every collection form, used by one column."""
    rng = None
    maxd = 3
    for backend in (["atlas"] if tier == "quick" else ["atlas", "cms_aod"]):
        for depth in range(0, maxd + 1):
            for deref in [None, 0, 1, 2, 3]:
                # object / pointer to object, then a declared call on it
                sig = mk_value_sig(rng, "T0", "m", "T1", depth, deref)
                yield {"backend": backend, "sigs": [sig, dict(V_DOUBLE)], "cols": [{"steps": [call("m"), call("v")]}]}
                for tree in [None, "float"]:
                    if depth == 0:  # arithmetic value, optional tree type
                        sig = mk_value_sig(rng, "T0", "m", "double", 0, deref, tree)
                        yield {"backend": backend, "sigs": [sig], "cols": [{"steps": [call("m")]}]}
        for edepth in range(0, 3):
            for cname in [None, "Vec"]:
                for cdepth in (range(0, maxd + 1) if cname else [0]):
                    for deref in [None, 1, 2] if tier == "quick" else [None, 0, 1, 2, 3]:
                        sig = mk_coll_sig(rng, "T0", "c", "T1", edepth, cname, cdepth, deref)
                        yield {"backend": backend, "sigs": [sig, dict(V_DOUBLE)], "cols": [{"steps": [call("c"), {"k": "index", "i": 1}, call("v")]}]}
                        if cdepth <= 1:  # deeper pointers to a collection under a loop: defect exclusion (known finding)
                            yield {"backend": backend, "sigs": [sig, dict(V_DOUBLE)], "cols": [{"steps": [call("c"), EACH, call("v")]}]}
        for cname in [None, "Vec"]:
            for cdepth in ([0, 1] if cname else [0]):
                sig = mk_coll_sig(rng, "T0", "c", "double", 0, cname, cdepth, None)
                yield {"backend": backend, "sigs": [sig], "cols": [{"steps": [call("c"), EACH], "fin": {"k": "addOne"}}, {"steps": [call("c"), {"k": "index", "i": 0}]}]}


CLASSES = ["T0", "T1", "T2"]


def element_pointer_worlds(tier: str):
    """CMS collections with the element_pointer key: every value form on an element reached by `->` / `.`."""
    for backend in (["cms_aod"] if tier == "quick" else ["cms_aod", "cms_miniaod"]):
        for ep in ([True] if tier == "quick" else [True, False]):
            for deref in [None, 1, 2]:
                yield {"backend": backend, "element_pointer": ep, "sigs": [mk_value_sig(None, "T0", "m", "double", 0, deref, "float" if deref else None)],
                       "cols": [{"steps": [call("m")]}]}
                for depth in [0, 1, 2]:
                    yield {"backend": backend, "element_pointer": ep, "sigs": [mk_value_sig(None, "T0", "m", "T1", depth, deref), dict(V_DOUBLE)],
                           "cols": [{"steps": [call("m"), call("v")]}]}
                sig = mk_coll_sig(None, "T0", "c", "T1", 1, "Vec", 1, deref)
                yield {"backend": backend, "element_pointer": ep, "sigs": [sig, dict(V_DOUBLE)],
                       "cols": [{"steps": [call("c"), EACH, call("v")]}, {"steps": [call("c"), {"k": "index", "i": 0}, call("v")]}]}


def random_world(rng) -> Dict[str, Any]:
    backend = rng.choice(["atlas", "atlas", "cms_aod", "cms_miniaod"])
    sigs: List[Dict[str, Any]] = []
    enums = []
    if rng.random() < 0.45:
        for name in rng.sample(["Color", "Shape", "Kind"], rng.choice([1, 2, 2, 3])):
            # value names are per enum name, so two enums never put the same enumerator into one C++ scope twice … unless
            # the same enum name is used in two namespaces, which is fine
            enums.append({"ns": rng.choice(["NS", "NS.Sub", "NS.Sub", "NS.Sub.Deep", "NS.Other", "xAOD.Thing"]), "name": name, "values": list(ENUM_VALUES[name][:rng.randint(1, 3)])})
    enum_ts = [enum_cpp_type(e) for e in enums]
    enum_t = enum_ts[0] if enum_ts else None
    names = iter(f"m{i}" for i in range(100))
    for owner in CLASSES:
        if rng.random() < 0.85:  # most classes can end a chain on a declared arithmetic value
            sigs.append(mk_value_sig(rng, owner, next(names), rng.choice(ARITH), 0, rng.choice([None, None, 0, 1, 2]), rng.choice([None, None, "float", "int"])))
        for _ in range(rng.randint(1, 4)):
            m = next(names)
            r = rng.random()
            deref = rng.choice([None, None, None, 0, 1, 1, 2, 3])
            if r < 0.3:
                base = rng.choice(ARITH)
                sigs.append(mk_value_sig(rng, owner, m, base, 0, deref, rng.choice([None, None, "float", "int", "double"])))
            elif r < 0.6:
                sigs.append(mk_value_sig(rng, owner, m, rng.choice(CLASSES[1:]), rng.choice([0, 1, 1, 2, 3]), deref, None, const=rng.random() < 0.2))
            elif r < 0.7 and enum_t:
                sigs.append(mk_value_sig(rng, owner, m, rng.choice(enum_ts), 0, deref, rng.choice([None, "int"])))
            else:
                if rng.random() < 0.3:
                    ebase, edepth = rng.choice(ARITH), 0
                else:
                    ebase, edepth = rng.choice(CLASSES[1:]), rng.choice([0, 1, 1, 2])
                custom = rng.random() < 0.6
                cname = f"Vec_{ebase}_{edepth}" if custom else None
                sigs.append(mk_coll_sig(rng, owner, m, ebase, edepth, cname, rng.choice([0, 0, 1, 1, 2, 3]) if custom else 0, deref,
                                        econst=(edepth > 0 and rng.random() < 0.15)))
    if rng.random() < 0.2:  # a later declaration of the same method replaces the earlier one (as metadata replaces a backend default)
        old = rng.choice(sigs)
        if rng.random() < 0.5:
            sigs.append(mk_value_sig(rng, old["owner"], old["m"], rng.choice(CLASSES[1:]), rng.choice([0, 1, 2]), rng.choice([None, 1]), None))
        else:
            sigs.append(mk_value_sig(rng, old["owner"], old["m"], rng.choice(ARITH), 0, rng.choice([None, 0, 2]), rng.choice([None, "float"])))
    w = {"backend": backend, "sigs": sigs, "enums": enums}
    if backend != "atlas":  # CMS: elements by value unless the collection metadata says element_pointer=True
        ep = rng.choice([None, False, True, True])
        if ep is not None:
            w["element_pointer"] = ep
    return w


def random_col(rng, world, force_undeclared: bool = False) -> Optional[Dict[str, Any]]:
    """A random walk through the declared signatures ending in something a column can hold."""
    by_owner: Dict[str, List[Dict[str, Any]]] = {}
    eff: Dict[Tuple[str, str], Dict[str, Any]] = {}
    for s in world["sigs"]:
        eff[(s["owner"], s["m"])] = s
    for s in eff.values():
        by_owner.setdefault(s["owner"], []).append(s)
    cur = ("obj", "T0")  # ("obj", class) | ("coll", sig) | ("val", sig)
    steps: List[Dict[str, Any]] = []
    n_each = 0
    undeclared = force_undeclared or rng.random() < 0.08
    for _ in range(rng.randint(1, 6)):
        if cur[0] == "obj":
            opts = by_owner.get(cur[1], [])
            if undeclared and rng.random() < 0.5:
                steps.append(call("zz_undeclared"))
                return {"steps": steps, "fin": {"k": "plain"}}
            if not opts:
                return None
            s = rng.choice(opts)
            steps.append(call(s["m"], rng.choice([None, None, None, 3])))
            if s["form"] == "coll":
                cur = ("coll", s)
            elif s["base"] in CLASSES:
                cur = ("obj", s["base"])
            else:
                cur = ("val", s)
                r = rng.random()
                if r < 0.02 and s["base"] in ARITH:  # refused: a method call on double / float / int
                    steps.append(call("foo"))
                    return {"steps": steps, "fin": {"k": "plain"}}
                if r < 0.03:  # refused: index of something that is not a collection
                    steps.append({"k": "index", "i": 0})
                    return {"steps": steps, "fin": {"k": "plain"}}
                break
        elif cur[0] == "coll":
            s = cur[1]
            deep = (s["cdepth"] if s.get("cname") else 0) >= 2
            if (rng.random() < 0.5 or deep) or n_each >= 2:
                steps.append({"k": "index", "i": rng.choice([0, 1, 2])})
            else:
                steps.append(dict(EACH))
                n_each += 1
            cur = ("obj", s["ebase"]) if s["ebase"] in CLASSES else ("elemval", s)
            if cur[0] == "elemval":
                break
    if cur[0] == "coll":
        s = cur[1]
        deep = (s["cdepth"] if s.get("cname") else 0) >= 2
        if deep or n_each >= 2 or rng.random() < 0.4:
            steps.append({"k": "index", "i": 0})
        else:
            steps.append(dict(EACH))
            n_each += 1
        cur = ("obj", s["ebase"]) if s["ebase"] in CLASSES else ("elemval", s)
    if cur[0] == "obj":
        # end on a declared arithmetic / enum value of this class if there is one, else an undeclared call (fallback)
        opts = [s for s in by_owner.get(cur[1], []) if s["form"] == "value" and s["base"] not in CLASSES and s["depth"] == 0]
        if opts:
            s = rng.choice(opts)
            steps.append(call(s["m"]))
            cur = ("val", s)
        else:
            steps.append(call("zz_undeclared"))
            return {"steps": steps, "fin": {"k": "plain"}}
    fin = {"k": "plain"}
    if cur[0] == "elemval":
        if steps[-1]["k"] == "each":
            fin = {"k": "addOne"}  # an identity Select would be simplified away
        elif rng.random() < 0.3:
            fin = {"k": "addOne"}
    elif cur[0] == "val":
        s = cur[1]
        if s["base"] in ARITH and rng.random() < 0.3:
            fin = random_tail(rng, s["base"])
        elif world["enums"] and "::" in s["base"] and rng.random() < 0.6:
            e = next((x for x in world["enums"] if enum_cpp_type(x) == s["base"]), world["enums"][0])
            path = e["ns"].split(".") + [e["name"], rng.choice(e["values"])]
            fin = {"k": "eqConst", "path": path} if rng.random() < 0.5 else {"k": "cmpConst", "op": rng.choice(["==", "!="]), "path": path}
    return {"steps": steps, "fin": fin}


AOPS = ["+", "-", "*"]
COPS = ["==", "!=", "<", "<=", ">", ">="]


def random_tail(rng, base: str) -> Dict[str, Any]:
    """A tail over an int/float/double value (inside `tailDomain`: no true division of a float)."""
    r = rng.random()
    if r < 0.3:
        return {"k": "addOne"}
    if r < 0.6:
        return {"k": "arith", "op": rng.choice(AOPS), "n": rng.choice([1, 2, 3, 10])}
    if r < 0.75 and base != "float":
        return {"k": "div", "n": rng.choice([2, 3, 4])}
    return {"k": "cmp", "op": rng.choice(COPS), "n": rng.choice([0, 1, 5])}


def tail_worlds(tier: str):
    """Directed: one declared arithmetic method (every base x declared tree_type x deref_count) ending in every tail —
    arithmetic with a literal, true division, every comparison — directly and under a loop; an enum-typed method (nested
    namespace) compared with its constants by == and !=."""
    tails = [{"k": "arith", "op": op, "n": 2} for op in AOPS] + [{"k": "div", "n": 2}] + [{"k": "cmp", "op": op, "n": 3} for op in COPS]
    for backend in (["atlas"] if tier == "quick" else ["atlas", "cms_miniaod"]):
        for base in ARITH:
            for tree in [None, "float", "int"]:
                for deref in ([None] if tier == "quick" else [None, 2]):
                    sig = mk_value_sig(None, "T0", "m", base, 0, deref, tree)
                    cols = [{"steps": [call("m")], "fin": t} for t in tails if not (t["k"] == "div" and base == "float")]
                    yield {"backend": backend, "sigs": [sig], "cols": cols}
        for base in ["double", "int"]:
            csig = mk_coll_sig(None, "T0", "c", "T1", 1, "Vec", 1, None)
            vsig = mk_value_sig(None, "T1", "v", base, 0, 1, "float")
            yield {"backend": backend, "sigs": [csig, vsig],
                   "cols": [{"steps": [call("c"), EACH, call("v")], "fin": t} for t in (tails[:4] + tails[-2:])]}
        for ns in ["NS", "NS.Sub.Deep", "N1.N2.N3.N4.N5"]:
            e = {"ns": ns, "name": "Color", "values": ["Red", "Blue"]}
            sig = mk_value_sig(None, "T0", "e", enum_cpp_type(e), 0, None, None)
            yield {"backend": backend, "sigs": [sig], "enums": [e],
                   "cols": [{"steps": [call("e")], "fin": {"k": "cmpConst", "op": op, "path": ns.split(".") + ["Color", v]}} for op in ["==", "!="] for v in e["values"]]}


def random_case(rng) -> Dict[str, Any]:
    w = random_world(rng)
    cols = []
    for _ in range(rng.randint(1, 4)):
        for _try in range(10):
            c = random_col(rng, w)
            if c is not None:
                cols.append(c)
                break
    if not cols:
        w["sigs"].append(dict(V_DOUBLE, owner="T0"))
        cols = [{"steps": [call("v")], "fin": {"k": "plain"}}]
    w["cols"] = cols
    return w


def nontrivial_case(case) -> bool:
    for s in case["sigs"]:
        if s["form"] == "coll" or (s.get("deref") or 0) > 0 or s.get("tree") or s.get("depth", 0) > 0:
            return True
    return bool(case.get("enums")) or case.get("element_pointer") is True


def case_key(case) -> str:
    k = {"backend": case["backend"], "mds": case_mds(case), "enums": case.get("enums", []), "query": query_src(case)}
    if case.get("element_pointer") is not None and case["backend"] != "atlas":
        k["element_pointer"] = bool(case["element_pointer"])
    return json.dumps(k, sort_keys=True)


# ----------------------------------------------------------------------------------------------
# evaluation of pipeline cases
# ----------------------------------------------------------------------------------------------
def model_reqs(case) -> List[Dict[str, Any]]:
    return [{"op": "cols", "mds": case_mds(case), "enums": case.get("enums", []), **root_req(case),
             "cols": [{"steps": c["steps"], "fin": c.get("fin", {"k": "plain"})} for c in case["cols"]]}]


def spec_req(case, res) -> Dict[str, Any]:
    obs = observe(res)
    return {"op": "spec_frag", "mds": case_mds(case), "enums": case.get("enums", []), **root_req(case), "rootColl": "TC",
            "warned": [[w[0], w[1]] for w in res["fallbacks"]],
            "frag": {"root": obs["root"], "loops": obs["loops"], "cols": [{"name": c["name"], "decl": c["decl"], "seq": c["seq"], "rhs": c["rhs"]} for c in obs["cols"]]}}


def in_exclusion(model_cols) -> Optional[str]:
    """Defect exclusions of the *_partial theorems, decided on the model's own output."""
    for mc in model_cols:
        if "ok" in mc:
            o = mc["ok"]
            if any(d >= 2 for d in o["iterDepths"]):
                return "deep-collection-loop"
            v = o["val"]
            if v["tree"] is not None and v["tree"] != v["name"] and v["depth"] > 0:
                return "tree-type-on-pointer"
    return None


HOW_PIPE = ("declare the event collection, then `case.enums` and `case.mds` in REVERSE list order through .MetaData on a func_adl EventDataset (extract_metadata returns the "
            "outermost call first, so process_metadata sees them in list order), build `case.query`, run "
            "<backend>_executor().apply_ast_transformations + write_cpp_files; `observed` holds the emitted lines; ./check C10 --replay <this file>")


def judge_pipeline(ctx, stream: str, cases: List[Dict[str, Any]], compile_all: bool, compile_sample: int = 0):
    """Translate every case with the real pipeline, run the model and the Spec through one driver call, compare."""
    results = [run_pipeline(c) for c in cases]
    ctx.check_time()
    reqs: List[Dict[str, Any]] = []
    for c, r in zip(cases, results):
        reqs.extend(model_reqs(c))
        reqs.append(spec_req(c, r) if "err" not in r else {"op": "access", "x": "x", "d": 0, "n": 0})
    ans = ctx.driver(DRIVER, reqs)
    to_compile: List[Tuple[int, Tuple[Dict[str, Any], Dict[str, Any], List[List[str]]]]] = []
    for i, (c, r) in enumerate(zip(cases, results)):
        m, s = ans[2 * i], ans[2 * i + 1]
        key = case_key(c)
        ctx.count(f"pipe:{stream}")
        ctx.count(f"pipe-backend:{c['backend']}" + ("" if c.get("element_pointer") is None else f":element_pointer={c['element_pointer']}"))
        sample = {"backend": c["backend"], "collection_md": collection_md(c), "mds": case_mds(c), "enums": c.get("enums", []), "query": query_src(c),
                  "implementation": (r.get("query") if "err" not in r else r)}
        ctx.case(key, nontrivial_case(c), sample if ctx.dist.get(f"pipe:{stream}", 0) <= 2 and len(c["cols"]) <= 2 or ctx.dist.get(f"pipe:{stream}", 0) == 40 else None)
        if "bad" in m or "bad" in s:
            continue
        mcols = m.get("cols")
        if mcols is None:  # the declarations themselves are refused by the model
            ctx.count("pipe:model-refuses-declarations")
            if "err" not in r:
                ctx.disagreement("pipeline", _replay_case(c), m, {"ok": "translated"})
            continue
        excl = in_exclusion(mcols)
        if excl:
            ctx.count("pipe:generated-inside-defect-exclusion")  # generators avoid these; counted if one slips through
            continue
        model_errs = [mc["err"] for mc in mcols if "err" in mc]
        if "err" in r:
            ctx.count("pipe-impl:" + r["err"])
            if all(mc.get("must_accept", False) for mc in mcols):
                ctx.violation(key="pipe:" + key, what=f"a query over declared signatures is refused ({r['err']}: {r.get('msg', '')[:120]}) although every call in it is declared or allowed",
                              case=_replay_case(c), observed=r, how=HOW_PIPE)
            elif not model_errs or not any(r["err"] in MODEL_ERR.get(e, {e}) for e in model_errs):
                ctx.disagreement("pipeline-error-kind", _replay_case(c), model_errs, r["err"])
            continue
        ctx.count("pipe-impl:ok")
        for mc in mcols:
            if "ok" in mc:
                o = mc["ok"]
                ctx.count(f"pipe-col:loops={len(o['loops'])}")
                ctx.count(f"pipe-col:star-levels={min(o['rhs'].count('(*'), 9)}")
                if o["rhs"].startswith("static_cast"):
                    ctx.count("pipe-col:tree-type-cast")
                if "::" in o["rhs"] and ("==" in o["rhs"] or "!=" in o["rhs"]):
                    ctx.count("pipe-col:enum-compare")
                elif o["rhs"].endswith(")") and re.search(r"(==|!=|<=|>=|<|>)\d+\)+$", o["rhs"].replace("->", "")):
                    ctx.count("pipe-col:tail-compare-literal")
                elif re.search(r"[-+*/]\d+\)+$", o["rhs"]):
                    ctx.count("pipe-col:tail-arithmetic")
                if o["warns"]:
                    ctx.count("pipe-col:fallback")
                if not o["roundtrip"]:
                    ctx.broken.append({"kind": "parser-roundtrip", "rhs": o["rhs"]})
        # the Spec on what the implementation emitted
        if not s.get("holds", False):
            ctx.violation(key="pipe:" + key, what="generated code does not honour the declared types: " + str(s.get("why")),
                          case=_replay_case(c), observed={"query": r["query"], "class_decl": r["class_decl"], "warnings": r["fallbacks"]}, how=HOW_PIPE)
        if model_errs:
            ctx.disagreement("pipeline-model-refuses", _replay_case(c), model_errs, {"ok": r["query"]})
            continue
        # the tie
        obs = observe(r)
        impl_cols = [canon_col(obs, col) for col in obs["cols"]]
        model_cols = [canon_model_col(mc["ok"]) for mc in mcols]
        impl_warn = sorted(set((w[0], w[1]) for w in r["fallbacks"]))
        model_warn = sorted(set((w[0], w[1]) for mc in mcols for w in mc["ok"]["warns"]))
        if impl_cols != model_cols or impl_warn != model_warn:
            ctx.disagreement("pipeline", _replay_case(c), {"cols": model_cols, "warns": model_warn}, {"cols": impl_cols, "warns": impl_warn, "query": r["query"]})
        if any(w[2] != "double" for w in r["fallbacks"]):
            ctx.violation(key="pipe:" + key, what="the fallback warning names a type other than double", case=_replay_case(c), observed=r["fallbacks"], how=HOW_PIPE)
        to_compile.append((i, (c, r, r["fallbacks"])))
    # g++: every case (thorough) or a sample (quick)
    if not compile_all:
        ctx.rng.shuffle(to_compile)
        to_compile = to_compile[:compile_sample]
    if to_compile:
        outs = compile_cases([x[1] for x in to_compile])
        for (i, (c, r, w)), (ok, err) in zip(to_compile, outs):
            ctx.count("g++:ok" if ok else "g++:rejected")
            if not ok:
                first = next((ln for ln in err.splitlines() if "error" in ln), err[:200])
                ctx.violation(key="pipe:" + case_key(c), what="g++ rejects the generated per-event code against C++ classes generated from the declared signatures: " + first.strip()[:200],
                              case=_replay_case(c), observed={"query": r["query"], "class_decl": r["class_decl"], "g++": err[-1500:]}, how=HOW_PIPE)
        ctx.check_time()


def _replay_case(c) -> Dict[str, Any]:
    return {"kind": "pipeline", **mk_case(c), "collection_md": collection_md(c), "mds": case_mds(c), "query": query_src(c)}


# ----------------------------------------------------------------------------------------------
# unit streams
# ----------------------------------------------------------------------------------------------
# ----------------------------------------------------------------------------------------------
# sequences of translations in one process: the fallback warning belongs to EVERY translation that assumes double
# ----------------------------------------------------------------------------------------------
UNDECL = "zz_undeclared"
HOW_SEQ = ("in ONE interpreter, without touching cpp_types globals in between: for each entry of `case.queries` build the query (declarations of `case.mds` "
           "in its own MetaData, as for a pipeline case) and translate it with a new or the shared executor through `path` (write = apply_ast_transformations + "
           "write_cpp_files; visitor = apply_ast_transformations + get_visitor_obj().get_as_ROOT), collecting the log of func_adl_xAOD.common.ast_to_cpp_translator "
           "per translation; ./check C10 --replay <this file>")


def undeclared_col(rng, world) -> Dict[str, Any]:
    """A column whose chain ends in a call of the never-declared method on some class of the world."""
    if rng is not None:
        for _ in range(12):
            c = random_col(rng, world, force_undeclared=True)
            if c is not None and c["steps"] and c["steps"][-1].get("m") == UNDECL and c.get("fin", {}).get("k", "plain") == "plain":
                return c
    return {"steps": [call(UNDECL)], "fin": {"k": "plain"}}


def declared_col(rng, world) -> Dict[str, Any]:
    for _ in range(20):
        c = random_col(rng, world) if rng is not None else None
        if c is not None and all(st.get("m") not in (UNDECL, "foo") for st in c["steps"]) and not (c["steps"] and c["steps"][-1]["k"] == "index" and False):
            return c
    return {"steps": [call("v0")], "fin": {"k": "plain"}}


def refused_col() -> Dict[str, Any]:
    """`t.v0().foo()`: a method call on a double - the translation is refused after earlier columns were visited."""
    return {"steps": [call("v0"), call("foo")], "fin": {"k": "plain"}}


def seq_world(rng) -> Dict[str, Any]:
    w = random_world(rng) if rng is not None else {"backend": "atlas", "sigs": [], "enums": []}
    w["sigs"] = [s for s in w["sigs"] if s["m"] != "v0"] + [mk_value_sig(None, "T0", "v0", "double", 0)]
    return w


def mk_query(kind: str, rng, world, path: str, exe: str) -> Dict[str, Any]:
    if kind == "U":  # uses the undeclared method, possibly next to declared columns
        cols = [undeclared_col(rng, world)]
        if rng is not None:
            for _ in range(rng.choice([0, 0, 1, 2])):
                cols.insert(rng.randrange(len(cols) + 1), declared_col(rng, world))
    elif kind == "D":  # declared methods only
        cols = [declared_col(rng, world) for _ in range(1 if rng is None else rng.randint(1, 2))]
    else:  # "F": assumes double for the undeclared method, then is refused (nothing is reset after a failed translation)
        cols = [undeclared_col(rng, world), refused_col()]
    return {"kind": kind, "cols": cols, "path": path, "exe": exe}


SEQ_PATTERNS = [["U", "U"], ["U", "U", "U"], ["U", "D", "U"], ["D", "U", "U"], ["U", "F", "U"], ["F", "U"]]


def exhaustive_sequences(tier: str):
    """Minimal world (only T0::v0 declared), every pattern x every assignment of entry points x both executor modes."""
    for backend in (["atlas"] if tier == "quick" else BACKENDS):
        for pat in SEQ_PATTERNS:
            for paths in itertools.product(["write", "visitor"], repeat=len(pat)):
                for exe in ("new", "reuse"):
                    w = seq_world(None)
                    w["backend"] = backend
                    w["queries"] = [mk_query(k, None, w, p, exe) for k, p in zip(pat, paths)]
                    yield w


def random_sequence(rng) -> Dict[str, Any]:
    w = seq_world(rng)
    pat = rng.choice(SEQ_PATTERNS)
    w["queries"] = [mk_query(k, rng, w, rng.choice(["write", "visitor"]), rng.choice(["new", "reuse"])) for k in pat]
    return w


def seq_case(seq, i: int) -> Dict[str, Any]:
    return mk_case({**seq, "cols": seq["queries"][i]["cols"]})


def seq_key(seq) -> str:
    k = {"backend": seq["backend"], "mds": case_mds(seq), "enums": seq.get("enums", []),
         "queries": [[q.get("path", "write"), q.get("exe", "new"), query_src({"cols": q["cols"]})] for q in seq["queries"]]}
    if seq.get("element_pointer") is not None and seq["backend"] != "atlas":
        k["element_pointer"] = bool(seq["element_pointer"])
    return json.dumps(k, sort_keys=True)


def _replay_seq(seq, failing: Optional[int] = None) -> Dict[str, Any]:
    base = mk_case({**seq, "cols": []})
    base.pop("cols")
    return {"kind": "sequence", **base, "collection_md": collection_md(seq), "mds": case_mds(seq), "failing_translation": failing,
            "queries": [{"kind": q.get("kind"), "path": q.get("path", "write"), "exe": q.get("exe", "new"), "cols": q["cols"], "query": query_src({"cols": q["cols"]})}
                        for q in seq["queries"]]}


def judge_sequences(ctx, stream: str, seqs: List[Dict[str, Any]]):
    """Every translation of every sequence is judged on its own by the same Spec as a single translation: the text is well
    typed against the declarations GIVEN the fallbacks logged during that very translation (an undeclared call without
    its own warning is ill typed), warnings name `double`, none for declared methods."""
    runs = [run_sequence(sq) for sq in seqs]
    ctx.check_time()
    reqs: List[Dict[str, Any]] = []
    for sq, rs in zip(seqs, runs):
        for i, r in enumerate(rs):
            c = seq_case(sq, i)
            reqs.extend(model_reqs(c))
            reqs.append(spec_req(c, r) if "err" not in r else {"op": "access", "x": "x", "d": 0, "n": 0})
    ans = ctx.driver(DRIVER, reqs)
    k = 0
    for sq, rs in zip(seqs, runs):
        key = "seq:" + seq_key(sq)
        ctx.count(f"seq:{stream}")
        ctx.count("seq-pattern:" + "".join(q.get("kind", "?") for q in sq["queries"]))
        first = ctx.dist.get(f"seq:{stream}", 0) == 3
        ctx.case(key, True, {"sequence": _replay_seq(sq), "warnings_per_translation": [r["fallbacks"] for r in rs]} if first else None)
        bad = None
        for i, r in enumerate(rs):
            m, s = ans[k], ans[k + 1]
            k += 2
            if bad is not None or "bad" in m or "bad" in s:
                continue
            q = sq["queries"][i]
            ctx.count(f"seq-translation:{q.get('path', 'write')}:{q.get('exe', 'new')}")
            mcols = m.get("cols") or []
            if in_exclusion(mcols):
                ctx.count("seq:generated-inside-defect-exclusion")
                bad = "excluded"
                continue
            model_errs = [mc["err"] for mc in mcols if "err" in mc]
            obs = {"translation": i, "warnings_per_translation": [x["fallbacks"] for x in rs], "result": r}
            if "err" in r:
                ctx.count("seq-impl:" + r["err"])
                if mcols and all(mc.get("must_accept", False) for mc in mcols):
                    ctx.violation(key=key, what=f"translation #{i} of a sequence in one process is refused ({r['err']}: {r.get('msg', '')[:100]}) although every call in it is declared or allowed",
                                  case=_replay_seq(sq, i), observed=obs, how=HOW_SEQ)
                    bad = "violation"
                continue
            ctx.count("seq-impl:ok")
            model_warn = sorted(set((w[0], w[1]) for mc in mcols if "ok" in mc for w in mc["ok"]["warns"]))
            impl_warn = sorted(set((w[0], w[1]) for w in r["fallbacks"]))
            if model_warn:
                ctx.count("seq-translation:assumes-double")
            if not s.get("holds", False):
                missing = [w for w in model_warn if w not in impl_warn]
                extra = " — no warning was logged during this translation for " + ", ".join(f"{a}::{b}" for a, b in missing) if missing else ""
                ctx.violation(key=key, what=f"translation #{i} of a sequence of translations in one process does not honour the declarations{extra}: " + str(s.get("why")),
                              case=_replay_seq(sq, i), observed=obs, how=HOW_SEQ)
                bad = "violation"
                continue
            if any(w[2] != "double" for w in r["fallbacks"]):
                ctx.violation(key=key, what=f"translation #{i}: the fallback warning names a type other than double", case=_replay_seq(sq, i), observed=obs, how=HOW_SEQ)
                bad = "violation"
                continue
            if model_errs:
                ctx.disagreement("sequence-model-refuses", _replay_seq(sq, i), model_errs, {"ok": r["query"]})
                continue
            o = observe(r)
            impl_cols = [canon_col(o, col) for col in o["cols"]]
            model_cols = [canon_model_col(mc["ok"]) for mc in mcols]
            if impl_cols != model_cols or impl_warn != model_warn:
                ctx.disagreement("sequence", _replay_seq(sq, i), {"cols": model_cols, "warns": model_warn}, {"cols": impl_cols, "warns": impl_warn})


HOW_UNIT = "call the function named by `case.op` with the arguments of `case` (see impl_unit in tools/props/c10.py); ./check C10 --replay <this file>"


ENUM_VALUES = {"Color": ["Red", "Blue", "Green"], "Kind": ["K1", "K2", "K3"], "Shape": ["Round", "Square", "Flat"], "B": ["B1", "B2", "B3"]}
ENUM_NSS = ["NS", "NS.Sub", "NS.Sub.Deep", "NS.Other"]


def enum_worlds_exhaustive():
    """Every ordered pair of different enums over a top-level namespace, a nested one, a deeper one and a sibling (so: two
    enums in the SAME nested namespace, parent/child, siblings — each in both processing orders), plus three in one namespace."""
    yield [{"ns": "NS.Sub", "name": "Color", "values": ["Red", "Blue"]}]
    for n1 in ENUM_NSS:
        for n2 in ENUM_NSS:
            yield [{"ns": n1, "name": "Color", "values": ["Red", "Blue"]}, {"ns": n2, "name": "Shape", "values": ["Round", "Square"]}]
    three = [{"ns": "NS.Sub", "name": n, "values": ENUM_VALUES[n][:2]} for n in ("Color", "Shape", "Kind")]
    for perm in itertools.permutations(three):
        yield list(perm)


def enum_cpp_type(e) -> str:
    return "::".join(e["ns"].split(".")) + "::" + e["name"]


def enum_pipeline_worlds(tier: str):
    """The same worlds through the whole pipeline: one method per enum returns it, one column per enum compares it with
    one of its values (and one stores it through tree_type int)."""
    backends = ["atlas"] if tier == "quick" else BACKENDS
    for bi, defs in enumerate(enum_worlds_exhaustive()):
        backend = backends[bi % len(backends)]
        sigs, cols = [], []
        for i, e in enumerate(defs):
            sigs.append(mk_value_sig(None, "T0", f"e{i}", enum_cpp_type(e), 0, None, "int" if i == 0 else None))
            cols.append({"steps": [call(f"e{i}")], "fin": {"k": "eqConst", "path": e["ns"].split(".") + [e["name"], e["values"][-1]]}})
        cols.append({"steps": [call("e0")], "fin": {"k": "plain"}})
        yield {"backend": backend, "sigs": sigs, "enums": defs, "cols": cols}


def unit_requests(ctx) -> List[Tuple[str, Dict[str, Any], bool]]:
    rng, tier = ctx.rng, ctx.tier
    R: List[Tuple[str, Dict[str, Any], bool]] = []  # (stream, request, nontrivial)
    # --- type strings
    for d in decor_cases_exhaustive(tier):
        R.append(("decor-exhaustive", {"op": "decor", **d, "s": decorate(d["const"], d["base"], d["pre"], d["gaps"], d["post"])}, len(d["gaps"]) > 0 or d["const"]))
    for _ in range(1500 if tier == "quick" else 20000):
        d = decor_case_random(rng)
        R.append(("decor-random", {"op": "decor", **d, "s": decorate(d["const"], d["base"], d["pre"], d["gaps"], d["post"])}, True))
    for _ in range(1500 if tier == "quick" else 20000):
        R.append(("parse-arbitrary", {"op": "parse", "s": arbitrary_string(rng)}, True))
    # --- terminal / collection
    for name in ["double", "T", "const x"]:
        for depth in range(0, 4):
            for const in (False, True):
                for tree in (None, "float", name):
                    R.append(("term", {"op": "term", "t": {"name": name, "depth": depth, "const": const, "tree": tree}}, depth > 0 or tree is not None))
                    R.append(("derefvar", {"op": "derefvar", "x": rng.choice(["x", "a->b()", "(*p)"]), "t": {"name": name, "depth": depth, "const": const, "tree": tree}}, depth > 0))
    for ename, edepth, econst in [("double", 0, False), ("T", 1, False), ("T", 2, True), ("U", 0, True)]:
        elem = {"name": ename, "depth": edepth, "const": econst}
        for pd in range(0, 3):
            R.append(("coll", {"op": "coll", "elem": elem, "pdepth": pd}, True))
            R.append(("coll", {"op": "coll", "elem": elem, "pdepth": pd, "arr_s": "MyVec"}, True))
            for ad in range(0, 3):
                R.append(("coll", {"op": "coll", "elem": elem, "pdepth": pd, "arr_p": {"name": "Arr", "depth": ad, "const": ad == 1}}, True))
    # --- member access
    for x in ["x", "i_obj3", "(*a)->b()", "a.b()->c()"]:
        for d in range(0, 4):
            for n in range(0, 4):
                R.append(("access-exhaustive", {"op": "access", "x": x, "d": d, "n": n}, d + n > 0))
    for _ in range(300 if tier == "quick" else 3000):
        R.append(("access-random", {"op": "access", "x": rng.choice(["x", "p->q()", "(*(*z))"]), "d": rng.randint(0, 9), "n": rng.randint(0, 9)}, True))
    # --- metadata -> registry, determine_type_mf
    for _ in range(400 if tier == "quick" else 4000):
        w = random_world(rng)
        mds = case_mds(w)
        if rng.random() < 0.3 and mds:  # a later declaration of the same method replaces the earlier one
            dup = dict(rng.choice(mds))
            dup.pop("return_type_element", None)
            dup.pop("return_type_collection", None)
            dup["return_type"] = rng.choice(["int", "T2 *", "const T1**"])
            mds.append(dup)
        if rng.random() < 0.04 and mds:  # neither return_type nor return_type_element
            bad = {"type_string": "T1", "method_name": "bad"}
            mds.insert(rng.randrange(len(mds) + 1), bad)
        R.append(("mdreg", {"op": "mdreg", "mds": mds}, True))
        owner = rng.choice(CLASSES + ["Vec_T1_1"]) if rng.random() < 0.88 else rng.choice(["double", "float", "int"])
        decl = [md["method_name"] for md in mds if md["type_string"] == owner]
        m = rng.choice(decl) if decl and rng.random() < 0.6 else "zz_undeclared"
        R.append(("mf", {"op": "mf", "mds": mds, "parent": {"name": owner, "depth": rng.randint(0, 2)}, "m": m}, True))
    # --- enums: several declarations per world — the same nested namespace, siblings, deeper levels, both processing orders
    for defs in enum_worlds_exhaustive():
        for d in defs:
            for v in d["values"]:
                R.append(("enum-worlds", {"op": "enum", "enums": defs, "path": d["ns"].split(".") + [d["name"], v]}, len(defs) > 1))
    nss = ["A", "A.B", "A.B.C", "A.D", "xAOD.Jet", "xAOD.Jet.Sub", "Z"]
    for _ in range(300 if tier == "quick" else 3000):
        defs = []
        for _ in range(rng.choice([1, 2, 2, 3, 3, 4])):
            name = rng.choice(["Color", "Kind", "Shape", "B"])
            defs.append({"ns": rng.choice(nss), "name": name, "values": rng.sample(ENUM_VALUES[name], rng.randint(1, 3))})
        d = rng.choice(defs)
        r = rng.random()
        if r < 0.6:
            path = d["ns"].split(".") + [d["name"], rng.choice(d["values"] + ["Red"])]
        elif r < 0.75:
            path = d["ns"].split(".") + [d["name"]]
        elif r < 0.85:
            path = d["ns"].split(".") + [d["name"], d["values"][0], "value"]
        else:
            path = rng.choice([["A"], ["Q", "Color", "Red"], ["A", "Nope", "Red"], d["ns"].split(".")])
        R.append(("enum", {"op": "enum", "enums": defs, "path": path}, True))
    return R


def judge_units(ctx):
    R = unit_requests(ctx)
    impl = [impl_unit(req) if req["op"] != "decor" else impl_unit({"op": "parse", "s": req["s"]}) for _, req, _ in R]
    ctx.check_time()
    reqs: List[Dict[str, Any]] = []
    for (stream, req, _), im in zip(R, impl):
        if req["op"] == "decor":
            reqs.append({**req, "obs": im if "err" not in im else {"name": "", "depth": 0, "const": False}})
            reqs.append({"op": "parse", "s": req["s"]})
        elif req["op"] == "access":
            reqs.append(req)
            reqs.append({"op": "spec_access", "x": req["x"], "d": req["d"], "n": req["n"], "obs": im.get("text", "")})
        elif req["op"] == "enum":
            reqs.append(req)
            w = {"op": "spec_enum_world", "enums": req["enums"], "path": req["path"]}
            if im.get("kind") == "value":
                w["obs"] = im.get("cpp", "")
            reqs.append(w)
        else:
            reqs.append(req)
            reqs.append({"op": "parse", "s": ""})  # filler: two answers per case
    ans = ctx.driver(DRIVER, reqs)
    for i, ((stream, req, nontriv), im) in enumerate(zip(R, impl)):
        a, b = ans[2 * i], ans[2 * i + 1]
        ctx.count(f"unit:{stream}")
        if "err" in im:
            ctx.count(f"unit-impl-error:{im['err']}")
        first = ctx.dist.get(f"unit:{stream}", 0) == 1 and stream in ("decor-random", "mf", "enum")
        ctx.case([stream, req], nontriv, {"stream": stream, "request": req, "implementation": im} if first else None)
        if "bad" in a or "bad" in b:
            continue
        op = req["op"]
        case = {"kind": "unit", **req}
        if op == "decor":
            if not a["same_input"]:
                raise RuntimeError("harness and Spec disagree on the decorated string")
            if a["hyp"]:
                ctx.count("unit:decor-inside-hypotheses")
                if "err" in im or not a["holds"]:
                    ctx.violation(key="parse:" + repr(req["s"]), what=f"parse_type({req['s']!r}) is not (base={req['base']!r}, depth={len(req['gaps'])}, const={req['const']})",
                                  case=case, observed=im, how=HOW_UNIT)
            if not same_unit("parse", b, im):
                ctx.disagreement("parse_type", case, b, im)
        elif op == "access":
            if not b.get("holds", False):
                ctx.violation(key=f"access:{req['x']}:{req['d']}:{req['n']}", what=f"base_type_member_access on pointer depth {req['d']} with {req['n']} extra dereferences does not consume {req['d'] + req['n']} indirections",
                              case=case, observed=im, how=HOW_UNIT)
            if not same_unit(op, a, im):
                ctx.disagreement("base_type_member_access", case, a, im)
        elif op == "enum":
            if b.get("obliged"):
                ctx.count("unit:enum-value-of-declared-enum")
            if not b.get("render_ok", False):
                ctx.violation(key="enum:" + json.dumps(req, sort_keys=True), what="an enum constant does not render as ns::…::Value", case=case, observed=im, how=HOW_UNIT)
            elif b.get("obliged") and not b.get("holds", False):
                ctx.violation(key="enum:" + json.dumps(req, sort_keys=True),
                              what=f"with these enum declarations processed in this order, `{'.'.join(req['path'])}` is a value of a declared enum and must render as `{b.get('expected')}`, but the translator answers {im}",
                              case=case, observed=im, how=HOW_UNIT)
            if not same_unit(op, a, im):
                ctx.disagreement("enum-resolution", case, a, im)
        else:
            if op == "mf" and "ok" in im and "ok" in a:
                # Spec: declared -> exactly the declaration, silently; undeclared -> double, depth 0, deref 0, with a warning
                declared = any(md["type_string"] == req["parent"]["name"] and md["method_name"] == req["m"] for md in req["mds"])
                t = im["ok"]["rty"]["t"]
                if not declared and not (im["warn"] and im["ok"]["rty"]["kind"] == "value" and t["name"] == "double" and t["depth"] == 0 and im["ok"]["deref"] == 0):
                    ctx.violation(key="mf:" + json.dumps(req, sort_keys=True), what="an undeclared method is not assumed to return double under a logged warning", case=case, observed=im, how=HOW_UNIT)
                if declared and im["warn"]:
                    ctx.violation(key="mf:" + json.dumps(req, sort_keys=True), what="a declared method raises the fallback warning", case=case, observed=im, how=HOW_UNIT)
            if not same_unit(op, a, im):
                ctx.disagreement(op, case, a, im)



# ----------------------------------------------------------------------------------------------
# extension unit streams: any total indirection, any namespace depth, declarations judged one by one
# ----------------------------------------------------------------------------------------------
def _strip_info(i):
    """A registry entry as the Spec compares it (the `str` rendering is derived)."""
    if i is None or "err" in i:
        return i
    def t(x):
        return {k: v for k, v in x.items() if k != "str"}
    r = i["rty"]
    out = {"kind": r["kind"], "t": t(r["t"])}
    if r["kind"] == "coll":
        out["elem"] = t(r["elem"])
    return {"rty": out, "deref": i["deref"]}


def decl_pool(rng) -> List[Dict[str, Any]]:
    """Declarations of pairwise different (class, method), differing in WHICH optional keys they carry."""
    k = rng.choice([2, 2, 3, 3, 4])
    keys = rng.sample([(o, m) for o in CLASSES for m in ("a", "b", "c")], k)
    out = []
    for owner, m in keys:
        r = rng.random()
        deref = rng.choice([None, None, 0, 1, 2, 3])
        if r < 0.4:
            sig = mk_value_sig(rng, owner, m, rng.choice(ARITH), 0, deref, rng.choice([None, None, "float", "int"]))
        elif r < 0.7:
            sig = mk_value_sig(rng, owner, m, rng.choice(CLASSES[1:]), rng.choice([0, 1, 2]), deref, None, const=rng.random() < 0.2)
        else:
            custom = rng.random() < 0.5
            sig = mk_coll_sig(rng, owner, m, rng.choice(CLASSES[1:]), rng.choice([0, 1]), "Vec" if custom else None, rng.choice([0, 1, 2]) if custom else 0, deref)
        out.append(sig_md(sig))
    return out


def decl_lists_directed():
    """For each optional key: a declaration that carries it next to one that does not (and a third), so that a value
    surviving from one loop iteration to the next shows."""
    with_deref = sig_md(mk_value_sig(None, "T0", "m", "T1", 0, 1))
    with_deref3 = sig_md(mk_coll_sig(None, "T2", "c", "T1", 1, "Vec", 1, 3))
    with_tree = sig_md(mk_value_sig(None, "T1", "w", "double", 0, None, "float"))
    plain = sig_md(dict(V_DOUBLE))
    plain_coll = sig_md(mk_coll_sig(None, "T1", "cc", "T2", 0, None, 0, None))
    yield [with_deref, plain]
    yield [with_tree, plain]
    yield [with_deref3, plain_coll]
    yield [with_deref, with_tree, plain]
    yield [with_deref3, with_deref, plain_coll, plain]


HOW_LOCAL = ("cpp_types.g_method_type_dict = {}; process_metadata([{'metadata_type': 'add_method_type_info', **md} for md in case.mds]) and read "
             "g_method_type_dict[type_string][method_name] of `case.declaration`; then the same with the list [case.declaration] alone; ./check C10 --replay <this file>")


def judge_ext_units(ctx):
    from vlib import corpus_cases

    rng, tier = ctx.rng, ctx.tier
    ucorpus = [c for c in corpus_cases(ID) if c.get("kind") == "unit"]
    # --- (1) member access for every split d + k = n of every total n = 0..6 (then random totals to 14)
    acc = [(c["x"], c["d"], c["n"]) for c in ucorpus if c.get("op") == "access"]
    acc += [(x, d, n - d) for x in ["x", "(*a)->b()", "p->q(3)"] for n in range(0, 7) for d in range(0, n + 1)]
    acc += [(rng.choice(["x", "a.b()->c()"]), rng.randint(0, 7), rng.randint(0, 7)) for _ in range(60 if tier == "quick" else 600)]
    reqs: List[Dict[str, Any]] = []
    acc_impl = []
    for x, d, k in acc:
        im = impl_unit({"op": "access", "x": x, "d": d, "n": k})
        acc_impl.append(im)
        reqs.append({"op": "spec_access_shape", "x": x, "n": d + k, "obs": im.get("text", "")})
    # --- (2) enum constants through namespace nesting 1..8
    segs = ["xAOD", "Jet", "Sub", "Deep", "Er", "L6", "L7", "L8"]
    en = [{"op": "enum_obj", "ns": c["ns"], "name": c["name"], "v": c["v"]} for c in ucorpus if c.get("op") == "enum_obj"]
    en += [{"op": "enum_obj", "ns": segs[:n], "name": "Color", "v": v} for n in range(1, 9) for v in ("Red", "Blue")]
    en += [{"op": "enum_obj", "ns": [rng.choice(["A", "B", "NS", "a_b"]) + str(i) for i in range(rng.randint(1, 10))], "name": "K", "v": "K1"} for _ in range(20 if tier == "quick" else 200)]
    en_impl = [impl_unit(r) for r in en]
    reqs.extend(en)
    # --- (3) lists of k <= 4 declarations in EVERY order: each entry is the one the declaration gets alone
    lists = [c["mds"] for c in ucorpus if c.get("op") == "mdlocal"] + list(decl_lists_directed()) + [decl_pool(rng) for _ in range(25 if tier == "quick" else 300)]
    perms = [list(pm) for mds in lists for pm in itertools.permutations(mds)]
    loc_impl = [impl_unit({"op": "mdlocal", "mds": pm}) for pm in perms]
    loc_at = len(reqs)
    for pm, im in zip(perms, loc_impl):
        reqs.append({"op": "mdlocal", "mds": pm})
        for it in im.get("items", []):
            reqs.append({"op": "spec_local", "alone": _strip_info(it["alone"]), "inlist": _strip_info(it["inlist"])})
    ctx.check_time()
    ans = ctx.driver(DRIVER, reqs)
    i = 0
    for (x, d, k), im in zip(acc, acc_impl):
        a = ans[i]
        i += 1
        ctx.count(f"ext:access-total={min(d + k, 9)}")
        case = {"kind": "unit", "op": "access", "x": x, "d": d, "n": k}
        ctx.case(["access-total", x, d, k], d + k > 0, None)
        if "bad" in a:
            continue
        if not a.get("holds", False):
            ctx.violation(key=f"access:{x}:{d}:{k}", what=f"base_type_member_access on pointer depth {d} with deref_count {k}: the text {im.get('text')!r} does not hold exactly {max(d + k - 1, 0)} "
                          f"explicit `*` and one `{'->' if d + k else '.'}` (total indirection {d + k}; expected {a.get('chars')!r})", case=case, observed=im, how=HOW_UNIT)
    for r, im in zip(en, en_impl):
        a = ans[i]
        i += 1
        ctx.count(f"ext:enum-namespace-depth={min(len(r['ns']), 9)}")
        ctx.case(["enum-obj", r["ns"], r["v"]], len(r["ns"]) > 1, {"stream": "enum-obj", "request": r, "implementation": im} if len(r["ns"]) == 5 and r["v"] == "Red" else None)
        if "bad" in a:
            continue
        case = {"kind": "unit", **r}
        if "err" in im or im.get("cpp") != a["spec"]:
            ctx.violation(key="enum-obj:" + ".".join(r["ns"]) + ":" + r["v"], what=f"define_enum({'.'.join(r['ns'])!r}, …).value_as_cpp({r['v']!r}) is not the fully qualified `{a['spec']}` "
                          f"(namespace nesting depth {len(r['ns'])})", case=case, observed=im, how=HOW_UNIT)
        elif im.get("cpp") != a["cpp"] or im.get("full") != a["full"] or im.get("depth") != a["depth"]:
            ctx.disagreement("enum-object", case, a, im)
    i = loc_at
    for pm, im in zip(perms, loc_impl):
        a = ans[i]
        i += 1
        ctx.count(f"ext:declaration-list-len={len(pm)}")
        ctx.case(["mdlocal", pm], True, {"stream": "declaration-orders", "request": pm, "implementation": im} if ctx.dist.get("ext:declaration-list-len=3", 0) == 1 and len(pm) == 3 else None)
        items = im.get("items", [])
        sp = ans[i:i + len(items)]
        i += len(items)
        if "bad" in a or any("bad" in x for x in sp):
            continue
        if "err" in im:
            ctx.violation(key="mdlocal:" + json.dumps(pm, sort_keys=True), what=f"a list of well-formed method declarations is refused ({im['err']})", case={"kind": "unit", "op": "mdlocal", "mds": pm}, observed=im, how=HOW_LOCAL)
            continue
        bad = None
        for md, it, spj in zip(pm, items, sp):
            if not spj.get("holds", False) and bad is None:
                bad = (md, it)
        if bad is not None:
            md, it = bad
            ctx.violation(key="mdlocal:" + json.dumps(pm, sort_keys=True),
                          what=f"process_metadata: what is registered for {md['type_string']}::{md['method_name']} depends on the OTHER declarations of the list "
                               f"(inside this list: {json.dumps(_strip_info(it['inlist']))}; declared alone: {json.dumps(_strip_info(it['alone']))})",
                          case={"kind": "unit", "op": "mdlocal", "mds": pm, "declaration": md}, observed=im, how=HOW_LOCAL)
        model = [(_strip_info(x["alone"]), _strip_info(x["inlist"])) for x in a.get("items", [])]
        impl = [(_strip_info(x["alone"]), _strip_info(x["inlist"])) for x in items]
        if model != impl:
            ctx.disagreement("process_metadata-per-declaration", {"kind": "unit", "op": "mdlocal", "mds": pm}, model, impl)

# ----------------------------------------------------------------------------------------------
# known findings
# ----------------------------------------------------------------------------------------------
def replay_known(ctx, entry: Dict[str, Any]) -> bool:
    """True when the listed input still fails."""
    inp = entry["input"]
    case = mk_case(inp)
    if inp.get("kind") == "element_pointer":  # CMS collection declared with element_pointer=True
        case["element_pointer"] = True
    return _case_fails(ctx, case)


def _case_fails(ctx, case) -> bool:
    """Translate, type-check the text against the declarations (Spec), compile against the generated classes."""
    r = run_pipeline(case)
    if "err" in r:
        return True
    s = ctx.driver(DRIVER, [spec_req(case, r)])[0]
    if not s.get("holds", False):
        return True
    ok, _ = compile_cases([(case, r, r["fallbacks"])])[0]
    return not ok


def known_stream(ctx):
    for e in ctx.known_entries("known"):
        ctx.count("known-findings-replayed")
        if replay_known(ctx, e):
            ctx.violation(key=e["key"], what=e["what"], case=e["input"], observed=None, how=HOW_PIPE)
    for e in ctx.known_entries("fixed"):
        ctx.count("fixed-findings-replayed")
        if replay_known(ctx, e):
            ctx.violation(key="regressed:" + e["key"], what="regression of a repaired defect: " + e["what"], case=e["input"], observed=None, how=HOW_PIPE)


# ----------------------------------------------------------------------------------------------
# run / search / replay
# ----------------------------------------------------------------------------------------------
def run(ctx):
    from vlib import corpus_cases

    known_stream(ctx)
    corpus = [c for c in corpus_cases(ID)]
    pipe_corpus = [c for c in corpus if c.get("kind") == "pipeline"]
    if pipe_corpus:
        judge_pipeline(ctx, "corpus", [mk_case(c) for c in pipe_corpus], compile_all=True)
    thorough = ctx.tier == "thorough"
    # worlds with several enum declarations, through whole queries first (a failing world comes with its query)
    judge_pipeline(ctx, "enum-worlds", list(enum_pipeline_worlds(ctx.tier)), compile_all=thorough, compile_sample=20)
    judge_ext_units(ctx)
    judge_units(ctx)
    judge_pipeline(ctx, "tails", list(tail_worlds(ctx.tier)), compile_all=thorough, compile_sample=25)
    ex = list(exhaustive_worlds(ctx.tier)) + list(element_pointer_worlds(ctx.tier))
    judge_pipeline(ctx, "exhaustive", ex, compile_all=thorough, compile_sample=60)
    n = 350 if not thorough else 6000
    rnd = [random_case(ctx.rng) for _ in range(n)]
    for lo in range(0, len(rnd), 1000):
        judge_pipeline(ctx, "random", rnd[lo:lo + 1000], compile_all=thorough, compile_sample=140)
    seqs = list(exhaustive_sequences(ctx.tier))
    judge_sequences(ctx, "exhaustive", seqs)
    judge_sequences(ctx, "random", [random_sequence(ctx.rng) for _ in range(40 if not thorough else 800)])
    ctx.extra_cov["exhaustive"] = False
    ctx.extra_cov["exhaustive_part"] = (
        "sequences of 2-3 translations in one process over the minimal world: 6 patterns of (U)ndeclared-use / (D)eclared-only / re(F)used-after-assuming queries x every "
        "assignment of the two entry points x new / shared executor; "
        "type strings over 3 (quick) / 6 (thorough) base names x const x 0..3 stars x all blank patterns from a 3/4-letter blank alphabet; member access d,n in 0..3; "
        "single-signature worlds: value forms (object pointer depth 0..3 x deref_count absent,0..3; arithmetic x tree_type) and collection forms (element pointer depth 0..2 x "
        "default/custom collection type x collection pointer depth 0..3 x deref_count) each used by an indexed and (depth <= 1) an iterated column"
    )
    ctx.extra_cov["compiled_with_g++"] = ctx.dist.get("g++:ok", 0) + ctx.dist.get("g++:rejected", 0)
    ctx.extra_cov["defect_exclusions"] = [
        "a loop opened on a collection reached through >= 2 pointers (known finding; index on it is inside the main stream)",
        "a tree_type on a method returning a pointer, used as a column (known finding)",
    ]


def search(ctx, broken):
    """A broken obligation or correspondence: hunt for a concrete failing input with the Spec (and g++) as the only judges."""
    sub = _SearchCtx(ctx)
    judge_ext_units(sub)
    if sub.violations:  # a unit-level failing input is the smallest there is
        v = min(sub.violations, key=lambda v: len(json.dumps(v["case"], default=str)))
        return {"key": v["key"], "what": v["what"], "case": v["case"], "observed": v["observed"], "replay_how": v.get("replay_how", "")}
    cases = (list(exhaustive_worlds("thorough")) + list(element_pointer_worlds("thorough")) + list(enum_pipeline_worlds("thorough")) + list(tail_worlds("thorough"))
             + [random_case(ctx.rng) for _ in range(1500)])
    judge_pipeline(sub, "search", cases, compile_all=False, compile_sample=150)
    if not sub.violations:
        judge_sequences(sub, "search", list(exhaustive_sequences("thorough")) + [random_sequence(ctx.rng) for _ in range(300)])
    if not sub.violations:
        judge_units(sub)
    if not sub.violations:
        return None
    v = min(sub.violations, key=lambda v: len(json.dumps(v["case"], default=str)))
    v = shrink(ctx, v)
    return {"key": v["key"], "what": v["what"], "case": v["case"], "observed": v["observed"], "replay_how": v.get("replay_how", "")}


class _SearchCtx:
    """Collects violations of a sweep without touching the evidence counters of the run."""

    def __init__(self, ctx):
        self._ctx = ctx
        self.violations: List[Dict[str, Any]] = []
        self.broken: List[Any] = []
        self.rng = ctx.rng
        self.tier = "thorough"
        self.dist: Dict[str, int] = {}

    def count(self, *a, **k):
        pass

    def case(self, *a, **k):
        pass

    def check_time(self):
        self._ctx.check_time()

    def driver(self, *a, **k):
        return self._ctx.driver(*a, **k)

    def disagreement(self, *a, **k):
        pass

    def known_entries(self, status):
        return []

    def violation(self, key, what, case, observed=None, how=""):
        if key in self._ctx._known and self._ctx._known[key]["status"] == "known":
            return
        if len(self.violations) < 400:
            self.violations.append({"key": key, "what": what, "case": case, "observed": observed, "replay_how": how})


def _fails(ctx, case) -> Optional[Dict[str, Any]]:
    sub = _SearchCtx(ctx)
    judge_pipeline(sub, "shrink", [case], compile_all=True)
    return sub.violations[0] if sub.violations else None


def shrink(ctx, v):
    """Structural deletion on a pipeline case: drop columns, then unused signatures, then trailing steps."""
    c = v["case"]
    if c.get("kind") == "sequence":
        return shrink_sequence(ctx, v)
    if c.get("kind") != "pipeline":
        return v
    case = mk_case(c)
    changed = True
    while changed:
        changed = False
        cands = []
        if len(case["cols"]) > 1:
            for i in range(len(case["cols"])):
                cands.append({**case, "cols": case["cols"][:i] + case["cols"][i + 1:]})
        used = {st["m"] for col in case["cols"] for st in col["steps"] if st["k"] == "call"}
        slim = [s for s in case["sigs"] if s["m"] in used]
        if len(slim) < len(case["sigs"]):
            cands.append({**case, "sigs": slim})
        if case.get("enums") and not any(col.get("fin", {}).get("k") in ("eqConst", "cmpConst") for col in case["cols"]) and not any("::" in s.get("base", "") for s in case["sigs"]):
            cands.append({**case, "enums": []})
        for cand in cands[:12]:
            f = _fails(ctx, cand)
            if f is not None:
                case, v, changed = cand, f, True
                break
    return v


def _seq_fails(ctx, seq) -> Optional[Dict[str, Any]]:
    sub = _SearchCtx(ctx)
    judge_sequences(sub, "shrink", [seq])
    return sub.violations[0] if sub.violations else None


def shrink_sequence(ctx, v):
    """Drop whole translations, then columns, then unused declarations, while some translation still fails."""
    c = v["case"]
    seq = {**mk_case({**c, "cols": []}), "queries": [{"kind": q.get("kind"), "path": q["path"], "exe": q["exe"], "cols": q["cols"]} for q in c["queries"]]}
    seq.pop("cols", None)
    changed = True
    while changed:
        changed = False
        cands = []
        for i in range(len(seq["queries"])):
            if len(seq["queries"]) > 1:
                cands.append({**seq, "queries": seq["queries"][:i] + seq["queries"][i + 1:]})
        for i, q in enumerate(seq["queries"]):
            for j in range(len(q["cols"])):
                if len(q["cols"]) > 1:
                    cands.append({**seq, "queries": seq["queries"][:i] + [{**q, "cols": q["cols"][:j] + q["cols"][j + 1:]}] + seq["queries"][i + 1:]})
        used = {st["m"] for q in seq["queries"] for col in q["cols"] for st in col["steps"] if st["k"] == "call"}
        slim = [s for s in seq["sigs"] if s["m"] in used]
        if len(slim) < len(seq["sigs"]):
            cands.append({**seq, "sigs": slim})
        for cand in cands[:16]:
            f = _seq_fails(ctx, cand)
            if f is not None:
                seq, v, changed = cand, f, True
                break
    return v


def replay_sequence(ctx, c) -> int:
    seq = {**mk_case({**c, "cols": []}), "queries": c["queries"]}
    seq.pop("cols", None)
    for md in case_mds(seq):
        print("metadata (in every query):", md)
    rs = run_sequence(seq)
    rc = 0
    for i, (q, r) in enumerate(zip(seq["queries"], rs)):
        case = seq_case(seq, i)
        print(f"--- translation #{i} [{q.get('path', 'write')}, {q.get('exe', 'new')} executor]: {query_src(case)}")
        print("    warnings logged during this translation:", r["fallbacks"])
        m = ctx.driver(DRIVER, model_reqs(case))[0]
        if "err" in r:
            must = all(mc.get("must_accept", False) for mc in m.get("cols", []))
            print("    raised:", r["err"], r.get("msg", "")[:120], "| the property obliges the translator to accept it:", must)
            rc = rc or (1 if must else 0)
            continue
        for ln in r["query"]:
            print("    " + ln)
        print("    class variables:", r["class_decl"])
        s = ctx.driver(DRIVER, [spec_req(case, r)])[0]
        print("    spec (typing judgement, given THIS translation's warnings):", s)
        if not s.get("holds") or any(w[2] != "double" for w in r["fallbacks"]):
            rc = 1
    return rc


def replay(ctx, rep) -> int:
    c = rep["case"]
    if c.get("kind") == "sequence":
        return replay_sequence(ctx, c)
    if c.get("kind") == "element_pointer":
        c = {**c, "kind": "pipeline", "element_pointer": True}
    if c.get("kind") == "unit":
        req = {k: v for k, v in c.items() if k != "kind"}
        op = req["op"]
        im = impl_unit(req) if op != "decor" else impl_unit({"op": "parse", "s": req["s"]})
        print("implementation:", json.dumps(im, ensure_ascii=False))
        if op == "decor":
            a = ctx.driver(DRIVER, [{**req, "obs": im}])[0]
            print("spec:", a)
            return 0 if a.get("holds") else 1
        if op == "access":
            a = ctx.driver(DRIVER, [{"op": "spec_access", "x": req["x"], "d": req["d"], "n": req["n"], "obs": im.get("text", "")},
                                    {"op": "spec_access_shape", "x": req["x"], "n": req["d"] + req["n"], "obs": im.get("text", "")}])
            print("spec (closed form, counting form):", a)
            return 0 if a[0].get("holds") and a[1].get("holds") else 1
        if op == "mdlocal":
            req = {"op": "mdlocal", "mds": req["mds"]}
            rc = 0
            for md, it in zip(req["mds"], im.get("items", [])):
                sp = ctx.driver(DRIVER, [{"op": "spec_local", "alone": _strip_info(it["alone"]), "inlist": _strip_info(it["inlist"])}])[0]
                print(f"{md['type_string']}::{md['method_name']}: alone {json.dumps(_strip_info(it['alone']))} | in the list {json.dumps(_strip_info(it['inlist']))} | spec: {sp}")
                rc = rc or (0 if sp.get("holds") else 1)
            return 1 if "err" in im else rc
        if op == "enum_obj":
            a = ctx.driver(DRIVER, [req])[0]
            print("model / spec:", a)
            return 0 if im.get("cpp") == a.get("spec") else 1
        a = ctx.driver(DRIVER, [req])[0]
        print("model:", json.dumps(a, ensure_ascii=False))
        if op == "enum":
            w = {"op": "spec_enum_world", "enums": req["enums"], "path": req["path"]}
            if im.get("kind") == "value":
                w["obs"] = im.get("cpp", "")
            b = ctx.driver(DRIVER, [w])[0]
            print("spec (on the declarations alone):", b)
            if not b.get("render_ok", False) or (b.get("obliged") and not b.get("holds", False)):
                return 1
        return 0 if same_unit(op, a, im) else 1
    case = mk_case(c)
    print("query:", query_src(case))
    for e in case.get("enums", []):
        print("enum declaration:", e)
    for md in case_mds(case):
        print("metadata:", md)
    r = run_pipeline(case)
    if "err" in r:
        print("implementation raised:", r)
        m = ctx.driver(DRIVER, model_reqs(case))[0]
        must = all(mc.get("must_accept", False) for mc in m.get("cols", []))
        print("the property obliges the translator to accept this query:", must)
        return 1 if must else 0
    print("\n".join(r["query"]))
    print("class variables:", r["class_decl"])
    print("warnings:", r["fallbacks"])
    s = ctx.driver(DRIVER, [spec_req(case, r)])[0]
    print("spec (typing judgement on the emitted text):", s)
    ok, err = compile_cases([(case, r, r["fallbacks"])])[0]
    print("g++ -fsyntax-only against classes generated from the declarations:", "accepted" if ok else "REJECTED\n" + err[-1200:])
    return 0 if s.get("holds") and ok else 1
