"""C08 — translation is invariant under wire format, bound names, metadata position and chaining.

Lean: lean/FaxVerif/C08/{Model,Spec,Proofs,Theorems,Driver}.lean
Tie K (every run, generated inputs):
  * func_adl `argument_stack` (the translator's frame stack)  vs  `Stack.lookup`
  * func_adl `extract_metadata`                               vs  `strip`
  * func_adl `simplify_chained_calls`                         vs  `simp`
  * qastle printer / parser                                   vs  `wprint` / `wparse`  (n-ary and/or, chained comparisons: `wprint2`)
  * `process_metadata` under permutation                      vs  `procMd`
  * `generate_script_block`                                   vs  `emitScripts`
Spec on the implementation (reference free): the REAL pipeline (`apply_ast_transformations` + `write_cpp_files`) is
run on a generated query and on its mechanically produced variants; `SameOutcome` (Lean) judges the two packages.
"""
from __future__ import annotations

import hashlib
import json
from typing import Any, Dict, List, Optional, Tuple

ID = "C08"
LEAN_MODULES = ["FaxVerif.C08.Theorems", "FaxVerif.C08.MdTheorems", "FaxVerif.C08.ExtTheorems", "FaxVerif.C08.WireNTheorems", "FaxVerif.C08.ChainTheorems"]
LEAN_SOURCES = ["FaxVerif/C08"]
DRIVER = "FaxVerif/C08/Driver.lean"
THEOREMS = [
    # (b) bound names
    "FaxVerif.C08.alpha",
    "FaxVerif.C08.alpha_open",
    "FaxVerif.C08.lookup_innermost_first",
    "FaxVerif.C08.lookup_factors",
    "FaxVerif.C08.alpha_translate",
    "FaxVerif.C08.alpha_translate_open",
    "FaxVerif.C08.bound_before_global",
    "FaxVerif.C08.globals_unread",
    "FaxVerif.C08.alpha_global",
    "FaxVerif.C08.simplify_alpha_partial",
    "FaxVerif.C08.where_shadow_counterexample",
    "FaxVerif.C08.count_acc_counterexample",
    "FaxVerif.C08.argname_counterexample",
    "FaxVerif.C08.push_capture_counterexample",
    # (d) chaining
    "FaxVerif.C08.fusion_select_partial",
    "FaxVerif.C08.fusion_where_partial",
    "FaxVerif.C08.fusion_where_assoc_counterexample",
    # (c) metadata position
    "FaxVerif.C08.md_outermost_first",
    "FaxVerif.C08.md_stripped",
    "FaxVerif.C08.md_position",
    "FaxVerif.C08.md_inserted",
    "FaxVerif.C08.md_perm",
    "FaxVerif.C08.md_many",
    "FaxVerif.C08.proc_perm_partial",
    "FaxVerif.C08.proc_perm_counterexample",
    # (c) continued: process_metadata as one fold per registry; what the order can and cannot change
    "FaxVerif.C08.procMd_factors",
    "FaxVerif.C08.md_interleave",
    "FaxVerif.C08.method_type_ignores_enums",
    "FaxVerif.C08.types_last_wins",
    "FaxVerif.C08.enums_first_wins",
    "FaxVerif.C08.injects_in_order",
    "FaxVerif.C08.mdSame_of_commuting",
    "FaxVerif.C08.scripts_chain_any_order",
    "FaxVerif.C08.scripts_chain_any_length",
    "FaxVerif.C08.scripts_independent_in_list_order",
    "FaxVerif.C08.scripts_order_counterexample",
    "FaxVerif.C08.md_bundle_position",
    "FaxVerif.C08.md_bundle_same_order",
    # (a) continued: n-ary and/or, chained comparisons
    "FaxVerif.C08.wire_roundtrip_nary",
    "FaxVerif.C08.wire_roundtrip_nary_open",
    "FaxVerif.C08.wirePre_id",
    "FaxVerif.C08.nary_reassociated_counterexample",
    # (d) continued: the place func_adl's simplifier leaves to the translator
    "FaxVerif.C08.selectmany_second_lambda_unvisited",
    "FaxVerif.C08.chain_left_to_translator",
    # (a) wire format
    "FaxVerif.C08.wire_partial",
    "FaxVerif.C08.wire_roundtrip",
    "FaxVerif.C08.wire_roundtrip_open",
    # the Spec's conclusion is an equivalence
    "FaxVerif.C08.sameOutcome_refl",
    "FaxVerif.C08.sameOutcome_symm",
    "FaxVerif.C08.sameOutcome_trans",
]
RULE = (
    "type-directed random queries over a synthetic data model that each query declares for itself through its own MetaData calls "
    "(collections CollA/CollB, typed methods i/f/b/o/os/vs, a plug-in function and a plug-in method; optionally inject_code blocks, job "
    "scripts, an equal duplicate, a conflicting re-declaration; in 60% of the queries one or two enums in a top-level and a nested "
    "namespace, used as `j.i() == mdlns.Color.Red` filters/tests or declared without being used): event- and collection-level Select/Where/SelectMany nested <=3, "
    "Count/Sum/First, tuples/lists/dicts, arithmetic, comparisons, and/or/not, if-else, subscripts, math and plug-in calls, function- and "
    "method-style operators; depth 1-3; one backend per query in rotation (quick: 42 queries) or all three backends per query (thorough: "
    "160 queries). Variants per query: MetaData at the top / spread over chain positions and sub-streams inside lambda bodies with the "
    "extraction order kept / free order when Lean's `commutingAll` holds; two alpha-renamings from a small pool that deliberately re-uses "
    "the names of enclosing binders (and acc, v) + the Barendregt renaming + one or two renamings whose pool are the spellings that mean "
    "something to the pipeline as FREE names (the namespaces this query declares, weighted highest; enum/plug-in/collection/method "
    "names; operators; math functions; C++ and qastle words; with probability 0.3 a spelling used in the lambda's own body or a word of "
    "the declaration of a plug-in/enum used there) wherever the body does not mention the free name; one Select.Select or Where.Where pair fused as composition of "
    "the two lambdas and, when nothing is duplicated, by substitution; one step unfused; call style flipped; all of these combined; qastle "
    "text of the base and of the combined variant. Every pair is first judged by Lean to be in the relation the property quantifies over "
    "and outside the defect exclusions; then both are translated by the real pipeline and `SameOutcome` is evaluated. Plus: 300/3000 "
    "random operation sequences on argument_stack, 40/400 permuted metadata lists through process_metadata (half of them with an enum and "
    "the type information of methods returning it), the listed findings and the corpus. Directed families (tools/c08_lib/directed.py), run "
    "first, quick: one backend per case in rotation, thorough: all three: `md-dependent` — 16 bundles of INTERDEPENDENT metadata items (enum "
    "+ method returning it with/without tree_type, two enums, enum used in a cut, enum defined twice, C++ functions + calls, collections + "
    "methods of their elements, job scripts in a dependency chain / with a duplicate / independent / with a missing dependency, injected "
    "blocks with a duplicate / a conflict, a re-declared method, everything at once), each in all re-orderings (<= 4 items) or identity, "
    "reversal, every adjacent transposition and random ones, all at the dataset / all at the root / spread over chain positions and "
    "sub-streams in lambda bodies; a pair is compared when the extraction order is kept or Lean's `mdSameB` (model of process_metadata + "
    "generate_script_block) cannot tell the two orders apart; `alpha-echo` — the same predicate / value text (plug-in method, plug-in "
    "function, typed method, subscript, math call, enum constant, if-else) in nested scopes (5 nestings), the inner parameter spelled like "
    "the outer one / like the event parameter / differently; `alpha-cross` — five shapes of four or five nested lambdas whose OUTER "
    "parameters are used again behind the inner lambdas, in every pattern of name re-use that is an alpha-variant (so both outer names "
    "re-bound at different inner levels: e/j/e/j); `fuse-left` — six Select.Select / Where.Where chains in the lambda of the "
    "second of two chained SelectMany calls (top level, followed by a Select, nested) and in an ordinary lambda (control), fused as "
    "composition and by substitution. The random generator also repeats earlier predicates in inner lambdas, builds predicates from the "
    "plug-ins, uses an enum-typed method (column, cut) and writes SelectMany over objects at top level. A comparison is non-trivial when the variant differs from the base and both translations succeed; distinct = distinct "
    "(backend, kind, base, variant)."
)
TRUSTED_BASE = [
    "hand models of func_adl's argument_stack, extract_metadata, change_extension_functions_to_calls + aggregate_node_transformer, simplify_chained_calls, of qastle's printer/parser at token level, of the order-relevant part of process_metadata and of generate_script_block (Model.lean, MdModel.lean, Spec.lean), each tied to the real function by differential execution on this run's inputs",
    "the abstract translator `eval` (any algebra of handlers that receive representations and state but never a bound name): that the handlers of the real 1500-line visitor are of this kind is not proved; the conclusion is checked directly on the real pipeline for every generated pair, and the one place where it is false (ast.unparse of the query inside the First() diagnostic) is a listed finding",
    "the translator is a function of the simplified AST *as a graph* (func_adl substitutes shared objects, the translator caches per object): Lean models trees; fusing variants are therefore only compared where the fusing site's stream does not simplify to a Select/SelectMany/Where and the fused lambdas mention no outer parameter (`fuseSiteOkB`), the other cases are listed findings",
    "harness tools/props/c08.py + tools/c08_lib (generators, variant producers, lexer that marks generated names in declaring positions, replay)",
    "func_adl 3.5 and qastle 0.19 as installed in /venv (third party)",
]
ASSUMPTIONS = [
    "queries are Python expression ASTs without keywords/starred arguments and with positional lambda parameters only (what func_adl and qastle produce)",
    "generated names are identifier tokens <letters/underscores><digits> that occur in a declaring position (block/class declaration `T name;` / `T name (init);`, loop variable, lambda parameter or arg_N inside the First() diagnostic); everything else is compared literally",
    "lambda parameters are not called as functions (a call of a bound name is refused by the model; the real visitor dispatches on its spelling)",
]
LEVEL_TEXT = (
    "Machine-checked proofs (Lean 4, no sorry, axioms propext/Classical.choice/Quot.sound only) about executable models of every stage of "
    "the pipeline that looks at names, metadata or chaining, for all queries (any size, nesting, shadowing): (b) alpha-equivalence of named "
    "queries = equality of de Bruijn forms; the translator's frame stack answers every lookup like the de Bruijn environment, so any "
    "translator whose handlers never see a bound name gives identical result, state and errors on alpha-equivalent queries; a bound "
    "name never reaches the table of global names (declared namespaces), and a query that reads none of a set of global names is "
    "translated identically whatever the table says about them, so parameters may be spelled like declared namespaces; func_adl's "
    "simplifier respects alpha exactly on the capture-free queries (decidable), with four proved counterexamples outside; (c) attaching a "
    "MetaData call at any valid position leaves the extracted query unchanged and inserts its dictionary into the list, any number of "
    "placements give a permutation, and process_metadata's registries do not depend on the order of non-conflicting items; process_metadata "
    "is exactly five independent folds, one per registry (no registry reads another: a method's recorded type does not depend on whether "
    "the enum it names is defined yet), so every interleaving of the per-registry sequences gives the same state or the same refusal, and "
    "inside one registry the order shows exactly as: last method-type declaration wins, first enum definition wins, injected blocks in "
    "list order, job scripts through generate_script_block (a dependent pair comes out the same in both orders, an independent pair in "
    "list order); (d) separately "
    "written and fused Select.Select / Where.Where chains have alpha-equal normal forms for scalar lambda bodies over a stream that is not "
    "itself a Select/Where (counterexample proved otherwise); the lambda of the second of two chained SelectMany calls is returned by the "
    "simplifier exactly as written (so chains inside it are composed by the translator: compared by the harness through the completed "
    "normal form); (a) qastle's text format at token level parses back what it prints up to "
    "tuple->list, and a translator that does not tell tuple from list is unaffected; for n-ary and/or and chained comparisons the printer is "
    "`wprint` after the rewriting `wirePre` (fold to the left / one comparison per operator joined by `and`), the round trip gives exactly "
    "`wireNorm (wirePre q)`, and `wirePre` is the identity on queries the format carries as written; any number of MetaData calls attached "
    "at any valid positions in two ways give the same extracted query and, when the extraction orders agree registry by registry, the same "
    "processed state (`md_bundle_position`). Each model is run against the real function on every "
    "generated input of every run, and the Spec (same package up to first-occurrence renumbering of generated names) is evaluated on the "
    "real pipeline's output for every generated query and variant on the three backends."
)
LEVEL_NOTE = (
    "Theorem: the statements above about the models. Sampled, not proved: that the models agree with func_adl/qastle/process_metadata, and "
    "that the real visitor's handlers use names only through the frame stack — the pipeline stream checks that conclusion directly. "
    "Proof frontier (sampled only): fusion with nested sequence operators or tuple projection inside the lambda bodies; alpha-invariance of "
    "the simplifier is proved relative to the decidable `captureFree0` rather than from syntactic conditions. Defect exclusions, each with a "
    "concrete listed finding (14) and, where the model can express it, a Lean counterexample: First() diagnostic embeds parameter names; "
    "func_adl's Where-fusion / direct lambda calls capture shadowing parameters (also `acc`/`v` around Count/Sum, and `arg_N`); a "
    "Select/Where pushed into a SelectMany lambda is captured by its parameter; in-place rewriting of shared AST objects produces C++ that "
    "does not compile; re-association / duplicated selections when fusing over Select/Where; qastle re-associates n-ary and/or, drops unary "
    "plus on constants and accepts chained comparisons the AST path refuses; two chained Wheres in a lambda the simplifier does not visit are "
    "translated to nested ifs, the fused one to a single short-circuit test. For metadata orders the criterion `mdSameB` is evaluation of "
    "the model on both orders (it contains the proved `commutingAll` criterion: `mdSame_of_commuting`); a dependency chain of any length "
    "listed in dependency order is proved to be emitted in that order (`scripts_chain_any_length`); 'the same for EVERY order of the "
    "MetaData calls' is proved for two blocks with arbitrary names and texts and evaluated for all 6 / 24 orders of a three / four block "
    "chain — the general permutation statement is not proved here (C15 proves that an accepted output is a topological order)."
)
TECHNIQUE = "Lean 4 theorems over executable models + correspondence (differential execution against func_adl, qastle, process_metadata) + reference-free comparison of variants on the real pipeline (Spec evaluated by the Lean driver)"
DESIGN_REF = "DESIGN.md §4 C08"

FUEL = 4000


# ---------------------------------------------------------------- lazily imported helpers
def _lib():
    from c08_lib import gen, pipeline, terms, variants

    return terms, gen, variants, pipeline


def _directed():
    from c08_lib import directed

    return directed


# ---------------------------------------------------------------- real functions used by the tie
def real_strip(t) -> Dict[str, Any]:
    T, _, _, _ = _lib()
    from func_adl.ast import extract_metadata

    try:
        a, mds = extract_metadata(T.to_ast(t))
        return {"q": T.to_json(T.from_ast(a)), "mds": [T.to_json(_lit_term(m)) for m in mds]}
    except T.Unrepresentable as e:
        return {"skip": str(e)}
    except Exception as e:
        return {"err": type(e).__name__}


def _lit_term(v):
    T, gen, _, _ = _lib()
    return gen.md_term(v)


def pre_simplify(t):
    """The steps of apply_ast_transformations in front of simplify_chained_calls, on a metadata-free term."""
    T, _, _, _ = _lib()
    from func_adl.ast.aggregate_shortcuts import aggregate_node_transformer
    from func_adl.ast.func_adl_ast_utils import change_extension_functions_to_calls

    a = change_extension_functions_to_calls(T.to_ast(t))
    a = aggregate_node_transformer().visit(a)
    return T.from_ast(a)


def real_simp(t) -> Dict[str, Any]:
    T, _, _, _ = _lib()
    import func_adl.ast.function_simplifier as fs

    fs.argument_var_counter = 0
    try:
        a = fs.simplify_chained_calls().visit(T.to_ast(t))
        return {"q": T.from_ast(a), "n": fs.argument_var_counter}
    except T.Unrepresentable as e:
        return {"skip": str(e)}
    except RecursionError:
        return {"skip": "recursion"}
    except Exception as e:
        return {"err": type(e).__name__}


def real_style(t):
    T, _, _, _ = _lib()
    from func_adl.ast.func_adl_ast_utils import change_extension_functions_to_calls

    return T.from_ast(change_extension_functions_to_calls(T.to_ast(t)))


QTOK = None


def qastle_tokens(text: str) -> List[str]:
    global QTOK
    if QTOK is None:
        import re

        QTOK = re.compile(r"\(|\)|'(?:[^'\\]|\\.)*'|\"(?:[^\"\\]|\\.)*\"|[^\s()]+")
    return QTOK.findall(text)


def run_stack(ops: List[List[str]]) -> List[Optional[str]]:
    from func_adl.ast.call_stack import argument_stack

    st = argument_stack()
    out: List[Optional[str]] = []
    for op in ops:
        if op[0] == "push":
            st.push_stack_frame()
        elif op[0] == "pop":
            st.pop_stack_frame()
        elif op[0] == "def":
            st.define_name(op[1], op[2])  # type: ignore
        else:
            out.append(st.lookup_name(op[1]))  # type: ignore
    return out


def gen_stack_ops(rng) -> List[List[str]]:
    names = ["x", "y", "e", "j"][: rng.randint(1, 4)]
    ops: List[List[str]] = []
    depth = 0
    k = 0
    for _ in range(rng.randint(1, 24)):
        c = rng.random()
        if c < 0.2:
            ops.append(["push"])
            depth += 1
        elif c < 0.32 and depth > 0:
            ops.append(["pop"])
            depth -= 1
        elif c < 0.62:
            k += 1
            ops.append(["def", rng.choice(names), f"v{k}"])
        else:
            ops.append(["get", rng.choice(names + ["free"])])
    ops += [["get", n] for n in names]
    return ops


# ---------------------------------------------------------------- metadata items
def md_item(d: Dict[str, Any]) -> List[str]:
    """Abstraction of one metadata dictionary to (table, key, content) — Lean `MdItem`."""
    t = d.get("metadata_type")

    def marked(v):  # a tuple and a list are different contents (dataclass equality in ok_to_add_code_block tells them apart)
        if isinstance(v, tuple):
            return {"<tuple>": [marked(x) for x in v]}
        if isinstance(v, list):
            return [marked(x) for x in v]
        return v

    content = json.dumps({k: marked(v) for k, v in d.items()}, sort_keys=True)
    if t == "add_method_type_info":
        return ["methodType", f"{d.get('type_string')}::{d.get('method_name')}", content]
    if t == "add_cpp_function" or (isinstance(t, str) and t.endswith("_event_collection_info")):
        return ["fn", str(d.get("name")), content]
    if t == "define_enum":
        return ["enum", f"{d.get('namespace')}.{d.get('name')}", content]
    if t == "inject_code":
        return ["inject", str(d.get("name")), content]
    if t == "add_job_script":
        return ["script", str(d.get("name")), content]
    return ["bad", "ValueError", ""]


def stable(o: Any) -> Any:
    """A repr without object addresses: dataclasses field by field, type objects by class, text and pointer depth."""
    import dataclasses

    if dataclasses.is_dataclass(o) and not isinstance(o, type):
        return {"<" + type(o).__name__ + ">": {f.name: stable(getattr(o, f.name)) for f in dataclasses.fields(o)}}
    if isinstance(o, (list, tuple)):
        return [stable(x) for x in o]
    if isinstance(o, dict):
        return {str(k): stable(v) for k, v in o.items()}
    if isinstance(o, (str, int, float, bool)) or o is None:
        return o
    d = {"class": type(o).__name__, "str": str(o)}
    for a in ("p_depth", "is_const", "tree_type"):
        if hasattr(o, a):
            d[a] = getattr(o, a)
    if hasattr(o, "element_type"):
        d["element"] = stable(o.element_type)
    return d


def srepr(o: Any) -> str:
    return json.dumps(stable(o), sort_keys=True, default=str)


def real_procmd(mds: List[Dict[str, Any]], keys: List[str]) -> Dict[str, Any]:
    """process_metadata on a clean registry; observation = which dictionary is in effect per key, ordered blocks."""
    import func_adl_xAOD.common.cpp_types as ctyp
    from func_adl_xAOD.common.cpp_ast import CPPCodeSpecification
    from func_adl_xAOD.common.event_collections import EventCollectionSpecification
    from func_adl_xAOD.common.meta_data import InjectCodeBlock, JobScriptSpecification, process_metadata

    def solo(d):
        ctyp.g_method_type_dict = {}
        ctyp.g_toplevel_ns.clear()
        r = process_metadata([d])
        return _observe_one(d, r, ctyp)

    def _observe_one(d, r, ctyp):
        it = md_item(d)
        if it[0] == "methodType":
            i = ctyp.method_type_info(d["type_string"], d["method_name"])
            return srepr([i.r_type, i.deref_depth])
        return srepr(r[0]) if r else ""

    try:
        solos = {json.dumps(d, sort_keys=True): solo(d) for d in mds}
    except Exception:
        solos = {}
    ctyp.g_method_type_dict = {}
    ctyp.g_toplevel_ns.clear()
    try:
        r = process_metadata(list(mds))
    except Exception as e:
        ctyp.g_method_type_dict = {}
        ctyp.g_toplevel_ns.clear()
        return {"err": type(e).__name__}
    types = []
    for k in keys:
        ty, _, m = k.rpartition("::")
        i = ctyp.method_type_info(ty, m) if ty else None
        types.append(None if i is None else srepr([i.r_type, i.deref_depth]))
    fns: Dict[str, str] = {}
    for s in r:
        if isinstance(s, (CPPCodeSpecification, EventCollectionSpecification)):
            fns[s.name] = srepr(s)
    ctyp.g_method_type_dict = {}
    ctyp.g_toplevel_ns.clear()
    return {
        "types": types,
        "fns": [fns.get(k) for k in keys],
        "injects": [[b.name, srepr(b)] for b in r if isinstance(b, InjectCodeBlock)],
        "scripts": [[b.name, srepr(b)] for b in r if isinstance(b, JobScriptSpecification)],
        "solos": solos,
    }


# ---------------------------------------------------------------- cases
class Case:
    """One generated query on one backend with its variants."""

    def __init__(self, backend: str, q, mds: List[Dict[str, Any]], feats: Dict[str, int]):
        self.backend = backend
        self.q = q  # metadata-free
        self.mds = mds
        self.feats = feats
        self.variants: List[Dict[str, Any]] = []


def build_case(rng, backend: str, depth: int) -> Case:
    T, gen, Vr, P = _lib()
    q, mds, feats = gen.make_query(rng, backend, depth)
    c = Case(backend, q, mds, feats)
    mdt = [gen.md_term(m) for m in mds]
    base = Vr.place(rng, q, mdt, "bottom")
    c.base = base
    c.mdt = mdt
    V = c.variants

    def add(kind: str, term, rel: Dict[str, Any], strict: bool = True, **kw):
        V.append({"kind": kind, "term": term, "rel": rel, "strict": strict, **kw})

    # (c) metadata placement
    for mode in ("top", "spread"):
        v = Vr.place(rng, q, mdt, mode)
        add("md-" + mode, v, {"kind": "md", "q": base, "q2": v, "need": "sameOrder"})
    v = Vr.place(rng, q, mdt, "free")
    add("md-free", v, {"kind": "md", "q": base, "q2": v, "need": "mdsame"}, md_order=order_of(mdt, Vr.strip_py(v)[1]))
    # (b) alpha
    for k in range(2):
        r = Vr.rename(rng, q, shadow_p=0.7 if k == 0 else 0.3)
        add("alpha", Vr.place(rng, r, mdt, "bottom"), {"kind": "alpha", "q": q, "q2": r}, strict=False)
    r = Vr.uniquify(q)
    add("alpha-unique", Vr.place(rng, r, mdt, "bottom"), {"kind": "alpha", "q": q, "q2": r}, strict=False)
    # (b) parameters spelled like names that mean something to the pipeline when FREE: the namespaces this query
    # declares (define_enum), enum/plug-in/collection/method names, operators, math functions, C++ and qastle words
    G = gen.global_names(mds)
    groups = Vr.global_groups(G)
    c.globals = G
    for k in range(2 if G["namespace"] else 1):
        r = Vr.rename(rng, q, shadow_p=0.3, groups=groups, related=gen.related_words(mds))
        for grp in spelled_like(T, r, G):
            feats["parameter-spelled-like:" + grp] = feats.get("parameter-spelled-like:" + grp, 0) + 1
        add("alpha-global", Vr.place(rng, r, mdt, "bottom"), {"kind": "alpha", "q": q, "q2": r, "globals": G["namespace"]}, strict=False)
    # (d) fusing / unfusing; the fused composition is checked by Lean on the call-style form
    qc = real_style(q)
    fs = Vr.fusable(qc)
    if fs:
        p, name = rng.choice(fs)
        fa = Vr.fuse_at(qc, p, "A", "z_f")
        add("fuseA-" + name, Vr.place(rng, fa, mdt, "bottom"), {"kind": "fuse", "q": qc, "q2": fa, "path": list(p), "z": "z_f"}, strict=False)
        fb = Vr.fuse_at(qc, p, "B", "z_f")
        if fb is not None:
            add("fuseB-" + name, Vr.place(rng, fb, mdt, "bottom"), {"kind": "nf", "q": qc, "q2": fb, "path": list(p), "sep": qc}, strict=False)
    us = Vr.unfusable(qc)
    if us:
        p, name = rng.choice(us)
        u = Vr.unfuse_at(qc, p, "y_u")
        add("unfuse-" + name, Vr.place(rng, u, mdt, "bottom"), {"kind": "nf", "q": qc, "q2": u, "path": list(p), "sep": u}, strict=False)
    # call style
    s = Vr.restyle(rng, q)
    add("style", Vr.place(rng, s, mdt, "bottom"), {"kind": "style", "q": q, "q2": s})
    # everything at once: renamed, restyled, metadata spread (order kept)
    # (operator names stay out of this pool: the restyling turns `x.Where(f)` into `Where(x, f)`, a free name that a
    # parameter spelled `Where` would capture — that would not be a renaming of the restyled query)
    groups_c = Vr.global_groups({k: v for k, v in G.items() if k != "operator"})
    allv = Vr.place(rng, Vr.restyle(rng, Vr.rename(rng, q, groups=groups_c if rng.random() < 0.5 else None)), mdt, "spread")
    add("combined", allv, {"kind": "combined", "q": base, "q2": allv, "need": "sameOrder"}, strict=False)
    # (a) wire
    try:
        txt = Vr.qastle_text(base)
        add("wire", None, {"kind": "wire", "q": base, "q2": Vr.qastle_roundtrip(base, txt)}, text=txt)
        txt2 = Vr.qastle_text(allv)
        add("wire+combined", None, {"kind": "wire", "q": allv, "q2": Vr.qastle_roundtrip(allv, txt2)}, strict=False, text=txt2)
    except Exception as e:  # qastle refuses the query: counted, nothing to compare
        c.qastle_refused = type(e).__name__
    return c


def order_of(mdt: List[Any], extracted: List[Any]) -> List[int]:
    """the extraction order of a variant as indices into the case's metadata list (equal items: first unused index)"""
    used: set = set()
    out: List[int] = []
    for t in extracted:
        i = next(k for k, m in enumerate(mdt) if m == t and k not in used)
        used.add(i)
        out.append(i)
    return out


def mdsame_request(c: "Case", order: List[int]) -> Dict[str, Any]:
    """Lean: can the model of process_metadata + generate_script_block tell the two orders apart?"""
    D = _directed()
    items = [md_item(m) for m in c.mds]
    mds2 = [c.mds[i] for i in order]
    return {
        "op": "mdsame",
        "items": items,
        "items2": [items[i] for i in order],
        "scripts": D.script_blocks(c.mds),
        "scripts2": D.script_blocks(mds2),
        "scriptsUsed": c.backend == "atlas",  # only the ATLAS job options render the script blocks
    }


def spelled_like(T, t, G: Dict[str, List[str]]) -> List[str]:
    """the groups of gen.global_names that some lambda parameter of `t` is spelled like (one entry per binder)"""
    out = []
    for s in T.subterms(t):
        if s[0] == "l":
            for p in s[1]:
                out += [g for g, names in G.items() if p in names]
    return out


def wire_metadata_case(backend: str, label: str, q, mds: List[Dict[str, Any]]) -> Case:
    """Python AST (tuples as the caller wrote them) against the qastle text (lists) of one small query."""
    T, gen, Vr, P = _lib()
    c = Case(backend, q, mds, {"wire-metadata:" + label.split(".")[0]: 1})
    c.mdt = [gen.md_term(m) for m in mds]
    c.base = Vr.attach(q, [(Vr.spine(q)[-1], m) for m in c.mdt])
    txt = Vr.qastle_text(c.base)
    c.variants.append({"kind": "wire-metadata", "term": None, "rel": {"kind": "wire", "q": c.base, "q2": Vr.qastle_roundtrip(c.base, txt)}, "strict": True, "text": txt, "label": label})
    return c


def case_key(backend: str, kind: str, base, variant) -> str:
    T, _, _, _ = _lib()
    vs = variant if isinstance(variant, str) else T.show(variant)
    return f"{kind}|{backend}|{T.show(base)}|{vs}"


class Pkgs:
    """Lexed packages handed to the driver file by file (most files are identical for all variants)."""

    def __init__(self):
        self.puts: List[Dict[str, Any]] = []
        self.seen: set = set()

    def outcome(self, r: Dict[str, Any]) -> Dict[str, Any]:
        _, _, _, P = _lib()
        if "err" in r:
            return {"err": r["err"]}
        files = r["ok"]
        gen_names = set(P.declared_names(files))
        ids = []
        for fn in sorted(files):
            toks = _lex_with(P, fn, files[fn], gen_names)
            h = hashlib.sha1(json.dumps(toks).encode()).hexdigest()[:16]
            if h not in self.seen:
                self.seen.add(h)
                self.puts.append({"op": "put", "id": h, "toks": toks})
            ids.append(h)
        return {"ok": ids}


def _lex_with(P, fn: str, text: str, gen_names) -> List[str]:
    out = ["<<" + fn + ">>"]
    for tok in P._TOK.findall(text):
        if tok.startswith(P.DIAG_PREFIX):
            out.append(P.DIAG_PREFIX)
            for t2 in P._TOK.findall(tok[len(P.DIAG_PREFIX) :]):
                out.append((P.DIAG_GEN if t2 in gen_names else P.DIAG) + t2)
        elif tok in gen_names:
            out.append(P.GEN + tok)
        else:
            out.append(tok)
    return out


def run_variant(P, v: Dict[str, Any], backend: str) -> Dict[str, Any]:
    if v.get("text") is not None:
        return P.run_qastle_text(v["text"], backend)
    return P.run_term(v["term"], backend)


def rel_request(T, rel: Dict[str, Any]) -> Dict[str, Any]:
    r = {"op": "variant", "kind": rel["kind"], "q": T.to_json(rel["q"]), "q2": T.to_json(rel["q2"])}
    if "path" in rel:
        r["path"] = rel["path"]
    if "z" in rel:
        r["z"] = rel["z"]
    if "sep" in rel:
        r["sep"] = T.to_json(rel["sep"])
    if "globals" in rel:
        r["globals"] = list(rel["globals"])
    return r


def decide_variant(v: Dict[str, Any], ans: Dict[str, Any], commuting: bool) -> Optional[str]:
    """None = in the main stream; otherwise the reason why the pair is outside what the theorems/property cover."""
    if "bad" in ans:
        return "driver"
    rel = v["rel"]
    if not ans.get("related", False):
        return "not-related"  # a bug of a variant producer: reported as an internal disagreement
    if ans.get("readsGlobal", False) != ans.get("readsGlobal2", False):
        return "not-related"  # a renaming that changes which global names the query reads is no renaming
    if rel.get("need") == "sameOrder" and not ans.get("sameOrder", False):
        return "not-related"
    if rel.get("need") == "commuting" and not (commuting or ans.get("sameOrder", False)):
        return "excluded:metadata-order"
    if rel.get("need") == "mdsame" and not (ans.get("sameOrder", False) or v.get("md_ans", {}).get("same", False)):
        # the model of process_metadata / generate_script_block tells the two orders apart (a later declaration of a
        # method's type wins, injected blocks and independent job scripts are emitted in list order)
        return "excluded:metadata-order"
    if not ans.get("captureFree", False):
        # func_adl's simplifier captures a name in one of the two queries (listed findings F2, F2b, F3, F10)
        why = "shadowed-redex-parameter" if ans.get("shadowRisk") else "arg_N-name" if ans.get("argNameRisk") else "other"
        return "excluded:capture(" + why + ")"
    if ans.get("aliasRisk"):
        return "excluded:shared-node-rewrite"
    if rel["kind"] in ("fuse", "nf"):
        if not ans.get("siteOk", False):
            return "excluded:fusion-site-over-select/where"
        if not ans.get("sameNF", False):
            # func_adl's single visit gives different normal forms.  Where the COMPLETED normal forms agree the only
            # difference is a chain func_adl leaves for the translator to compose (the lambda of the second of two chained
            # SelectMany calls is not visited): the property asks for the same package.  For Where.Where that is false of
            # the code as it stands (nested `if`s against one `&&`: listed finding), so only Select chains are compared.
            if ans.get("sameNF2", False) and v["kind"].endswith("-Select"):
                v["left_to_translator"] = True
                return None
            if ans.get("sameNF2", False):
                return "excluded:where-chain-left-to-translator"
            return "excluded:fusion-changes-normal-form"
    return None


def process_cases(ctx, cases: List[Case], stream: str, tie: bool = True) -> List[Dict[str, Any]]:
    """Runs the real pipeline on every case and variant, asks Lean for the verdicts. Returns the failing comparisons."""
    T, gen, Vr, P = _lib()
    # ---- phase 1: are the variants in the relation the property quantifies over? which are excluded?
    reqs: List[Dict[str, Any]] = []
    for c in cases:
        for v in c.variants:
            reqs.append(rel_request(T, v["rel"]))
        reqs.append({"op": "procmd", "items": [md_item(m) for m in c.mds], "keys": []})
    n_rel = len(reqs)
    with_order = [(c, v) for c in cases for v in c.variants if v.get("md_order") is not None]
    reqs += [mdsame_request(c, v["md_order"]) for c, v in with_order]
    TIMER.lap("generate queries and variants")
    ans = ctx.driver(DRIVER, reqs)
    TIMER.lap("lean: relations and exclusions")
    for (c, v), a in zip(with_order, ans[n_rel:]):
        v["md_ans"] = a
        if "bad" not in a:
            ctx.count(f"{getattr(c, 'stream', stream)}:metadata-order:" + ("same-order" if v["md_order"] == sorted(v["md_order"]) else "model-cannot-tell-apart" if a.get("same") else "model-tells-apart")
                      + (":kinds-interleaved-only" if a.get("sameByKind") and v["md_order"] != sorted(v["md_order"]) else ""))
    i = 0
    for c in cases:
        vs = c.variants
        a_md = ans[i + len(vs)]
        commuting = bool(a_md.get("commuting", False))
        c.commuting = commuting
        for v in vs:
            v["why_out"] = decide_variant(v, ans[i], commuting)
            v["rel_ans"] = ans[i]
            i += 1
        i += 1
    ctx.check_time()
    # ---- phase 2: the real pipeline, and the real functions for the tie
    pk = Pkgs()
    reqs = []
    plan: List[Tuple[str, Any]] = []
    for c in cases:
        r0 = P.run_term(c.base, c.backend)
        c.r0 = r0
        o0 = pk.outcome(r0)
        ctx.count("base:" + ("ok" if "ok" in r0 else "err:" + r0["err"]))
        for v in c.variants:
            if v["why_out"] is not None:
                continue
            r = run_variant(P, v, c.backend)
            v["r"] = r
            plan.append(("same", (c, v)))
            reqs.append({"op": "same", "a": o0, "b": pk.outcome(r)})
        if tie:
            # extract_metadata on a term with metadata spread everywhere
            for v in [w for w in c.variants[:4] if w["term"] is not None] or [{"term": c.base}]:
                rs = real_strip(v["term"])
                if "skip" in rs:
                    ctx.count("tie-skip:strip")
                    continue
                plan.append(("strip", (c, v, rs)))
                reqs.append({"op": "strip", "q": T.to_json(v["term"])})
            # simplify_chained_calls on base and on every variant (excluded ones too: the model must follow the code there as well)
            seen = set()
            for t in [c.base] + [v["rel"]["q2"] for v in c.variants if v["rel"]["kind"] in ("alpha", "fuse", "nf", "style", "combined")]:
                try:
                    pre = pre_simplify(Vr.strip_py(t)[0])
                except T.Unrepresentable:
                    continue
                if pre in seen:
                    continue
                seen.add(pre)
                plan.append(("pre", (c, t, pre)))
                reqs.append({"op": "pre", "q": T.to_json(t)})
                rs = real_simp(pre)
                if "skip" in rs:
                    ctx.count("tie-skip:simp")
                    continue
                plan.append(("simp", (c, pre, rs)))
                reqs.append({"op": "simp", "q": T.to_json(pre), "n": 0, "fuel": FUEL})
            # qastle printer and parser
            for v in c.variants:
                if v.get("text") is not None:
                    src = v["rel"]["q"]
                    plan.append(("wprint", (c, src, v["text"])))
                    reqs.append({"op": "wprint", "q": T.to_json(src)})
                    plan.append(("wparse", (c, v["text"], v["rel"]["q2"])))
                    reqs.append({"op": "wparse", "toks": qastle_tokens(v["text"])})
    ctx.check_time()
    TIMER.lap("real pipeline and real functions")
    ans = ctx.driver(DRIVER, pk.puts + reqs)[len(pk.puts) :]
    TIMER.lap("lean: spec on outputs and models")
    failures: List[Dict[str, Any]] = []
    alias = False
    for (what, payload), a in zip(plan, ans):
        if "bad" in a:
            continue
        if what == "pre":
            c, t, pre = payload
            ctx.count("tie:pre")
            alias = bool(a.get("aliasRisk"))
            if T.of_json(a["q"]) != pre:
                ctx.disagreement("change_extension_functions_to_calls+aggregate_node_transformer", {"term": T.show(t)}, T.show(T.of_json(a["q"])), T.show(pre))
        elif what == "same":
            c, v = payload
            strict = v["strict"]
            holds = a["strict"] if strict else a["diag"]
            both_ok = "ok" in c.r0 and "ok" in v["r"]
            differs = v.get("text") is not None or v["term"] != c.base
            key = case_key(c.backend, v["kind"], c.base, v.get("text") or v["term"])
            ctx.case(
                key,
                both_ok and differs,
                {
                    "backend": c.backend,
                    "kind": v["kind"],
                    "metadata_items": len(c.mds),
                    "base_without_metadata": T.show(c.q)[:500],
                    "variant": (v.get("text") or T.show(v["term"]))[-500:],
                    "same_package_up_to_numbering": holds,
                },
            )
            ctx.count(f"{getattr(c, 'stream', stream)}:{v['kind']}:" + ("ok" if both_ok else "both-refused" if holds else "one-refused"))
            if not strict and a["diag"] and not a["strict"]:
                ctx.count("diag-text-differs(known F1 class)")
            if v.get("left_to_translator"):
                ctx.count("fusion-left-to-the-translator:" + ("ok" if both_ok else "refused"))
            if v["kind"] == "alpha-global" and v["rel_ans"].get("binderLikeGlobal"):
                # a parameter spelled like a namespace this query declares: Lean says whether the query also reads that
                # namespace as a free name elsewhere (alpha_translate) or not at all (alpha_global)
                ctx.count("parameter-spelled-like-declared-namespace:" + ("namespace-also-read-free" if v["rel_ans"].get("readsGlobal") else "namespace-unread"))
            if not holds:
                ctx.count(f"{getattr(c, 'stream', stream)}:{v['kind']}:PACKAGES-DIFFER")
                failures.append({"case": c, "variant": v, "answer": a, "key": key})
        elif what == "strip":
            c, v, rs = payload
            ctx.count("tie:strip")
            m = {"q": a["q"], "mds": a["mds"]}
            if "err" in rs or m != {"q": rs["q"], "mds": rs["mds"]}:
                ctx.disagreement("extract_metadata", {"term": T.show(v["term"])}, m, rs)
        elif what == "simp":
            c, pre, rs = payload
            ctx.count("tie:simp")
            if alias and ("err" in rs or T.of_json(a["q"]) != rs["q"]):
                # func_adl rewrites shared AST objects in place here (listed finding); the model is purely functional
                ctx.count("tie:simp:shared-node-rewrite(excluded)")
            elif "err" in rs:
                if not a["bang"]:
                    ctx.disagreement("simplify_chained_calls", {"term": T.show(pre)}, T.show(T.of_json(a["q"])), rs)
                else:
                    ctx.count("tie:simp:both-raise")
            else:
                mq = T.of_json(a["q"])
                if mq == rs["q"] and a["n"] == rs["n"]:
                    ctx.count("tie:simp:identical")
                elif not a["bang"] and T.debruijn(mq) == T.debruijn(rs["q"]):
                    ctx.count("tie:simp:alpha-equal-only")
                    ctx.disagreement("simplify_chained_calls(names)", {"term": T.show(pre)}, T.show(mq), T.show(rs["q"]))
                else:
                    ctx.disagreement("simplify_chained_calls", {"term": T.show(pre)}, T.show(mq), T.show(rs["q"]))
        elif what == "wprint":
            c, src, text = payload
            ctx.count("tie:wprint")
            ctx.count("wprint:wireOK" if a.get("wireOK") else "wprint:outside-wireOK")
            if a.get("toks") != qastle_tokens(text):
                ctx.disagreement("qastle.python_ast_to_text_ast", {"term": T.show(src)}, a.get("toks", "none"), qastle_tokens(text))
        elif what == "wparse":
            c, text, rt = payload
            ctx.count("tie:wparse")
            if "q" not in a or T.of_json(a["q"]) != rt:
                ctx.disagreement("qastle.text_ast_to_python_ast", {"text": text}, T.show(T.of_json(a["q"])) if "q" in a else "none", T.show(rt))
    # bookkeeping of what stayed out and why
    for c in cases:
        for k, n in c.feats.items():
            ctx.count("feature:" + k, n)
        ctx.count("size:" + str(min(T.size(c.q) // 10 * 10, 90)))
        if getattr(c, "qastle_refused", None):
            ctx.count("qastle-refused:" + c.qastle_refused)
        for v in c.variants:
            if v["why_out"] == "not-related":
                ctx.disagreement("variant-producer:" + v["kind"], {"base": T.show(c.base), "variant": T.show(v["rel"]["q2"])}, v["rel_ans"], "the harness meant these to be related")
            elif v["why_out"] is not None:
                ctx.count(v["why_out"] + ":" + v["kind"].split("-")[0])
    return failures


def report_failures(ctx, failures: List[Dict[str, Any]]):
    T, _, _, _ = _lib()
    failures = sorted(failures, key=lambda f: T.size(f["case"].base))
    for i, f in enumerate(failures):
        c, v = f["case"], f["variant"]
        case = replay_case(c.backend, v["kind"], c.base, v)
        if i == 0 and not ctx.violations and f["key"] not in ctx._known:
            case = shrink(ctx, case)  # the one that goes into the replay file: without the metadata it does not need
        ctx.violation(
            key=f["key"],
            what=f"the package generated for the {v['kind']} variant differs from the one for the base query (beyond the numbering of generated names)",
            case=case,
            observed={"lean": f["answer"], "base": summary(c.r0), "variant": summary(v["r"])},
            how="./check C08 --replay <this file>",
        )


def summary(r: Dict[str, Any]) -> Any:
    if "err" in r:
        return {"err": r["err"], "msg": r.get("msg", "")}
    main = [f for f in r["ok"] if f in ("query.cxx", "Analyzer.cc")]
    return {"ok": {f: r["ok"][f][-3000:] for f in main}}


def replay_case(backend: str, kind: str, base, v: Dict[str, Any]) -> Dict[str, Any]:
    T, _, _, _ = _lib()
    d = {"backend": backend, "kind": kind, "strict": v["strict"], "base": T.to_json(base), "base_text": T.show(base)}
    if v.get("text") is not None:
        d["qastle"] = v["text"]
    else:
        d["variant"] = T.to_json(v["term"])
        d["variant_text"] = T.show(v["term"])
    return d


def run_pair(case: Dict[str, Any]) -> Tuple[Dict[str, Any], Dict[str, Any]]:
    T, _, _, P = _lib()
    base = T.of_json(case["base"])

    def reset():
        if case.get("reset_arg_counter"):  # func_adl's global counter of arg_N names: makes a listed collision reproducible
            import func_adl.ast.function_simplifier as fs

            fs.argument_var_counter = 0

    reset()
    r0 = P.run_term(base, case["backend"])
    reset()
    r1 = P.run_qastle_text(case["qastle"], case["backend"]) if "qastle" in case else P.run_term(T.of_json(case["variant"]), case["backend"])
    return r0, r1


def compare_pair(ctx, case: Dict[str, Any]) -> Dict[str, Any]:
    """Run base and variant of a stored case on the real pipeline and let Lean judge."""
    r0, r1 = run_pair(case)
    pk = Pkgs()
    req = {"op": "same", "a": pk.outcome(r0), "b": pk.outcome(r1)}
    a = ctx.driver(DRIVER, pk.puts + [req])[-1]
    holds = a.get("strict" if case.get("strict", True) else "diag", False)
    return {"holds": holds, "lean": a, "base": r0, "variant": r1}


# ---------------------------------------------------------------- streams
def stack_stream(ctx, n: int):
    seqs = [gen_stack_ops(ctx.rng) for _ in range(n)]
    ans = ctx.driver(DRIVER, [{"op": "stack", "ops": s} for s in seqs])
    for s, a in zip(seqs, ans):
        if "bad" in a:
            continue
        real = run_stack(s)
        ctx.count("tie:stack")
        ctx.case(["stack", s], len(s) > 4 and any(o[0] == "push" for o in s), None)
        if a["gets"] != real:
            ctx.disagreement("argument_stack", {"ops": s}, a["gets"], real)


def procmd_stream(ctx, n: int):
    """process_metadata under permutation of a commuting list: the model's state and the registries the code fills."""
    T, gen, _, _ = _lib()
    rng = ctx.rng
    reqs, meta = [], []
    for _ in range(n):
        b = rng.choice(["atlas", "cms_aod", "cms_miniaod"])
        mds = gen.data_model(b)[: rng.randint(1, 14)] + gen.extra_md(rng, b) + (gen.enum_typed_md(rng) if rng.random() < 0.5 else [])
        rng.shuffle(mds)
        perm = list(mds)
        rng.shuffle(perm)
        keys = sorted({md_item(m)[1] for m in mds})
        for l in (mds, perm):
            reqs.append({"op": "procmd", "items": [md_item(m) for m in l], "keys": keys})
        meta.append((mds, perm, keys))
    ans = ctx.driver(DRIVER, reqs)
    for i, (mds, perm, keys) in enumerate(meta):
        a1, a2 = ans[2 * i], ans[2 * i + 1]
        if "bad" in a1 or "bad" in a2:
            continue
        r1, r2 = real_procmd(mds, keys), real_procmd(perm, keys)
        ctx.count("tie:procmd")
        ctx.case(["procmd", [md_item(m)[:2] for m in mds], [md_item(m)[:2] for m in perm]], mds != perm, None)
        # model vs code: which dictionary is in effect under each key / which blocks in which order
        for a, r, l in ((a1, r1, mds), (a2, r2, perm)):
            if ("err" in a) != ("err" in r):
                ctx.disagreement("process_metadata", {"mds": l}, a, {k: r[k] for k in r if k != "solos"})
                continue
            if "err" in a:
                continue
            solos = r["solos"]
            by_content = {md_item(m)[2]: solos.get(json.dumps(m, sort_keys=True)) for m in l}
            m_types = [by_content.get(x) if x is not None else None for x in a["types"]]
            m_fns = [by_content.get(x) if x is not None else None for x in a["fns"]]
            m_inj = [[n, by_content.get(x)] for n, x in a["injects"]]
            m_scr = [[n, by_content.get(x)] for n, x in a["scripts"]]
            if (m_types, m_fns, m_inj, m_scr) != (r["types"], r["fns"], r["injects"], r["scripts"]):
                ctx.disagreement("process_metadata", {"mds": l}, [m_types, m_fns, m_inj, m_scr], [r["types"], r["fns"], r["injects"], r["scripts"]])
        # Spec on the implementation: a commuting list processed in another order fills the registries identically
        if a1.get("commuting") and {k: v for k, v in r1.items() if k != "solos"} != {k: v for k, v in r2.items() if k != "solos"}:
            ctx.violation(
                key="procmd|" + json.dumps([mds, perm], sort_keys=True),
                what="process_metadata gives different registries for two orders of metadata items that do not conflict",
                case={"kind": "procmd", "mds": mds, "perm": perm, "keys": keys},
                observed=[{k: v for k, v in r1.items() if k != "solos"}, {k: v for k, v in r2.items() if k != "solos"}],
            )


def scripts_stream(ctx, n: int):
    """generate_script_block against Lean `emitScripts` on random lists of job script blocks (duplicates, chains,
    missing dependencies, cycles), each also in a second order: model = code, and where the model gives the same lines for
    both orders the code must too."""
    from func_adl_xAOD.common.meta_data import JobScriptSpecification, generate_script_block

    rng = ctx.rng

    def real(bl):
        try:
            return {"ok": list(generate_script_block([JobScriptSpecification(name=b[0], script=list(b[1]), depends_on=list(b[2])) for b in bl]))}
        except Exception as e:
            return {"err": type(e).__name__}

    lists = []
    for _ in range(n):
        names = ["s1", "s2", "s3", "s4"][: rng.randint(1, 4)]
        bl = []
        for nm in names:
            earlier = [x for x in names if x < nm]
            deps = [d for d in earlier if rng.random() < 0.5]
            if rng.random() < 0.12:
                deps.append(rng.choice(names + ["nowhere"]))  # a cycle, a self-dependency or a missing block
            bl.append([nm, [f"# {nm} line {i}" for i in range(rng.randint(1, 2))], deps])
        if rng.random() < 0.3:
            d = list(rng.choice(bl))
            d = [d[0], d[1] if rng.random() < 0.8 else ["# other text"], [x for x in names if rng.random() < 0.3]]
            bl.append(d)
        rng.shuffle(bl)
        perm = list(bl)
        rng.shuffle(perm)
        lists.append((bl, perm))
    ans = ctx.driver(DRIVER, [{"op": "emitscripts", "scripts": l} for pair in lists for l in pair])
    for i, (bl, perm) in enumerate(lists):
        a1, a2 = ans[2 * i], ans[2 * i + 1]
        if "bad" in a1 or "bad" in a2:
            continue
        r1, r2 = real(bl), real(perm)
        ctx.count("tie:generate_script_block", 2)
        ctx.count("scripts:" + ("refused" if "err" in r1 else "emitted"))
        ctx.case(["scripts", bl, perm], bl != perm, None)
        for a, r, l in ((a1, r1, bl), (a2, r2, perm)):
            if a != r:
                ctx.disagreement("generate_script_block", {"blocks": l}, a, r)
        if a1 == a2:
            ctx.count("scripts:order-invisible-to-the-model")
            if r1 != r2:
                ctx.violation(
                    key="scripts|" + json.dumps([bl, perm], sort_keys=True),
                    what="generate_script_block gives different job option lines for two orders of script blocks whose order the dependencies fix",
                    case={"kind": "scripts", "blocks": bl, "perm": perm},
                    observed=[r1, r2],
                )


def wire_nary_stream(ctx, n: int):
    """qastle's printer and parser on expressions with n-ary and/or and chained comparisons against Lean `wprint2`
    (= wprint after `wirePre`), `wparse` and `wireNorm2`: the tokens, and the query that comes back."""
    T, gen, Vr, P = _lib()
    from c08_lib.terms import C, L, N, V, call, meth

    rng = ctx.rng

    def leaf():
        c = rng.random()
        if c < 0.35:
            return meth(V(rng.choice(["j", "e"])), rng.choice(["d", "i", "pt"]))
        if c < 0.6:
            return C(rng.choice([0, 1, 30, 1.5, 2.25]))
        if c < 0.8:
            return V(rng.choice(["a", "b", "j"]))
        return call(rng.choice(["twice", "abs"]), meth(V("j"), "d"))

    def cmp_(d):
        k = rng.choice([1, 1, 2, 2, 3])
        ops = "+".join(rng.choice(["Lt", "LtE", "Gt", "GtE", "Eq", "NotEq"]) for _ in range(k))
        return N("cmp:" + ops, *[num(d - 1) for _ in range(k + 1)])

    def num(d):
        if d <= 0 or rng.random() < 0.6:
            return leaf()
        return N("bin:" + rng.choice(["Add", "Sub", "Mult"]), num(d - 1), num(d - 1))

    def boolean(d):
        c = rng.random()
        if d <= 0 or c < 0.35:
            return cmp_(d)
        if c < 0.85:
            return N("bool:" + rng.choice(["And", "Or"]), *[boolean(d - 1) for _ in range(rng.choice([2, 3, 3, 4]))])
        if c < 0.93:
            return N("un:Not", boolean(d - 1))
        return N("if", boolean(d - 1), boolean(d - 1), boolean(d - 1))

    terms = []
    for _ in range(n):
        b = boolean(rng.choice([1, 2, 2, 3]))
        form = rng.random()
        if form < 0.5:
            b = call("Where", call("EventDataset", C("ds")), L(["j"], b))
        elif form < 0.7:
            b = N("tuple", b, boolean(1))
        terms.append(b)
    ans = ctx.driver(DRIVER, [{"op": "wprint2", "q": T.to_json(t)} for t in terms])
    reqs, meta = [], []
    for t, a in zip(terms, ans):
        if "bad" in a:
            continue
        try:
            text = Vr.qastle_text(t)
            back = Vr.qastle_roundtrip(t, text)
        except Exception as e:
            ctx.count("wire-nary:qastle-refused:" + type(e).__name__)
            continue
        ctx.count("tie:wprint2")
        ctx.count("wire-nary:" + ("rewritten" if a.get("changed") else "as-written"))
        ctx.case(["wire-nary", T.show(t)], bool(a.get("changed")), None)
        if a.get("toks") != qastle_tokens(text):
            ctx.disagreement("qastle.python_ast_to_text_ast(n-ary)", {"term": T.show(t)}, a.get("toks", "none"), qastle_tokens(text))
        elif T.of_json(a["back"]) != back:
            ctx.disagreement("qastle round trip (n-ary)", {"term": T.show(t)}, T.show(T.of_json(a["back"])), T.show(back))
        reqs.append({"op": "wparse", "toks": qastle_tokens(text)})
        meta.append((t, back))
    for (t, back), a in zip(meta, ctx.driver(DRIVER, reqs)):
        if "bad" in a:
            continue
        ctx.count("tie:wparse")
        if "q" not in a or T.of_json(a["q"]) != back:
            ctx.disagreement("qastle.text_ast_to_python_ast(n-ary)", {"term": T.show(t)}, T.show(T.of_json(a["q"])) if "q" in a else "none", T.show(back))


def known_stream(ctx):
    """Replay every listed finding and every corpus case on the real code (one driver call for all of them).
    A listed finding that still fails is announced under its key; a corpus case (a minimised failing input of an
    earlier bug, holding on the clean tree) that fails is a violation."""
    from vlib import corpus_cases

    T, _, _, P = _lib()
    entries = [(st, e["key"], e["what"], e["input"]) for st in ("known", "fixed") for e in ctx.known_entries(st) if e["input"].get("kind") != "procmd"]
    for c in corpus_cases(ID):
        key = "corpus|" + case_key(c["backend"], c["kind"], T.of_json(c["base"]), c.get("qastle") or T.of_json(c["variant"]))
        entries.append(("corpus", key, "a minimised past failure fails again: " + c.get("origin", ""), c))
    pk = Pkgs()
    reqs, runs = [], []
    for st, key, what, inp in entries:
        r0, r1 = run_pair(inp)
        runs.append((r0, r1))
        reqs.append({"op": "same", "a": pk.outcome(r0), "b": pk.outcome(r1)})
    ans = ctx.driver(DRIVER, pk.puts + reqs)[len(pk.puts) :]
    for (st, key, what, inp), (r0, r1), a in zip(entries, runs, ans):
        ctx.count("corpus" if st == "corpus" else f"known-finding-replayed:{st}")
        if "bad" in a:
            continue
        holds = a.get("strict" if inp.get("strict", True) else "diag", False)
        if st == "corpus":
            ctx.case(["corpus", key], True, None)
        if not holds:
            ctx.violation(
                key=key if st != "fixed" else "regressed:" + key,
                what=what,
                case=inp,
                observed={"lean": a, "base": summary(r0), "variant": summary(r1)},
            )


def dependent_cases(ctx, quick: bool) -> List[Case]:
    """(c) several interdependent metadata items re-ordered and moved along the chain (c08_lib/directed.py)."""
    T, gen, Vr, P = _lib()
    D = _directed()
    rng = ctx.rng
    cases: List[Case] = []
    for bi, b in enumerate(P.BACKENDS):
        for k, bun in enumerate(D.dependent_bundles(b)):
            scripts = any(m.get("metadata_type") == "add_job_script" for m in bun["mds"])
            if quick and b != ("atlas" if scripts else P.BACKENDS[(k + ctx.seed) % 3]):
                continue  # quick: one backend per bundle in rotation; job scripts show on ATLAS only
            c = Case(b, bun["q"], bun["mds"], {"md-dependent:" + bun["label"]: 1})
            c.mdt = [gen.md_term(m) for m in bun["mds"]]
            n = len(c.mdt)
            c.base = D.place_order(rng, bun["q"], c.mdt, list(range(n)), "bottom")
            for o in D.orders(rng, n, (bun["sample"] if not quick else min(bun["sample"], 3) if n != 4 else 3)):
                if quick:  # one placement per re-ordering (in rotation), two for the canonical order
                    modes = ["top", "spread"] if o == list(range(n)) else [("bottom", "spread", "top")[len(c.variants) % 3]]
                else:
                    modes = ["bottom", "top", "spread"]
                for mode in modes:
                    v = D.place_order(rng, bun["q"], c.mdt, o, mode)
                    if v == c.base:
                        continue
                    c.variants.append({"kind": "md-order", "term": v, "rel": {"kind": "md", "q": c.base, "q2": v, "need": "mdsame"}, "strict": True, "md_order": list(o), "label": bun["label"]})
            cases.append(c)
    return cases


def echo_cases(ctx, quick: bool) -> List[Case]:
    """(b) the same expression text in nested scopes, the inner parameter spelled like the outer one or not."""
    T, gen, Vr, P = _lib()
    D = _directed()
    cases: List[Case] = []
    for b in P.BACKENDS:
        for k, e in enumerate(D.echo_cases(b)):
            if quick and (b != P.BACKENDS[(k + ctx.seed) % 3] or (k + ctx.seed // 3) % 2 == 1 and "plugin-method" not in e["label"]):
                continue  # quick: one backend per case, every second template (the plug-in method ones always)
            c = Case(b, e["q"], e["mds"], {"alpha-echo:" + e["label"].split("/")[0]: 1})
            c.mdt = [gen.md_term(m) for m in e["mds"]]
            c.base = Vr.place(ctx.rng, e["q"], c.mdt, "bottom")
            for vl, v in e["variants"]:
                if quick and vl == "outer-reused":
                    continue
                c.variants.append({"kind": "alpha-echo", "term": Vr.place(ctx.rng, v, c.mdt, "bottom"), "rel": {"kind": "alpha", "q": e["q"], "q2": v}, "strict": False, "label": e["label"] + "/" + vl})
            cases.append(c)
    return cases


def cross_cases(ctx, quick: bool) -> List[Case]:
    """(b) doubly crossing shadowing: both outer names re-bound at different inner levels, outer names used after the
    inner lambdas; every pattern of re-use that is an alpha-variant."""
    T, gen, Vr, P = _lib()
    D = _directed()
    cases: List[Case] = []
    for b in P.BACKENDS:
        for k, e in enumerate(D.cross_cases(b, ctx.rng, 9 if quick else None)):
            if quick and b != P.BACKENDS[(k + ctx.seed) % 3]:
                continue
            c = Case(b, e["q"], e["mds"], {"alpha-cross:" + e["label"]: 1})
            c.mdt = [gen.md_term(m) for m in e["mds"]]
            c.base = Vr.place(ctx.rng, e["q"], c.mdt, "bottom")
            for vl, v in e["variants"]:
                c.variants.append({"kind": "alpha-cross", "term": Vr.place(ctx.rng, v, c.mdt, "bottom"), "rel": {"kind": "alpha", "q": e["q"], "q2": v}, "strict": False, "label": e["label"] + ":" + vl})
            cases.append(c)
    return cases


def fuse_left_cases(ctx, quick: bool) -> List[Case]:
    """(d) chained Select/Where steps where func_adl's simplifier does not go: fused by hand against left to the translator."""
    T, gen, Vr, P = _lib()
    D = _directed()
    cases: List[Case] = []
    for b in P.BACKENDS:
        for k, e in enumerate(D.fuse_left_cases(b)):
            if quick and b != P.BACKENDS[(k + ctx.seed) % 3]:
                continue
            c = Case(b, e["q"], e["mds"], {"fuse-left:" + e["label"].split("/")[0]: 1})
            c.mdt = [gen.md_term(m) for m in e["mds"]]
            c.base = Vr.place(ctx.rng, e["q"], c.mdt, "bottom")
            qc = real_style(e["q"])
            for p, name in Vr.fusable(qc):
                fa = Vr.fuse_at(qc, p, "A", "z_f")
                c.variants.append({"kind": "fuseA-" + name, "term": Vr.place(ctx.rng, fa, c.mdt, "bottom"), "rel": {"kind": "fuse", "q": qc, "q2": fa, "path": list(p), "z": "z_f"}, "strict": False})
                fb = Vr.fuse_at(qc, p, "B", "z_f")
                if fb is not None:
                    c.variants.append({"kind": "fuseB-" + name, "term": Vr.place(ctx.rng, fb, c.mdt, "bottom"), "rel": {"kind": "nf", "q": qc, "q2": fb, "path": list(p), "sep": qc}, "strict": False})
            cases.append(c)
    return cases


class Timer:
    def __init__(self):
        import time

        self.t = time.time()
        self.acc: Dict[str, float] = {}

    def lap(self, name: str):
        import time

        now = time.time()
        self.acc[name] = round(self.acc.get(name, 0.0) + now - self.t, 2)
        self.t = now


TIMER = Timer()


def run(ctx):
    from vlib import corpus_cases

    T, gen, Vr, P = _lib()
    TIMER.lap("build+audit")
    known_stream(ctx)
    TIMER.lap("known findings + corpus")
    quick = ctx.tier == "quick"
    # the directed families of the three clauses (c), (b), (d): the package-level comparisons come first, so that a
    # replay file shows the property's own statement failing (two placements / spellings / chainings, two packages)
    directed: List[Case] = []
    for name, mk in (("md-dependent", dependent_cases), ("alpha-echo", echo_cases), ("alpha-cross", cross_cases), ("fuse-left", fuse_left_cases)):
        for c in mk(ctx, quick):
            c.stream = name
            directed.append(c)
    for i in range(0, len(directed), 150):  # one pair of driver runs per 150 cases
        report_failures(ctx, process_cases(ctx, directed[i : i + 150], "directed", tie=False))
        ctx.check_time()
    TIMER.lap("directed streams (md-dependent, alpha-echo, alpha-cross, fuse-left)")
    stack_stream(ctx, 300 if quick else 3000)
    procmd_stream(ctx, 40 if quick else 400)
    scripts_stream(ctx, 60 if quick else 600)
    wire_nary_stream(ctx, 80 if quick else 800)
    TIMER.lap("stack+procmd+scripts streams")
    # every list-valued metadata key of every metadata kind written as a tuple: Python AST vs qastle text
    cases = [wire_metadata_case(b, label, q, mds) for b in P.BACKENDS for label, q, mds in gen.wire_metadata_cases(b)]
    report_failures(ctx, process_cases(ctx, cases, "wire-metadata", tie=not quick))
    TIMER.lap("wire-metadata stream")
    nq = 42 if quick else 160
    batch = 42 if quick else 40
    done = 0
    while done < nq:
        cases: List[Case] = []
        for i in range(min(batch, nq - done)):
            depth = ctx.rng.choice([1, 2, 2, 2, 3])
            if quick:
                backends = [P.BACKENDS[(done + i) % 3]]
            else:
                backends = P.BACKENDS
            state = ctx.rng.getstate()
            for b in backends:
                # the same random choices on every backend: one query, three translations
                ctx.rng.setstate(state)
                cases.append(build_case(ctx.rng, b, depth))
        failures = process_cases(ctx, cases, "main")
        report_failures(ctx, failures)
        done += batch
        ctx.check_time()
    ctx.extra_cov["exhaustive"] = False
    ctx.extra_cov["seconds"] = TIMER.acc
    ctx.extra_cov["populations"] = {
        "proved (all inputs)": "statements about the models of name resolution, metadata extraction/placement, fusion of scalar-bodied chains, wire round trip",
        "sampled": "model-vs-code ties and the variant comparison on the real pipeline; fusing variants only where the simplified queries agree up to alpha",
        "excluded (listed findings)": "First() diagnostic text under renaming; shadowing inside Where predicates / direct lambda calls; parameters named arg_N; qastle re-association of n-ary and/or",
    }


# ---------------------------------------------------------------- search / replay
def search(ctx, broken):
    """A larger sweep with the Spec on the implementation as the only judge; the smallest failing pair is returned."""
    T, gen, Vr, P = _lib()
    best = None
    for rnd in range(3):
        cases = []
        for i in range(60):
            cases.append(build_case(ctx.rng, P.BACKENDS[i % 3], ctx.rng.choice([1, 1, 2, 2, 3])))
        fails = process_cases(ctx, cases, "search", tie=False)
        for f in fails:
            sz = T.size(f["case"].base)
            if best is None or sz < best[0]:
                best = (sz, f)
        if best is not None and rnd >= 1:
            break
    if best is None:
        return None
    f = best[1]
    c, v = f["case"], f["variant"]
    case = shrink(ctx, replay_case(c.backend, v["kind"], c.base, v))
    known = ctx._known.get(f["key"], {}).get("status") == "known"
    return {"key": f["key"], "what": f"{v['kind']} variant translated differently", "case": case, "observed": f["answer"], "known": known}


def shrink(ctx, case: Dict[str, Any]) -> Dict[str, Any]:
    """Drop metadata wrappers that both sides can lose while the comparison still fails."""
    T, _, Vr, _ = _lib()
    if "variant" not in case:
        return case
    try:
        b, bm = Vr.strip_py(T.of_json(case["base"]))
        v, vm = Vr.strip_py(T.of_json(case["variant"]))
        needed = [m for m in bm]
        for m in list(needed):
            trial = [x for x in needed if x != m]
            cand = dict(case)
            cand["base"] = T.to_json(Vr.attach(b, [((), x) for x in trial]))
            cand["variant"] = T.to_json(Vr.attach(v, [((), x) for x in vm if x in trial]))  # the variant keeps ITS order
            r = compare_pair(ctx, cand)
            if not r["holds"] and "ok" in r["base"]:
                needed = trial
                case = cand
                case["base_text"] = T.show(T.of_json(cand["base"]))
                case["variant_text"] = T.show(T.of_json(cand["variant"]))
    except Exception:
        pass
    if str(case.get("kind", "")).startswith("alpha"):
        try:
            case = shrink_names(ctx, case)
        except Exception:
            pass
    return case


def binders_with(T, base, names: List[List[str]]):
    """`base` with the parameters of its k-th lambda (pre-order) renamed to names[k]; None unless alpha-equal to base."""
    k = [0]

    def go(t, env):
        if t[0] == "v":
            return T.V(env.get(t[1], t[1]))
        if t[0] == "c":
            return t
        if t[0] == "a":
            return ("a", go(t[1], env), tuple(go(x, env) for x in t[2]))
        if t[0] == "n":
            return ("n", t[1], tuple(go(x, env) for x in t[2]))
        new = names[k[0]]
        k[0] += 1
        env2 = dict(env)
        env2.update(zip(t[1], new))
        return ("l", tuple(new), go(t[2], env2))

    r = go(base, {})
    return r if T.debruijn(r) == T.debruijn(base) else None


def shrink_names(ctx, case: Dict[str, Any]) -> Dict[str, Any]:
    """A failing renaming with as few renamed binders as possible: every lambda gets the base's parameter names back
    where the result is still an alpha-variant and the comparison still fails."""
    T, _, Vr, _ = _lib()
    b, bm = Vr.strip_py(T.of_json(case["base"]))
    v, vm = Vr.strip_py(T.of_json(case["variant"]))
    if bm != vm or T.debruijn(b) != T.debruijn(v):
        return case
    lb = [list(s[1]) for s in T.subterms(b) if s[0] == "l"]
    lv = [list(s[1]) for s in T.subterms(v) if s[0] == "l"]
    if len(lb) != len(lv) or len(lb) > 12:
        return case
    base_full = Vr.attach(b, [((), x) for x in bm])
    cur = list(lv)
    for i in range(len(cur)):
        if cur[i] == lb[i]:
            continue
        trial = cur[:i] + [lb[i]] + cur[i + 1 :]
        t = binders_with(T, b, trial)
        if t is None or t == b:
            continue
        cand = dict(case)
        cand["base"] = T.to_json(base_full)
        cand["variant"] = T.to_json(Vr.attach(t, [((), x) for x in bm]))
        r = compare_pair(ctx, cand)
        if not r["holds"] and "ok" in r["base"]:
            cur = trial
            case = cand
            case["base_text"] = T.show(base_full)
            case["variant_text"] = T.show(T.of_json(cand["variant"]))
    return case


def replay(ctx, rep) -> int:
    case = rep["case"]
    if case.get("kind") == "scripts":
        from func_adl_xAOD.common.meta_data import JobScriptSpecification, generate_script_block

        def real(bl):
            try:
                return generate_script_block([JobScriptSpecification(name=b[0], script=list(b[1]), depends_on=list(b[2])) for b in bl])
            except Exception as e:
                return type(e).__name__

        r1, r2 = real(case["blocks"]), real(case["perm"])
        print("generate_script_block, two orders:", r1, r2)
        return 0 if r1 == r2 else 1
    if case.get("kind") == "procmd":
        r1, r2 = real_procmd(case["mds"], case["keys"]), real_procmd(case["perm"], case["keys"])
        same = {k: v for k, v in r1.items() if k != "solos"} == {k: v for k, v in r2.items() if k != "solos"}
        print("process_metadata, two orders:", "same" if same else "DIFFERENT")
        return 0 if same else 1
    r = compare_pair(ctx, case)
    print("backend:", case["backend"], " variant kind:", case["kind"])
    print("base   :", case.get("base_text"))
    print("variant:", case.get("variant_text") or case.get("qastle"))
    print("lean   :", r["lean"])
    for side in ("base", "variant"):
        s = summary(r[side])
        if "err" in s:
            print(side, "raised", s)
    print("same package up to numbering:", r["holds"])
    return 0 if r["holds"] else 1
