"""C02 — every accepted query yields a complete, self-consistent, compilable package.

Static part: the verified checker `WellFormed` (definite assignment, scoping, no redeclaration) and
`UniqueNames` are evaluated on the implementation's own parsed output for every generated query on
the three backends; `C02.wf_no_unbound` says what acceptance means for all executions.
Completeness part: files named in the returned info exist, the runner is executable, no template
directive is left, class declarations / booking lines parse.
Thorough tier: g++ -fsyntax-only of the per-event code against a generated mock of the declared EDM.
"""
from __future__ import annotations

import re

import cgroup
from cprop import CompilerProp

ID = "C02"
LEAN_MODULES = ["FaxVerif.C02.Theorems", "FaxVerif.C02.TheoremsCursor", "FaxVerif.C02.TheoremsWf", "FaxVerif.C02.TheoremsParse", "FaxVerif.C02.TheoremsParseExpr", "FaxVerif.Cpp.ParseSpec"]
LEAN_SOURCES = ["FaxVerif/C02", "FaxVerif/Cpp", "FaxVerif/Gen"]
DRIVER = cgroup.DRIVER
SETUP_MODULES = cgroup.DRIVER_IMPORTS  # what the driver imports
THEOREMS = [
    "FaxVerif.C02.compile_wellFormed",
    "FaxVerif.C02.fragment_no_unbound",
    "FaxVerif.C02.fragment_no_unbound_job",
    "FaxVerif.C02.wf_no_unbound",
    "FaxVerif.C02.wf_no_unbound_job",
    "FaxVerif.C02.block_scoped",
    "FaxVerif.C02.declared_once",
    "FaxVerif.Cpp.exec_sound",
] + ["FaxVerif.C02." + t for t in (
    "starts_with_is_prefix starts_with_stack starts_with_top starts_with_refl starts_with_trans starts_with_antisymm "
    "deepest_scope_spec deepest_scope_incomparable deepest_scope_equal up_is_dropLast up_one up_other nothing_lost added_last "
    "insertion_order emit_block_shape emit_shape declared_encloses declared_encloses_block save_set_identity save_set_roundtrip "
    "cursor_chain cursor_root cursor_path_counterexample cursor_path_partial includes_first_use_order includes_nodup_mem "
    "parse_render_stmt parse_render_exact render_injective render_parse_render render_injective_needs_wf "
    "parseToks_render toksE_injective lex_render parseExpr_render parse_render render_injective_wf parseExpr_render_partial "
    "exprOk_of_wfT_lexOk wfT_needed_counterexample").split()]
RULE = (
    "type-directed random queries over the synthetic data model (see C05) on the three backends; per case: file set, mode bits, "
    "template residue, parse of class declarations and booking lines, the verified checkers WellFormed and UniqueNames on the "
    "parsed per-event body. Non-trivial: >=2 distinct operators and >=1 event with a row; distinct = distinct (backend, query). "
    "Stream 'cursor': random sequences of calls of the code-generation cursor (generated_code / gc_scope / statement classes: add "
    "statement or block, below=, pop, save / set scope token, scope[-k], declare at cursor or token, includes, libraries, "
    "starts_with, deepest_scope; a share of erroneous calls) on the real classes vs the Lean state machine: every return value / "
    "exception class, the emitted text (exact), cursor and token identities; plus the text oracles nothing_lost and "
    "declared_encloses on the REAL text. "
    "Stream 'parse-tie': for every program the other streams translated (three backends; per-event body and booking block): the "
    "statement tree of the Lean parser (lean/FaxVerif/Cpp/Parse.lean + attachS) = the decoded tree of tools/cparse.py + "
    "qgen._attach_retrieve_types (canonical JSON, exact); Lean printer renderLines = Gen.renderS on that tree; render(parse text) = "
    "text line by line modulo blanks, parentheses, `T x = e` / `T x (e)` and C escapes; where StmtOk holds (counted), parse(render t) "
    "= t; class declarations classDecl = cparse.parse_class_decl; plus generated expression texts WITHOUT redundant parentheses and "
    "damaged statement lines (600 quick / 12000 thorough): Lean parseExpr / parseLine = cparse (precedence and the fall-back to "
    "opaque / line)."
)
TRUSTED_BASE = [
    "C++ scoping/initialisation rules as modelled by lean/FaxVerif/Cpp/Check.lean (flat environment + scoped analysis state)",
    "tools/cparse.py (still what the harness of C01-C05 feeds the driver with) — now tied on every run to the parser written in Lean "
    "(lean/FaxVerif/Cpp/Parse.lean), for which the round trip with the printer is proved (C02.parse_render_stmt, parseToks_render); "
    "the typing of member calls against the declared EDM is checked by g++ in the thorough tier only",
    "cursor state machine (lean/FaxVerif/C02/CursorModel.lean): hand model of generated_code.py, util_scope.py, statement.py tied by tools/c02_cursor.py (operation sequences on the real classes vs the model, exact text); that the translator only ever uses the cursor through these calls is by reading",
]
ASSUMPTIONS = ["the experiment headers declare what the metadata says (the mock EDM is generated from the same declarations)"]
LEVEL_TEXT = (
    "For the translator MODEL (Gen.compile on the fragment F0-lite, tied to the real translator's text on every run) acceptance by the "
    "checker is itself a theorem — compile_wellFormed: for EVERY fragment query (First columns with their path-sensitive flag idiom "
    "included), backend and injective name supply, WellFormed (compile …) = true; hence fragment_no_unbound(_job): no event and no "
    "job over any event list can read an undeclared or uninitialised name. For programs beyond the fragment: "
    "Lean 4 theorem (wf_no_unbound): any package accepted by the verified checker WellFormed can never read an undeclared or "
    "uninitialised name, assign to an undeclared one or fill from an unset column, for all events and number models; the "
    "checker, the uniqueness check and the completeness checks run on the implementation's real output for every generated "
    "query on the three backends. Template completeness (no directive left) rests on C14's render theorems over the templates "
    "regenerated from source. Scoping discipline of the generator itself: a faithful state-machine model of the translator's "
    "code-generation cursor (block tree, cursor stack, scope tokens) with theorems for EVERY sequence of cursor calls: starts_with is "
    "the prefix order, deepest_scope / scope[-k] as specified, no statement is ever lost and insertion order is kept (nothing_lost, "
    "insertion_order), the emitted text has the block shape (emit_shape), and a variable declared at a scope token lies, in the "
    "emitted text, in a block that lexically encloses and precedes every statement added while the cursor's scope starts with that "
    "token (declared_encloses) — tied to the real classes by differential execution of operation sequences on every run. "
    "Text -> statement tree: the parser of the emitted line language is a total Lean function (tokenizer, precedence climbing with the "
    "C++ precedence of the emitted subset, statement lines, block structure, booking lines, class declarations) with theorems for "
    "EVERY statement tree and expression: parse_render — parsing the printed block returns exactly the tree, under the decidable "
    "syntactic predicate ListWf (identifiers, a type the declaration pattern reads back, names / numerals that are one token, strings "
    "without quote and backslash, expressions of the precedence-safe class wfT); hence the printer is injective on such trees "
    "(render_injective_wf) and render after parse is the identity on printed text (render_parse_render); expression level: "
    "parseToks_render (tokens -> tree: unary, the 13 binary operators on 6 levels, dereference, member chains, calls, casts, argument "
    "lists), lex_render (characters -> tokens), parseExpr_render. The Lean parser is compared with tools/cparse.py on the real text "
    "of every generated program on every run."
)
LEVEL_NOTE = (
    "Proved: soundness of WellFormed w.r.t. the modelled semantics; that the translator model's output is ALWAYS accepted (fragment F0-lite). Sampled: that the real translator's output beyond the fragment passes the checker (every generated query). "
    "Type consistency of uses against the declared data model is not proved; thorough tier compiles against a generated mock EDM. "
    "The checker is path-sensitive enough for the First() idiom (flags known true, guard facts `flag false => captured value "
    "initialised`, loop invariants checked by re-running the body): programs using First() are covered by the theorem too. "
    "Parser: proved is that parser and printer are inverse on well-formed trees; that the Lean parser reads the REAL text the way "
    "tools/cparse.py does (which the harness of C01-C05 still uses) is compared on every run (every program, plus generated "
    "unparenthesised / damaged texts), not proved. Outside the theorems: trees the printer cannot spell (C escapes inside string "
    "literals, negative integer literals, member access on a dereference) — measured on every run: ~97 % of real programs satisfy "
    "StmtWf, > 99 % of real expressions exprWf; character classes are ASCII (Python's \\w / \\d / \\s also accept non-ASCII)."
)
TECHNIQUE = "Lean 4 soundness proof of a static well-formedness checker evaluated on the implementation's output + package completeness checks; Lean parser of the emitted text with round-trip theorems, N-version tie with the Python parser on every program"
DESIGN_REF = "DESIGN.md §4 C02"

RESIDUE = re.compile(r"\{\{|\}\}|\{%|%\}|\{#|#\}")


def gen(ctx, i):
    return cgroup.gen_case(ctx.rng, backend=cgroup.P.BACKENDS[i % 3], nevents=3)


def judge(c):
    r = c.result
    if not r["ok"]:
        return None  # refusing is C01/C09's business
    # completeness
    for f in r["all_filenames"]:
        if r["files"].get(f) is None:
            return {"what": f"file {f} named in the returned info was not written", "observed": r["all_filenames"]}
        if RESIDUE.search(r["files"][f]):
            m = RESIDUE.search(r["files"][f])
            return {"what": f"template directive left unrendered in {f}", "observed": r["files"][f][max(0, m.start() - 60) : m.end() + 60]}
    if r["main_script"] not in r["all_filenames"]:
        return {"what": "entry script is not among the written files", "observed": r["main_script"]}
    if (r["modes"][r["main_script"]] & 0o111) != 0o111:
        return {"what": "entry script is not executable", "observed": oct(r["modes"][r["main_script"]])}
    pk = c.package
    if any(cv["n"] == "?" for cv in pk["class_vars"]):
        return {"what": "a class-level declaration is not a C++ declaration", "observed": r["class_decl"]}
    if pk["book_other"]:
        return {"what": "booking code contains a line that is not a booking statement", "observed": pk["book_other"]}
    if len(pk["book_trees"]) < 1 or len(set(pk["book_trees"])) != 1:
        return {"what": "booking code does not book exactly one tree", "observed": r["book"]}
    a = c.answer
    if a is None or "bad" in a:
        return None
    if not a.get("unique"):
        return {"what": "a generated identifier is declared more than once", "observed": r["query"] + r["class_decl"]}
    sx = getattr(c, "gxx_syntax", None)
    if sx is not None and not sx.get("compiled"):
        return {"what": "the generated C++ does not compile against a mock of the data model exactly as the query declares it", "observed": {"errors": sx.get("errors"), "body": r["query"]}}
    for g in (getattr(c, "gxx_exec", None) or []):
        if g and str(g.get("fault", "")).startswith("does-not-compile"):
            return {"what": "the generated C++ does not compile against a mock of the data model exactly as the query declares it", "observed": {"errors": g.get("errors"), "body": r["query"]}}
    faults = [e.get("fault", "") for e in a["exec"]]
    if any(f.startswith("stuck:unbound") for f in faults):
        return {"what": "the per-event code reads a name that is not declared / not initialised at that point", "observed": {"fault": [f for f in faults if f.startswith("stuck")][0], "body": r["query"]}}
    if any(f.startswith("stuck:opaque") for f in faults):
        return {"kind": "broken", "what": "emitted line not recognised by the statement parser", "observed": r["query"]}
    if not a.get("wf"):
        return {"kind": "broken", "what": "WellFormed(checker on implementation output)", "model": "accepted", "observed": "rejected"}
    return None


_PROGRAMS = []  # every program the streams translated: input of the parse-tie stream


def after(ctx, c):
    if c.result["ok"]:
        _PROGRAMS.append((c.backend, c.source(), c.result))
    if c.result["ok"] and c.answer and "bad" not in c.answer:
        if c.answer.get("wf"):
            ctx.count("WellFormed:accepted")
        else:
            ctx.count("WellFormed:rejected")


_P = CompilerProp(ID, gen, judge, 180, 1500, with_query=True, after=after, use_gxx=True, parse_tie=False,  # (C02 runs the parse tie itself, with the fuzz texts)
                   gxx_also=lambda c: not (c.answer or {}).get("wf", True) or not (c.answer or {}).get("unique", True))
search = _P.search


def run(ctx):
    _P.run(ctx)
    import c02_cursor

    c02_cursor.run_stream(ctx, 400 if ctx.tier == "quick" else 4000, report=True)
    import c02_parsetie

    progs, _PROGRAMS[:] = list(_PROGRAMS), []
    c02_parsetie.run_stream(ctx, progs, 600 if ctx.tier == "quick" else 12000, report=True)


def replay(ctx, rep):
    case = rep.get("case") or {}
    if "cursor_ops" in case:
        import c02_cursor

        print(c02_cursor.replay(case["cursor_ops"]))
        r = c02_cursor.run_stream(ctx, 0, extra=[case["cursor_ops"]])
        return 1 if (r["disagreements"] or r["violations"]) else 0
    return _P.replay(ctx, rep)
