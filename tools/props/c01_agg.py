"""C01 extension — the GENERAL `Aggregate(seed, lambda acc, x: body)` in the translator model.

Not a check of its own: `c01.py` hooks these in
    THEOREMS      += THEOREMS_AGG
    LEAN_MODULES  += LEAN_MODULES_AGG
    LEAN_SOURCES  += LEAN_SOURCES_AGG
    SETUP_MODULES += SETUP_MODULES_AGG          (what the driver `DRIVER_AGG` imports)
    run(ctx): ... c01_agg.stream(ctx)

Lean side: `Gen/Agg.lean` (syntax, typing, `toQuery`, `compileA`), `Gen/AggSpec.lean` (side
conditions), `Gen/Agg*Correct.lean` (proofs), `C01/TheoremsAgg.lean` (property theorems),
`Gen/AggDriver.lean` (JSON-lines driver of the text tie). Python side: `tools/gentie_agg.py`.
"""
from __future__ import annotations

import sys
from pathlib import Path
from typing import List

sys.path.insert(0, str(Path(__file__).resolve().parent.parent))

_T = "FaxVerif.C01."
THEOREMS_AGG: List[str] = [
    _T + "aggregate_body_correct",
    _T + "aggregate_is_fold",
    _T + "aggregate_is_foldl",
    _T + "aggregate_denotes_fold",
    _T + "aggregate_scalar_correct_partial",
    _T + "aggregateRows_correct_partial",
    _T + "aggregate_widened_is_fold_partial",
    _T + "aggregate_first_step_insensitive",
    _T + "aggregate_body_correct_widened",
    _T + "aggregate_is_fold_tok_partial",
    _T + "aggregate_token_table",
    _T + "aggregateRows_correct_miniaod_partial",
    _T + "aggExact_necessary_widened",
    _T + "aggExact_necessary_cast",
    _T + "aggregate_count_instance",
    _T + "aggregate_sum_instance",
]
LEAN_MODULES_AGG: List[str] = ["FaxVerif.C01.TheoremsAgg"]
LEAN_SOURCES_AGG: List[str] = [
    "FaxVerif/Gen/Agg.lean",
    "FaxVerif/Gen/AggSpec.lean",
    "FaxVerif/Gen/AggBodyCorrect.lean",
    "FaxVerif/Gen/AggCorrect.lean",
    "FaxVerif/Gen/AggWiden.lean",
    "FaxVerif/Gen/AggWidenCorrect.lean",
    "FaxVerif/Gen/AggExprCorrect.lean",
    "FaxVerif/Gen/AggTok.lean",
    "FaxVerif/Gen/AggRowsCorrect.lean",
    "FaxVerif/Gen/AggDriver.lean",
    "FaxVerif/C01/TheoremsAgg.lean",
]
DRIVER_AGG = "FaxVerif/Gen/AggDriver.lean"
SETUP_MODULES_AGG: List[str] = ["FaxVerif.Gen.AggSpec"]

N_QUICK, N_THOROUGH = 90, 600


def stream(ctx, n=None):
    """text tie of Gen.compileA (general Aggregate as an event-level scalar column) with the real translator,
    three backends; plus the executed model against its own denotation"""
    import gentie_agg

    if n is None:
        n = N_QUICK if getattr(ctx, "tier", "quick") == "quick" else N_THOROUGH
    agree, total, first = gentie_agg.run_stream(ctx, n)
    if first is None:
        return
    case = {"backend": first.get("backend"), "source": first.get("source"), "aq": first.get("aq"), "first_difference": first.get("first_difference")}
    if first.get("kind") == "refused":
        ctx.violation(key=f"agg|{first.get('backend')}|{first.get('source')}", what=first.get("what"), case=case, observed=first.get("what"))
    elif first.get("kind") == "model-instance":
        ctx.disagreement("Gen.compileA executed vs denote (model instance)", case, first.get("exec"), first.get("denote"))
    else:
        ctx.disagreement("Gen.compileA vs translator (general Aggregate, text modulo renaming)", case, first.get("model_body"), first.get("impl_body") or first.get("what"))
