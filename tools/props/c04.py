"""C04 — faults are equivalent: loud on empty First / bad index, never spurious; as lazy as the query.

Theorems (lean/FaxVerif/C04/Theorems.lean) are about the statement shapes the translator emits
for First / and-lowering / Where (tied to the real translator by C01's text tie, which includes
First columns and fused Wheres). The differential stream executes the implementation's own output
on events biased to empty collections and all-rejecting filters and compares fault classes with the
Lean denotation of the query.
"""
from __future__ import annotations

import cgroup
import pipeline as P
import qgen
from cprop import CompilerProp

ID = "C04"
LEAN_MODULES = ["FaxVerif.C04.Theorems", "FaxVerif.C04.TheoremsLazy", "FaxVerif.C04.TheoremsFault", "FaxVerif.C04.TheoremsFirstLazy"]
LEAN_SOURCES = ["FaxVerif/C04", "FaxVerif/Gen", "FaxVerif/Cpp", "FaxVerif/Linq"]
DRIVER = cgroup.DRIVER
SETUP_MODULES = cgroup.DRIVER_IMPORTS + ["FaxVerif.Gen.Lazy", "FaxVerif.Gen.FirstLazy"]  # what the drivers import
THEOREMS = [
    "FaxVerif.C04.first_idiom",
    "FaxVerif.C04.and_lazy",
    "FaxVerif.C04.lazy_skips_fault",
    "FaxVerif.C04.where_shields",
    "FaxVerif.C04.pure_faults_equal",
    "FaxVerif.C04.or_lazy",
    "FaxVerif.C04.and_lazy2",
    "FaxVerif.C04.ite_lazy",
    "FaxVerif.C04.guarded_second",
    "FaxVerif.C04.or_step",
    "FaxVerif.C04.and_step",
    "FaxVerif.C04.or_chain_decided",
    "FaxVerif.C04.and_chain_decided",
    "FaxVerif.C04.or_chain_next",
    "FaxVerif.C04.event_first_empty_loud",
    "FaxVerif.C04.guarded_first_safe",
    "FaxVerif.C04.guarded_package_correct",
    "FaxVerif.C04.elemRows_fault_partial",
    "FaxVerif.C04.elemRows_faults_equal_partial",
    "FaxVerif.C04.elemRows_defined_iff",
    "FaxVerif.C04.eventRows_fault_partial",
    "FaxVerif.C04.eventRows_faults_equal_partial",
    "FaxVerif.C04.eventRows_defined_iff",
    "FaxVerif.C04.event_first_empty_loud_all_backends",
    "FaxVerif.C04.no_stale_row",
    "FaxVerif.C04.job_stops_at_first_undefined_event",
    "FaxVerif.C04.count_unforced_select_counterexample",
    "FaxVerif.C04.first_later_fault_counterexample",
    "FaxVerif.C04.lazy_expr_faults_equal",
    "FaxVerif.C04.lazy_expr_faults_equal_null",
    "FaxVerif.C04.bop_guard_protects",
    "FaxVerif.C04.and_guard_protects",
    "FaxVerif.C04.or_guard_protects",
    "FaxVerif.C04.untaken_arm_protected",
    "FaxVerif.C04.fused_where_lazy",
    "FaxVerif.C04.first_of_lazy_select_is_first",
    "FaxVerif.C04.first_of_lazy_select_empty_loud",
]
RULE = (
    "type-directed random queries that contain at least one of First / and / or / if-else / nested Where (rejection sampling over "
    "the C01 generator), 5 events each with empty collections over-weighted (45%); three backends; outcome per event compared as "
    "rows-by-value or fault class {loud, retrieveFailed, nullDeref, stuck}. Non-trivial: >=2 distinct operators and >=1 event with "
    "a row; the evidence also counts events on which the query itself faults. Stream 'lazy-tie': random element-level rows whose "
    "columns / Where conditions nest n-ary and / or / if-else, model (Gen.compileL) text vs implementation text on three backends and "
    "the model's package executed on events with null elements and missing accessors against denote. Stream 'first-lazy-tie': "
    "`ds.Select(e -> {name: chain.Select(x -> V).First()})` with V an and / or / if-else expression (nested), chains with pure Selects "
    "and lazy Wheres, model (Gen.compileFirstL) text vs implementation text on three backends; the model's package on one event with "
    ">= 2 elements whose first and last differ in every accessor plus two events with null elements / missing accessors against "
    "denote; where the texts differ the implementation's own text is executed against the denotation. The generated stream has a "
    "fixed share (tools/qgen.py first_lazy_pass, 7% of the queries, chosen by the query's text) of First() over a projection whose "
    "value is a declared variable (conditional, and / or, Count / Sum / Aggregate of a sub-collection or of another collection) in "
    "every terminal position (column, row, arithmetic, comparison, guard idiom, event filter, second step, per object, nested), the "
    "first events of such a query enriched so that first and last element differ."
)
TRUSTED_BASE = [
    "C++ semantics (throw = loud fault, .at() bounds-checked, if/else and nested-if control flow) and Python semantics (First of empty raises, and/or/if-else lazy) as written in lean/FaxVerif/Cpp/Sem.lean and lean/FaxVerif/Linq/Query.lean",
    "tools/cparse.py (compared on every program of every run with the Lean parser Cpp/Parse.lean, whose round trip with the printer is the theorem C02.parse_render (stream parse-tie: equal trees required)); the text tie of C01 for the First / and-lowering shapes",
]
ASSUMPTIONS = ["null links and the poisoned-null oracle of the DESIGN are not exercised: isNonnull is injected C++ (opaque to the model); C11 covers its substitution"]
LEVEL_TEXT = (
    "PACKAGE-LEVEL fault equivalence for the translator model (fragment F0-lite, all three backends): the emitted package returns rows "
    "for an event exactly when the query is defined there (elemRows_defined_iff, eventRows_defined_iff; no_stale_row), an undefined "
    "event makes it fail with a fault of the same class — the missing bank's retrieveFailed, a member fault of an element of that "
    "bank, or the loud `First() of an empty sequence` — in the same column and chain (elemRows_fault_partial, eventRows_fault_partial; "
    "the very same fault when the element faults are uniform: *_faults_equal_partial), and a job stops at the first undefined event "
    "having written exactly the rows of the events before it (job_stops_at_first_undefined_event). Hypothesis strictSteps: the value of "
    "every projection is consumed (the emitted code evaluates a projection only where its value is used; the eager reference semantics "
    "evaluates it for every element — count_unforced_select_counterexample, first_later_fault_counterexample show the hypothesis is needed). "
    "Lean 4 theorems about the emitted shapes, for all element lists, conditions and states: First() captures exactly the first kept "
    "element and fails loudly iff the sequence is empty after its filters (first_idiom; END TO END for the translator model on "
    "event-level rows: event_first_empty_loud — the whole emitted package fails loudly, from any admissible class state, on an "
    "event where a First() column's chain keeps no element, and nothing after it runs); the lowering of and / fused Where evaluates "
    "a later operand only when the earlier ones are true (and_lazy, lazy_skips_fault); code behind a rejecting Where is not executed "
    "(where_shields); pure expressions fault exactly when the query does (pure_faults_equal); `a or b`, `a and b` and "
    "`x if c else y` inside expressions, lowered to `r = a; if (!r) {…}` / `r = a; if (r) {…}` / `if (c) {…} else {…}`, run the "
    "second operand's / the other arm's statements — whatever they are, a First() with its throw included — exactly when Python "
    "evaluates them (or_lazy, and_lazy2, ite_lazy; n-ary chains: or_step / and_step). The guard idiom `d if c.Count() == 0 "
    "else c.First()` is proved safe END TO END for the translator model: it never throws and yields the first kept element "
    "or the default, from any state, for every chain / event / number model (guarded_first_safe), and the whole package "
    "writes exactly that one row (guarded_package_correct). For the translator MODEL of lazy operators (Gen.compLE: n-ary and / or and "
    "if-else inside element-level expressions, arbitrarily nested, tied to the real translator's text on every run) the compiled "
    "statements fault iff the query expression faults — no spurious fault, none swallowed (lazy_expr_faults_equal) — and an operand "
    "behind a deciding `and` / `or` or in the untaken arm is never executed, whatever it is (and_guard_protects, or_guard_protects, "
    "untaken_arm_protected, bop_guard_protects, fused_where_lazy) — its text is compared with the real translator's on every run. "
    "First() over a projection whose VALUE needs statements (`chain.Select(x -> V).First()`, V a lazy expression held in a declared "
    "C++ variable; model Gen.compFirstL, text tie on every run): whenever the query is defined the column ends up holding the value "
    "of V on the FIRST kept element — the capture sits inside the `if (is_first)` guard, a later element never overwrites it — "
    "nothing is thrown and no row is written (first_of_lazy_select_is_first), and when the chain keeps no element the code fails "
    "loudly (first_of_lazy_select_empty_loud); for every chain, every V, every event, every number model, all three backends. The real translator is shown to emit the First / fused-Where shapes by C01's "
    "text tie, and the lazy-operator shapes by a recogniser (C04/Shapes.lean `countShapes`) run on the implementation's output "
    "for every generated query (at least one recognised shape per and/or/if-else node of the query); the fault behaviour of the "
    "implementation's own output is compared with the query's on generated events (differential)."
)
LEVEL_NOTE = (
    "The lazy-operator theorems are about the emitted shape with an arbitrary operand body; that the body is the translation of the "
    "operand (and not hoisted in front of the guard) is differential only, as is First nested inside arithmetic (the consumer is "
    "emitted inside the guarded block). first_of_lazy_select_* are statement-level (the loop, the flag and the throw from a state "
    "in which flag and column are declared), not yet composed into a package-level theorem; projections whose value is an inner "
    "aggregate (Count / Sum over a sub-collection) under First are differential only (generated stream). Listed findings: First over a Select that ignores its variable never fails; First over a "
    "SelectMany inside a lambda is taken per outer element."
)
TECHNIQUE = "Lean 4 theorems on the emitted First / and-lowering / Where shapes + text tie + differential execution on fault-biased events"
DESIGN_REF = "DESIGN.md §4 C04"

GUARDS = {"First", "and", "or", "if", "sub"}


def gen(ctx, i):
    for _ in range(40):
        c = cgroup.gen_case(ctx.rng, backend=P.BACKENDS[i % 3], nevents=5, empty_bias=0.45, guard_w=4)
        ops = set(qgen.ops_used(c.query))
        if ops & GUARDS or qgen.ops_used(c.query).get("Where", 0) >= 2:
            return c
    return c


def judge(c):
    r = c.result
    if not r["ok"]:
        return None  # acceptance is C01's clause
    a = c.answer
    if a is None or "bad" in a:
        return None
    # every lazy operator of the query must have been lowered to the shape the theorems are about
    ops, sh = qgen.ops_used_live(c.query), a.get("shapes") or {}
    shape_hit = None
    for k, thm in (("or", "or_lazy"), ("and", "and_lazy2"), ("if", "ite_lazy")):
        if sh.get(k, 0) < ops.get(k, 0) and not cgroup.needs_gxx(c):
            shape_hit = {"kind": "broken", "what": f"lowering of `{k}`: the shape of C04.{thm} is found {sh.get(k, 0)} time(s) in the emitted code for {ops.get(k, 0)} `{k}` node(s) of the query",
                    "model": {k: ops.get(k, 0)}, "observed": r["query"]}
    for i, (ex, de) in enumerate(zip(cgroup.exec_outcomes(c), a["denote"])):
        fe, fd = cgroup.fault_class(ex), cgroup.fault_class(de)
        if fe == fd == "ok":
            if not cgroup.same_outcome(ex, de)[0]:
                return {"what": f"on event {i} a guarded query writes different rows than it denotes (stale or default value, or a row silently dropped)", "observed": {"event": i, "generated_code": ex, "query_denotes": de, "body": r["query"]}}
            continue
        if fe != fd:
            if fe == "stuck" and ex["fault"].startswith("stuck:opaque"):
                return {"kind": "broken", "what": "emitted line not recognised by the statement parser", "observed": r["query"]}
            what = (
                f"on event {i} the query is undefined ({de.get('fault')}) but the generated code does not fail loudly ({ex.get('fault', 'writes ' + str(ex.get('num')))})"
                if fd != "ok"
                else f"on event {i} the generated code fails ({ex.get('fault')}) although the query is defined there (spurious fault: something the query does not evaluate is executed)"
            )
            return {"what": what, "observed": {"event": i, "generated_code": ex, "query_denotes": de, "body": r["query"]}}
    return shape_hit


def after(ctx, c):
    if c.answer and "bad" not in c.answer and c.answer.get("denote"):
        for de in c.answer["denote"]:
            ctx.count("event:query-" + cgroup.fault_class(de))


def neg_index_cases(ctx):
    """`coll[-k]` on events where the collection has fewer than k elements: Python raises IndexError there, the
    generated code must fail loudly (it emits `.at(-k)`, which throws). (On longer collections Python yields the k-th
    element from the end while `.at(-k)` still throws: a listed finding, not generated here.) The Lean reference has
    natural-number indexes: on these events `coll[-k]` and `coll[k-1]` are both out of range, so the reference reads
    the latter (`lean_query`)."""
    import copy

    cases = []
    for b in P.BACKENDS:
        for k in (1, 2, 3):
            for coll, bank, m in (("As", "ba", "d"), ("Bs", "bb", "i")):
                def q(i):
                    return {"k": "Select", "s": {"k": "ds"}, "x": "e1", "f": {"k": "meth", "o": {"k": "sub", "a": {"k": "coll", "e": {"k": "var", "n": "e1"}, "c": coll, "bank": bank}, "i": i}, "n": m}}
                evs = []
                for n in range(k):
                    ev = qgen.gen_event(ctx.rng, b, {bank: coll}, empty_bias=0.0)
                    for bk in ev["banks"]:
                        while len(bk["content"]["v"]) < n:
                            bk["content"]["v"].append(copy.deepcopy(bk["content"]["v"][0]))
                        bk["content"]["v"] = bk["content"]["v"][:n]
                    evs.append(ev)
                c = cgroup.Case(b, q(-k), ["col1"], "select", evs)
                c.lean_query = q(k - 1)
                cases.append(c)
    return cases


def guarded_tie(ctx, n):
    """Text tie for C04.guarded_first_safe / guarded_package_correct: the model's package for
    `ds.Select(e -> {name: d if chain.Count() == 0 else chain.First()})` (Gen.compileGuarded) against the real
    translator's, modulo a bijective renaming of declared identifiers — on ATLAS and CMS AOD (the proved BackendOK
    instances), chains ending in double values (for int / float values the translator adds a static_cast<double>
    in the arm, which the model does not emit; the theorem does not depend on it)."""
    import gentie

    RANK = {"int": 0, "float": 1, "double": 2}

    def pe_ty(cur, e):  # the type the translator gives the expression (Gen.tyPE)
        k = e["k"]
        if k == "int":
            return "int"
        if k == "dbl":
            return "double"
        if k in ("bool", "cmp", "not"):
            return "bool"
        if k == "it":
            return cur
        if k == "meth":
            return e["ty"]
        if k == "neg":
            return pe_ty(cur, e["a"])
        if e["op"] == "/":
            return "double"
        a, b = pe_ty(cur, e["a"]), pe_ty(cur, e["b"])
        return a if RANK.get(a, 0) >= RANK.get(b, 0) else b

    def chain_ty(ch):
        cur = None
        for st in ch["steps"]:
            if st["k"] == "sel":
                cur = pe_ty(cur, st["e"])
        return cur

    reqs, meta = [], []
    for i in range(n):
        b = ("atlas", "cms_aod")[i % 2]
        for _ in range(40):
            ch, cur = gentie.LiteGen(ctx.rng).chain("num")
            if chain_ty(ch) == "double" and gentie.valid({"k": "eventRows", "cols": [{"name": "c", "k": "first", "c": ch}]}):
                break
        else:
            continue
        d = ctx.rng.choice([{"k": "int", "v": ctx.rng.choice([0, 1, 5])}, {"k": "dbl", "v": ctx.rng.choice(["1.5", "0.5", "10.0"])}])
        cq = gentie.chain_q("e", ch)
        q = {"k": "Select", "s": {"k": "ds"}, "x": "e", "f": {"k": "dict", "ks": ["c0_pt"], "es": [
            {"k": "if", "c": {"k": "cmp", "op": "==", "a": {"k": "Count", "s": cq}, "b": {"k": "int", "v": 0}}, "a": d, "b": {"k": "First", "s": gentie.chain_q("e", ch)}}]}}
        r = P.translate_functional(b, qgen.render_functional(q, qgen.metadata(b)))
        evs = [qgen.gen_event(ctx.rng, b, qgen.banks_used(q), empty_bias=0.4) for _ in range(3)]
        reqs.append({"op": "guarded", "backend": b, "colls": gentie.colls_json(b), "name": "c0_pt", "chain": ch, "d": d, "events": evs})
        meta.append((b, q, r))
    outs = ctx.driver(DRIVER, reqs)
    for (b, q, r), o in zip(meta, outs):
        src = qgen.render_functional(q, [])
        ctx.count("stream:guarded-tie")
        ctx.case(f"{b}|{src}", True, {"backend": b, "query": src})
        if "bad" in o:
            ctx.disagreement("Gen.compileGuarded (driver)", {"backend": b, "source": src}, o, None)
            continue
        if not r["ok"]:
            ctx.violation(key=f"{b}|{src}", what=f"the guard idiom around First() is refused ({r['error']})", case={"backend": b, "source": src}, observed=r)
            continue
        dff = gentie.first_diff(gentie.model_canon(o), gentie.impl_canon(r))
        if dff is None:
            ctx.count("guarded-tie:text-agree")
        else:
            ctx.count("guarded-tie:text-differ")
            ctx.disagreement("Gen.compileGuarded vs translator (text modulo renaming)", {"backend": b, "source": src, "first_difference": dff}, o.get("body"), r["query"])
        for ex, de in zip(o["exec"], o["denote"]):
            ok, why = cgroup.same_outcome(ex, de)
            if not ok or "fault" in ex:
                ctx.disagreement("Gen.compileGuarded executed vs denote (model instance: never faults)", {"backend": b, "source": src}, ex, de)
                break


FIRST_LAZY_DRIVER = "FaxVerif/Gen/FirstLazyDriver.lean"
LAZY_TOP = ("and", "or", "if")


def first_lazy_source(name, ch, v, mds):
    """`Select(ds0, lambda e: {name: e.coll(bank).<steps>.Select(lambda v: V).First()})` as the backend receives it"""
    import json

    import gentie_lazy

    s = "ds0"
    for d in mds:
        s = f"MetaData({s}, {d!r})"
    c = f"e.{ch['coll']}({json.dumps(ch['bank'])})"
    for i, st in enumerate(ch["steps"]):
        x = f"x{i}"
        c = f"{c}.{'Select' if st['k'] == 'sel' else 'Where'}(lambda {x}: {gentie_lazy.le_src(x, st['e'])})"
    c = f"{c}.Select(lambda v: {gentie_lazy.le_src('v', v)}).First()"
    return f"Select({s}, lambda e: {{{json.dumps(name)}: {c}}})"


def first_lazy_tie(ctx, n):
    """Text tie for C04.first_of_lazy_select_is_first / first_of_lazy_select_empty_loud: the model's package for
    `ds.Select(e -> {name: chain.Select(x -> V).First()})` (Gen.compileFirstL; V a lazy expression: and / or / if-else,
    nested; the chain with pure Selects and lazy Wheres) against the real translator's, modulo a bijective renaming of
    declared identifiers, on all three backends; the model's package is executed on events with null elements and
    missing accessors against the denotation (where the query is defined the rows are equal: never a later element's
    value, never a spurious fault), and so is the IMPLEMENTATION's own text whenever it differs from the model's."""
    import gentie
    import gentie_lazy

    reqs, meta = [], []
    for i in range(n):
        b = P.BACKENDS[i % 3]
        g = gentie_lazy.LazyGen(ctx.rng)
        ch, cur = g.chain()
        for _ in range(8):
            ty = ctx.rng.choice(["double", "double", "bool", "bool"] + (["int"] if cur is None else []))
            v = g.dep(g.le(cur, ty, ctx.rng.choice([1, 2, 2, 3])), cur, ty)
            if v["k"] in LAZY_TOP or ctx.rng.random() < 0.08:
                break
        name = f"c0_{ctx.rng.choice(['pt', 'eta', 'n'])}"
        r = P.translate_functional(b, first_lazy_source(name, ch, v, qgen.metadata(b)))
        # one well-formed event with >= 2 elements whose first and last differ, two with null elements / missing accessors
        evs = [qgen.enrich_event(qgen.gen_event(ctx.rng, b, {ch["bank"]: ch["coll"]}, empty_bias=0.0))] + [gentie_lazy.gen_event(ctx.rng, b, {"c": ch}) for _ in range(2)]
        reqs.append({"op": "firstL", "backend": b, "colls": gentie.colls_json(b), "name": name, "c": ch, "v": v, "events": evs})
        meta.append((b, name, ch, v, r, evs))
    outs = ctx.driver(FIRST_LAZY_DRIVER, reqs)
    differ = []
    for (b, name, ch, v, r, evs), o in zip(meta, outs):
        src = first_lazy_source(name, ch, v, [])
        case = {"backend": b, "source": src, "chain": ch, "value": v}
        ctx.count("stream:first-lazy-tie")
        ctx.count("first-lazy-tie:value-" + v["k"])
        ctx.case(f"{b}|{src}", True, {"backend": b, "query": src})
        if "bad" in o:
            ctx.disagreement("Gen.compileFirstL (driver)", case, o, None)
            continue
        ctx.count("first-lazy-tie:" + ("inside-proved-fragment" if o.get("wt") else "outside-proved-fragment"))
        if not r["ok"]:
            ctx.violation(key=f"first-lazy|{b}|{src}", what=f"First() over a projection with a lazy value is refused ({r['error']})", case=case, observed=r)
            continue
        dff = gentie.first_diff(gentie.model_canon(o), gentie.impl_canon(r))
        if dff is None:
            ctx.count("first-lazy-tie:text-agree")
        else:
            ctx.count("first-lazy-tie:text-differ")
            differ.append((case, dff, o, r, name, ch, v, evs, b))
        # the model instance: where the query is defined the package writes exactly its row
        for ex, de in zip(o["exec"], o["denote"]):
            ctx.count("first-lazy-tie:event-query-" + cgroup.fault_class(de))
            ok, why = gentie_lazy._same_outcome(ex, de, bool(o.get("wt")))
            if not ok:
                ctx.disagreement("Gen.compileFirstL executed vs denote (model instance)", case, ex, de)
                break
    # a text difference is not yet a violation: the implementation's own output is executed against the denotation
    for case, dff, o, r, name, ch, v, evs, b in differ[:12]:
        q = first_lazy_query(name, ch, v)
        good = [qgen.gen_event(ctx.rng, b, {ch["bank"]: ch["coll"]}, empty_bias=0.2) for _ in range(2)]
        for ev in good:
            qgen.enrich_event(ev)
        c = cgroup.Case(b, q, [name], "select", good + [qgen.gen_event(ctx.rng, b, {ch["bank"]: ch["coll"]}, empty_bias=1.0)])
        _P.evaluate(ctx, [c])
        hit = judge(c)
        if hit is not None and hit.get("kind") != "broken":
            ctx.violation(key=c.key(), what=hit["what"], case=c.to_json(), observed=hit.get("observed"), how=_P.how)
            return
    if differ:
        case, dff, o, r = differ[0][:4]
        ctx.disagreement("Gen.compileFirstL vs translator (text modulo renaming)", dict(case, first_difference=dff), o.get("body"), r["query"])


def _le_q(x, e):
    """LE JSON (gentie_lazy) -> the user-level query JSON of tools/qgen.py"""
    k = e["k"]
    R = lambda a: _le_q(x, a)
    if k in ("int", "dbl", "bool"):
        return dict(e)
    if k == "it":
        return {"k": "var", "n": x}
    if k == "meth":
        return {"k": "meth", "o": {"k": "var", "n": x}, "n": e["n"]}
    if k in ("bin", "cmp"):
        return {"k": k, "op": e["op"], "a": R(e["a"]), "b": R(e["b"])}
    if k in ("neg", "not"):
        return {"k": k, "a": R(e["a"])}
    if k in ("and", "or"):
        acc = R(e["xs"][0])
        for nxt in e["xs"][1:]:
            acc = {"k": k, "flat": True, "a": acc, "b": R(nxt)}
        return acc
    if k == "if":
        return {"k": "if", "c": R(e["c"]), "a": R(e["a"]), "b": R(e["b"])}
    raise ValueError(k)


def first_lazy_query(name, ch, v):
    s = {"k": "coll", "e": {"k": "var", "n": "e"}, "c": ch["coll"], "bank": ch["bank"]}
    for i, st in enumerate(ch["steps"]):
        s = {"k": "Select" if st["k"] == "sel" else "Where", "s": s, "x": f"x{i}", "f": _le_q(f"x{i}", st["e"])}
    s = {"k": "Select", "s": s, "x": "v", "f": _le_q("v", v)}
    return {"k": "Select", "s": {"k": "ds"}, "x": "e", "f": {"k": "dict", "ks": [name], "es": [{"k": "First", "s": s}]}}


class _C04(CompilerProp):
    def run(self, ctx):
        guarded_tie(ctx, 40 if ctx.tier == "quick" else 400)
        first_lazy_tie(ctx, 60 if ctx.tier == "quick" else 600)
        from props.c01 import lazy_tie_stream

        lazy_tie_stream(ctx, 90 if ctx.tier == "quick" else 900)
        self.stream(ctx, neg_index_cases(ctx), "negative-index(too short)")
        super().run(ctx)


_P = _C04(ID, gen, judge, 180, 2000, after=after, use_gxx=True)
run, search, replay = _P.run, _P.search, _P.replay
