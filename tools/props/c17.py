"""C17 — local docker execution runs the right image on the right files, or raises.

Model:  lean/FaxVerif/C17/Model.lean (hand model of LocalDataset.__init__ / execute_result_async /
        _extract_result_TTree and of the image override in common/executor.py).
Tie T:  translate() regenerates lean/FaxVerif/Generated/C17Backends.lean (per-backend default image/tag,
        cache volumes, executor class, package file list, runner, result-file names) from the three
        */local_dataset.py, the three executors, the three runner.sh templates, common/local_dataset.py and
        ast_to_cpp_translator.py on every run; table lemmas are re-proved by `decide`.
Tie K:  the real constructor and the real execute_result_async (through ObjectStream.value_async / asyncio) run
        with the stand-in python_on_whales of tools/c17_stubs on generated cases; the observation (arguments
        docker.run received, filelist.txt seen by the "container", returned paths, exception class, leftover temp
        directories) is compared with the model's and the decidable Spec is evaluated on it by the Lean driver.
"""
from __future__ import annotations

import ast
import copy
import json
import os
import re
import subprocess
import sys
from concurrent.futures import ProcessPoolExecutor
from pathlib import Path
from typing import Any, Dict, List, Optional, Tuple

ID = "C17"
LEAN_MODULES = ["FaxVerif.C17.Theorems"]
LEAN_SOURCES = ["FaxVerif/C17", "FaxVerif/Generated/C17Backends.lean"]
DRIVER = "FaxVerif/C17/Driver.lean"
THEOREMS = [
    "FaxVerif.C17.validate_first",
    "FaxVerif.C17.constructor_exact",
    "FaxVerif.C17.filelist",
    "FaxVerif.C17.filelist_names_the_files",
    "FaxVerif.C17.name_has_no_slash",
    "FaxVerif.C17.image",
    "FaxVerif.C17.image_default_without_docker_md",
    "FaxVerif.C17.volumes",
    "FaxVerif.C17.call_exactly_when_runnable",
    "FaxVerif.C17.plan_is_the_call",
    "FaxVerif.C17.failure_propagates",
    "FaxVerif.C17.failure_class",
    "FaxVerif.C17.missing_result",
    "FaxVerif.C17.success_returns",
    "FaxVerif.C17.returns_only_on_success",
    "FaxVerif.C17.result_is_plan_then_finish",
    "FaxVerif.C17.pulled_count",
    "FaxVerif.C17.output_content_irrelevant",
    "FaxVerif.C17.tempdir_released",
    "FaxVerif.C17.machine",
    "FaxVerif.C17.spec_holds",
    "FaxVerif.C17.step_ignores_shared_state",
    "FaxVerif.C17.sequence_independent",
    "FaxVerif.C17.sequence_refused",
    "FaxVerif.C17.spec_sequence",
    "FaxVerif.C17.image_sequence",
    "FaxVerif.C17.spec_generated",
    "FaxVerif.C17.generated_recognised",
    "FaxVerif.C17.generated_backends_wellformed",
]
RULE = (
    "cases = backend (3) x file list (1-5 entries over a fixed layout of 3 directories: same directory / different "
    "directories / lexically different spelling of one directory / missing file / empty list / a directory given as file; "
    "spellings with //, /./, trailing slash, // and /// roots, relative paths against a cwd; list of str / list of Path / "
    "tuple / single str / single Path) x image,tag (defaults or drawn) x output directory (none / existing / missing) x "
    "query metadata (0-3 docker entries with or without image key, before and after the Select, other metadata, one "
    "unknown metadata type) x container outcome (0-4 chunks of stdout/stderr incl. multi-byte UTF-8, Latin-1 bytes and "
    "multi-byte characters split over two chunks; success, "
    "DockerException or another exception raised by docker.run itself or after chunk k; result file written or not). "
    "About 30% of the drawn cases run 1-2 FURTHER executions on the same dataset object (own metadata, own outcome; "
    "biased to 'docker metadata, then none'), the Spec being applied to every execution with its own query. "
    "A small grid (file-list kind x metadata shape x outcome kind; all ordered pairs of metadata shapes as two executions "
    "on one dataset object) is enumerated, the rest is drawn from VERIF_SEED. "
    "A case is non-trivial when the constructor accepts it and it has >=2 executions or >=2 files or >=1 docker metadata or a "
    "non-success outcome; distinct = distinct case description."
)
TRUSTED_BASE = [
    "hand model of LocalDataset (Model.lean) tied to the code by the correspondence stream of this run",
    "translator of the per-backend facts (tools/props/c17.py translate): Python ast of the three local_dataset.py and executors, regex on runner.sh",
    "the stand-in python_on_whales (tools/c17_stubs) plays docker: it records its arguments and follows the script; real docker / python_on_whales behaviour is not verified",
    "the harness tools/props/c17.py + tools/c17_harness/impl.py (generators, canonicalisation of volumes / exception classes / temp-dir census)",
    "tempfile.TemporaryDirectory removes the directory on every exit of the with-block (CPython contract; checked by the leftover census in every case)",
    "pathlib.PurePosixPath parsing is modelled (parsePath) and compared with pathlib on every file argument of every case",
]
ASSUMPTIONS = [
    "POSIX paths; file arguments and output directory are str or pathlib.Path",
    "'share one directory' is lexical (Path.parent equality), as in the code: d0/../d0/a.root and d0/b.root count as different directories",
    "the query's result is a TTree (every query the three executors accept) and no directory named like the result file exists in the output directory",
    "the container leaves only UTF-8 text files or .root files in /results (the debug dump reads every other file as text)",
]

sys.path.insert(0, str(Path(__file__).resolve().parent.parent))
import vlib  # noqa: E402

GENERATED = vlib.LEAN / "FaxVerif" / "Generated" / "C17Backends.lean"
BACKEND_FILES = [
    ("atlas", "func_adl_xAOD/atlas/xaod/local_dataset.py"),
    ("cms_aod", "func_adl_xAOD/cms/aod/local_dataset.py"),
    ("cms_miniaod", "func_adl_xAOD/cms/miniaod/local_dataset.py"),
]
UNREC = "<unrecognised>"

# ------------------------------------------------------------------------------------------------
# translator (tie T)
# ------------------------------------------------------------------------------------------------


class Unrec(Exception):
    pass


def _const_str(node: Optional[ast.AST], what: str) -> str:
    if isinstance(node, ast.Constant) and isinstance(node.value, str):
        return node.value
    raise Unrec(f"{what}: not a string literal: {ast.unparse(node) if node is not None else 'missing'}")


def _find_method(cls: ast.ClassDef, name: str) -> ast.FunctionDef:
    for n in cls.body:
        if isinstance(n, (ast.FunctionDef, ast.AsyncFunctionDef)) and n.name == name:
            return n  # type: ignore
    raise Unrec(f"class {cls.name} has no method {name}")


def _arg_defaults(fn: ast.FunctionDef) -> Dict[str, Optional[ast.AST]]:
    args = fn.args.args
    defaults: List[Optional[ast.AST]] = [None] * (len(args) - len(fn.args.defaults)) + list(fn.args.defaults)
    return {a.arg: d for a, d in zip(args, defaults)}


def _imports(tree: ast.Module) -> Dict[str, str]:
    res = {}
    for n in tree.body:
        if isinstance(n, ast.ImportFrom) and n.module:
            for a in n.names:
                res[a.asname or a.name] = n.module
    return res


def _real_body(fn: ast.FunctionDef) -> List[ast.stmt]:
    body = list(fn.body)
    if body and isinstance(body[0], ast.Expr) and isinstance(body[0].value, ast.Constant) and isinstance(body[0].value.value, str):
        body = body[1:]
    return body


def _single_return(fn: ast.FunctionDef, what: str) -> ast.AST:
    body = _real_body(fn)
    if len(body) == 1 and isinstance(body[0], ast.Return) and body[0].value is not None:
        return body[0].value
    raise Unrec(f"{what}: body is not a single return: {ast.unparse(fn)[:200]}")


def _super_init_args(fn: ast.FunctionDef, what: str) -> List[ast.AST]:
    calls = []
    for st in _real_body(fn):
        for n in ast.walk(st):
            if (
                isinstance(n, ast.Call)
                and isinstance(n.func, ast.Attribute)
                and n.func.attr == "__init__"
                and isinstance(n.func.value, ast.Call)
                and isinstance(n.func.value.func, ast.Name)
                and n.func.value.func.id == "super"
            ):
                calls.append(n)
    if len(calls) != 1 or calls[0].keywords:
        raise Unrec(f"{what}: expected exactly one positional super().__init__(...) call")
    return list(calls[0].args)


def translate_executor(repo: Path, module: str, cls_name: str) -> Dict[str, Any]:
    path = repo / (module.replace(".", "/") + ".py")
    tree = ast.parse(path.read_text())
    cls = next((n for n in tree.body if isinstance(n, ast.ClassDef) and n.name == cls_name), None)
    if cls is None:
        raise Unrec(f"{module}: no class {cls_name}")
    init = _find_method(cls, "__init__")
    env: Dict[str, Optional[ast.AST]] = dict(_arg_defaults(init))
    for st in _real_body(init):
        if isinstance(st, ast.Assign) and len(st.targets) == 1 and isinstance(st.targets[0], ast.Name):
            env[st.targets[0].id] = st.value
        elif isinstance(st, ast.AnnAssign) and isinstance(st.target, ast.Name) and st.value is not None:
            env[st.target.id] = st.value
    sargs = _super_init_args(init, f"{cls_name}.__init__")
    if len(sargs) < 3:
        raise Unrec(f"{cls_name}.__init__: super().__init__ has fewer than 3 arguments")

    def resolve(n: ast.AST) -> ast.AST:
        if isinstance(n, ast.Name) and n.id in env and env[n.id] is not None:
            return env[n.id]  # type: ignore
        return n

    fn_node = resolve(sargs[0])
    if not isinstance(fn_node, (ast.List, ast.Tuple)):
        raise Unrec(f"{cls_name}: file_names is not a list literal: {ast.unparse(fn_node)}")
    file_names = [_const_str(e, f"{cls_name} file_names entry") for e in fn_node.elts]
    runner = _const_str(resolve(sargs[1]), f"{cls_name} runner_name")
    template_dir = _const_str(resolve(sargs[2]), f"{cls_name} template_dir_name")
    return {"fileNames": file_names, "runner": runner, "templateDir": template_dir}


def translate_runner(repo: Path, template_dir: str, runner: str) -> Dict[str, Any]:
    """Three facts of the rendered script (the templates carry no jinja directive on these lines): the default
    output directory, the name of the file it leaves there, the file list it looks for next to itself — plus the
    cache directories it expects to be mounted."""
    text = (repo / template_dir / runner).read_text()
    m_out = re.findall(r'^\s*output_dir="([^"]*)"\s*$', text, re.M)
    names = set(re.findall(r"^\s*destination=\$output_dir/(\S+)\s*$", text, re.M))
    if not names and re.search(r"^\s*destination=\$output_dir\s*$", text, re.M):
        # `cp <dir>/<file> $destination` into the directory: the file keeps its name
        names = {x.rsplit("/", 1)[-1] for x in re.findall(r'^\s*\$cmd\s+(\S+)\s+"?\$destination"?\s*$', text, re.M)}
    m_fl = set(re.findall(r"-e \$DIR/(\S+) \]", text))
    if len(m_out) != 1:
        raise Unrec(f"{template_dir}/{runner}: default output_dir not found exactly once")
    if len(names) != 1:
        raise Unrec(f"{template_dir}/{runner}: the name of the file copied to $output_dir was not found (candidates {sorted(names)})")
    if len(m_fl) != 1:
        raise Unrec(f"{template_dir}/{runner}: `[ -e $DIR/<filelist> ]` not found with a single file name")
    caches = re.findall(r'^\s*calib_cache="([^"]*)"\s*$', text, re.M)
    return {"runnerOutputDir": m_out[0], "runnerResultName": names.pop(), "runnerFilelist": m_fl.pop(), "runnerCacheDirs": caches}


def translate_backend(repo: Path, key: str, rel: str, unrec: List[str]) -> Dict[str, Any]:
    row: Dict[str, Any] = {
        "key": key, "module": rel[:-3].replace("/", "."), "datasetClass": UNREC, "defaultImage": UNREC, "defaultTag": UNREC,
        "cacheVolumes": [], "executorClass": UNREC, "runner": UNREC, "fileNames": [], "templateDir": UNREC,
        "runnerResultName": UNREC, "runnerOutputDir": UNREC, "runnerFilelist": UNREC, "runnerCacheDirs": [],
    }

    def attempt(what: str, fn):
        try:
            return fn()
        except Unrec as e:
            unrec.append(f"{rel}: {e}")
        except Exception as e:  # the translator must never crash
            unrec.append(f"{rel}: {what}: {type(e).__name__}: {e}")
        return None

    tree = attempt("parse", lambda: ast.parse((repo / rel).read_text()))
    if tree is None:
        return row
    classes = [
        n for n in tree.body
        if isinstance(n, ast.ClassDef) and any(isinstance(b, ast.Name) and b.id == "LocalDataset" for b in n.bases)
    ]
    if len(classes) != 1:
        unrec.append(f"{rel}: expected exactly one subclass of LocalDataset, found {len(classes)}")
        return row
    cls = classes[0]
    row["datasetClass"] = cls.name

    def ctor():
        init = _find_method(cls, "__init__")
        d = _arg_defaults(init)
        names = [a.arg for a in init.args.args]
        if names != ["self", "files", "docker_image", "docker_tag", "output_directory"]:
            raise Unrec(f"{cls.name}.__init__ parameters are {names}")
        # the defaults first: they are what they are, whatever else the body does
        row["defaultImage"] = _const_str(d["docker_image"], f"{cls.name} docker_image default")
        row["defaultTag"] = _const_str(d["docker_tag"], f"{cls.name} docker_tag default")
        sargs = _super_init_args(init, f"{cls.name}.__init__")
        if [ast.unparse(a) for a in sargs] != ["files", "docker_image", "docker_tag", "output_directory"]:
            raise Unrec(f"{cls.name}.__init__ does not forward (files, docker_image, docker_tag, output_directory) unchanged")
        for st in _real_body(init):
            # besides the forwarding call only `self.<attr> = <literal>` (e.g. a cache slot) is understood
            is_super = isinstance(st, ast.Expr) and isinstance(st.value, ast.Call) and "super()" in ast.unparse(st.value.func)
            tgt = st.targets[0] if isinstance(st, ast.Assign) and len(st.targets) == 1 else (st.target if isinstance(st, ast.AnnAssign) else None)
            is_slot = (
                tgt is not None and isinstance(tgt, ast.Attribute) and isinstance(tgt.value, ast.Name) and tgt.value.id == "self"
                and isinstance(getattr(st, "value", None), ast.Constant)
            )
            if not (is_super or is_slot):
                raise Unrec(f"{cls.name}.__init__ does more than forwarding to LocalDataset.__init__: {ast.unparse(st)[:120]}")
        if not (isinstance(d["output_directory"], ast.Constant) and d["output_directory"].value is None):
            raise Unrec(f"{cls.name}.__init__ output_directory default is not None")

    attempt("constructor", ctor)

    def cache():
        ret = _single_return(_find_method(cls, "docker_cache_volume"), f"{cls.name}.docker_cache_volume")
        if not isinstance(ret, ast.List):
            raise Unrec(f"{cls.name}.docker_cache_volume does not return a list literal")
        vols = []
        for e in ret.elts:
            if not (isinstance(e, ast.Call) and isinstance(e.func, ast.Name) and e.func.id == "docker_volume_info"):
                raise Unrec(f"{cls.name}.docker_cache_volume entry is not docker_volume_info(...): {ast.unparse(e)}")
            kw = {k.arg: k.value for k in e.keywords}
            pos = list(e.args)
            name = kw.get("docker_name", pos[0] if len(pos) > 0 else None)
            mount = kw.get("mount_point", pos[1] if len(pos) > 1 else None)
            vols.append((_const_str(name, "docker_name"), _const_str(mount, "mount_point")))
        row["cacheVolumes"] = vols

    attempt("cache volumes", cache)

    def executor_classes(fn: ast.FunctionDef) -> set:
        """Which executor class(es) the method can return: every `return` is `<Class>()` or `self.<attr>`, where every
        assignment to `self.<attr>` anywhere in the dataset class is `<Class>()` or `None` (a cached executor)."""
        def ctor_name(v: ast.AST) -> Optional[str]:
            if isinstance(v, ast.Call) and isinstance(v.func, ast.Name) and not v.args and not v.keywords:
                return v.func.id
            return None

        def self_attr(v: ast.AST) -> Optional[str]:
            if isinstance(v, ast.Attribute) and isinstance(v.value, ast.Name) and v.value.id == "self":
                return v.attr
            return None

        names: set = set()
        rets = [n for n in ast.walk(fn) if isinstance(n, ast.Return)]
        if not rets:
            raise Unrec(f"{cls.name}.get_executor_obj has no return")
        for r in rets:
            if r.value is None:
                raise Unrec(f"{cls.name}.get_executor_obj has a bare return")
            c = ctor_name(r.value)
            if c is not None:
                names.add(c)
                continue
            attr = self_attr(r.value)
            if attr is None:
                raise Unrec(f"{cls.name}.get_executor_obj returns something that is neither <executor class>() nor self.<attr>: {ast.unparse(r.value)}")
            found = False
            for n in ast.walk(cls):
                targets, value = [], None
                if isinstance(n, ast.Assign):
                    targets, value = n.targets, n.value
                elif isinstance(n, ast.AnnAssign) and n.value is not None:
                    targets, value = [n.target], n.value
                for t in targets:
                    if self_attr(t) == attr:
                        if isinstance(value, ast.Constant) and value.value is None:
                            continue
                        c = ctor_name(value)
                        if c is None:
                            raise Unrec(f"{cls.name}: self.{attr} is assigned something that is not <executor class>(): {ast.unparse(value)}")
                        names.add(c)
                        found = True
            if not found:
                raise Unrec(f"{cls.name}: self.{attr} is returned by get_executor_obj but never assigned an executor")
        return names

    def exe():
        names = executor_classes(_find_method(cls, "get_executor_obj"))
        if len(names) != 1:
            raise Unrec(f"{cls.name}.get_executor_obj can return several executor classes: {sorted(names)}")
        ename = names.pop()
        row["executorClass"] = ename
        mod = _imports(tree).get(ename)
        if mod is None:
            raise Unrec(f"{rel}: {ename} is not imported with `from ... import`")
        row.update(translate_executor(repo, mod, ename))
        row.update(translate_runner(repo, row["templateDir"], row["runner"]))

    attempt("executor", exe)
    return row


def translate_common(repo: Path, unrec: List[str]) -> Dict[str, str]:
    res = {"volumePrefix": UNREC, "resultFileName": UNREC}
    try:
        tree = ast.parse((repo / "func_adl_xAOD/common/local_dataset.py").read_text())
        fn = next(n for n in tree.body if isinstance(n, ast.FunctionDef) and n.name == "_docker_volume_name")
        ret = _single_return(fn, "_docker_volume_name")
        if (
            isinstance(ret, ast.BinOp) and isinstance(ret.op, ast.Add) and isinstance(ret.left, ast.Constant)
            and isinstance(ret.left.value, str) and ast.unparse(ret.right) == f"{fn.args.args[0].arg}.docker_name"
        ):
            res["volumePrefix"] = ret.left.value
        else:
            unrec.append(f"common/local_dataset.py: _docker_volume_name is not `<literal> + info.docker_name`: {ast.unparse(ret)}")
    except Exception as e:
        unrec.append(f"common/local_dataset.py: _docker_volume_name: {type(e).__name__}: {e}")
    try:
        tree = ast.parse((repo / "func_adl_xAOD/common/ast_to_cpp_translator.py").read_text())
        names = set()
        for n in ast.walk(tree):
            if isinstance(n, ast.Call) and ((isinstance(n.func, ast.Attribute) and n.func.attr == "cpp_ttree_rep") or (isinstance(n.func, ast.Name) and n.func.id == "cpp_ttree_rep")):
                names.add(_const_str(n.args[0] if n.args else None, "cpp_ttree_rep file name"))
        if len(names) == 1:
            res["resultFileName"] = names.pop()
        else:
            unrec.append(f"common/ast_to_cpp_translator.py: cpp_ttree_rep(...) file names found: {sorted(names)}")
    except Exception as e:
        unrec.append(f"common/ast_to_cpp_translator.py: result file name: {type(e).__name__}: {e}")
    return res


def read_table(repo: Path) -> Dict[str, Any]:
    unrec: List[str] = []
    rows = [translate_backend(repo, key, rel, unrec) for key, rel in BACKEND_FILES]
    common = translate_common(repo, unrec)
    return {"rows": rows, "unrecognised": unrec, **common}


def render_table(t: Dict[str, Any]) -> str:
    ls = vlib.lean_str
    out = [
        "/-",
        "GENERATED by tools/props/c17.py (translate) from the working tree of /repo — do not edit.",
        "Sources: func_adl_xAOD/{atlas/xaod,cms/aod,cms/miniaod}/local_dataset.py, the executor each of them returns,",
        "that executor's runner.sh template, common/local_dataset.py (_docker_volume_name),",
        "common/ast_to_cpp_translator.py (file name in cpp_ttree_rep).",
        "-/",
        "namespace FaxVerif.Generated.C17",
        "",
        "/-- What one `LocalDataset` subclass contributes. -/",
        "structure BackendRow where",
        "  key : String",
        "  datasetClass : String",
        "  defaultImage : String",
        "  defaultTag : String",
        "  /-- `docker_cache_volume()`: (docker_name, mount_point) -/",
        "  cacheVolumes : List (String × String)",
        "  executorClass : String",
        "  /-- `runner_name` of the executor (the main script) -/",
        "  runner : String",
        "  /-- `file_names` of the executor (the package) -/",
        "  fileNames : List String",
        "  templateDir : String",
        "  /-- runner.sh: `destination=$output_dir/<this>` -/",
        "  runnerResultName : String",
        "  /-- runner.sh: default `output_dir` -/",
        "  runnerOutputDir : String",
        "  /-- runner.sh: the file list it looks for next to itself -/",
        "  runnerFilelist : String",
        "  /-- runner.sh: cache directories it uses when they are mounted (`calib_cache=`) -/",
        "  runnerCacheDirs : List String",
        "deriving Repr, DecidableEq, Inhabited",
        "",
        "def backends : List BackendRow := [",
    ]
    rows = []
    for r in t["rows"]:
        cv = vlib.lean_list(f"({ls(a)}, {ls(b)})" for a, b in r["cacheVolumes"])
        rows.append(
            "  { "
            + f"key := {ls(r['key'])}, datasetClass := {ls(r['datasetClass'])},\n"
            + f"    defaultImage := {ls(r['defaultImage'])}, defaultTag := {ls(r['defaultTag'])},\n"
            + f"    cacheVolumes := {cv},\n"
            + f"    executorClass := {ls(r['executorClass'])}, runner := {ls(r['runner'])},\n"
            + f"    fileNames := {vlib.lean_list(ls(x) for x in r['fileNames'])},\n"
            + f"    templateDir := {ls(r['templateDir'])},\n"
            + f"    runnerResultName := {ls(r['runnerResultName'])}, runnerOutputDir := {ls(r['runnerOutputDir'])}, runnerFilelist := {ls(r['runnerFilelist'])},\n"
            + f"    runnerCacheDirs := {vlib.lean_list(ls(x) for x in r['runnerCacheDirs'])}"
            + " }"
        )
    out.append(",\n".join(rows))
    out += [
        "]",
        "",
        "/-- `_docker_volume_name`: prefix put before `docker_name` -/",
        f"def volumePrefix : String := {ls(t['volumePrefix'])}",
        "",
        "/-- file name of every `cpp_ttree_rep` the translator returns -/",
        f"def resultFileName : String := {ls(t['resultFileName'])}",
        "",
        "/-- what the translator could not read (must be empty: theorem `generated_recognised`) -/",
        f"def unrecognised : List String := {vlib.lean_list(ls(x) for x in t['unrecognised'])}",
        "",
        "end FaxVerif.Generated.C17",
        "",
    ]
    return "\n".join(out)


_TABLE: Optional[Dict[str, Any]] = None


def table() -> Dict[str, Any]:
    global _TABLE
    if _TABLE is None:
        _TABLE = read_table(vlib.REPO)
    return _TABLE


_RUN_ROWS: Optional[Dict[str, Dict[str, Any]]] = None


def rows_by_key() -> Dict[str, Dict[str, Any]]:
    """Rows used to RUN cases. Where the static translation of a row failed (the obligation over the generated table is
    then broken anyway) the missing run-time facts are read off the live class, so that the failing-input search can
    still execute that backend."""
    global _RUN_ROWS
    if _RUN_ROWS is None:
        rows = {r["key"]: dict(r) for r in table()["rows"]}
        for r in rows.values():
            if r["datasetClass"] != UNREC and (UNREC in (r["runner"], r["runnerResultName"]) or not r["fileNames"]):
                try:
                    import importlib

                    sys.path.insert(0, str(Path(__file__).resolve().parent.parent / "c17_stubs"))
                    cls = getattr(importlib.import_module(r["module"]), r["datasetClass"])
                    exe = cls(Path(__file__)).get_executor_obj()
                    r["runner"], r["fileNames"] = exe._runner_name, list(exe._file_names)
                    if r["runnerResultName"] == UNREC:
                        r["runnerResultName"] = table()["resultFileName"]
                    r["live_fallback"] = True
                except Exception:
                    pass
        _RUN_ROWS = rows
    return _RUN_ROWS


def translate(ctx):
    t = table()
    vlib.write_if_changed(GENERATED, render_table(t))
    ctx.extra_cov["generated_table"] = {
        r["key"]: {k: r[k] for k in ("datasetClass", "defaultImage", "defaultTag", "cacheVolumes", "executorClass", "runner", "fileNames", "runnerResultName")}
        for r in t["rows"]
    }
    if t["unrecognised"]:
        ctx.notes.append("translator: " + "; ".join(t["unrecognised"]))


# ------------------------------------------------------------------------------------------------
# generators
# ------------------------------------------------------------------------------------------------

BACKENDS = [k for k, _ in BACKEND_FILES]
IMAGES = ["atlas/analysisbase", "my/img", "registry.example:5000/a/b", "img"]
TAGS = ["latest", "21.2.197", "v1", "x_y-z"]
MD_IMAGES = ["crazy/atlas:latest", "other/img:2", "plain", "a/b:c"]
OTHER_MD = {"metadata_type": "add_method_type_info", "type_string": "my_namespace::obj", "method_name": "pT", "return_type": "int"}
BAD_MD = {"metadata_type": "no_such_metadata_type", "x": "y"}
TEXTS = ["hello\n", "", "line 1\nline 2\n", "café\n", "日本\n", "ok \U0001F600\n", "Warning: x\n", "100%\r"]

DIR_FILES = {"{B}/d0": ["a.root", "b.root", "c.root"], "{B}/d1": ["a.root", "z.root"], "{B}/d0/sub": ["s.root"]}


# byte strings that are NOT valid UTF-8 (already in the latin-1 carrier form): Latin-1 text, the two halves of a split
# multi-byte character, a lone 0xff, a truncated 4-byte sequence
RAW_CHUNKS = ["caf\xe9\n", "\xc3", "\xa9\n", "\xff", "\xf0\x9f\x98", "ok \xe9\xe8 \x80\n"]


def latin(text: str) -> str:
    """UTF-8 bytes of `text`, carried as a latin-1 string (JSON-able bytes)."""
    return text.encode("utf-8").decode("latin-1")


def respell(rng, path: str) -> str:
    """Another spelling pathlib maps to the same path (or, for `//`, to the same file)."""
    k = rng.randrange(6)
    tail = path[len("{B}"):]
    idx = [i for i, c in enumerate(tail) if c == "/" and i > 0]
    if k == 0 and idx:
        i = rng.choice(idx)
        return "{B}" + tail[:i] + "//" + tail[i + 1:]
    if k == 1 and idx:
        i = rng.choice(idx)
        return "{B}" + tail[:i] + "/./" + tail[i + 1:]
    if k == 2:
        return path + "/"
    if k == 3:
        return "/" + path  # root `//`
    if k == 4:
        return "//" + path  # root `/` (three slashes)
    return path + "/."


def gen_files(rng, kind: str) -> Tuple[List[str], str]:
    dirs = list(DIR_FILES)
    cwd = ""
    if kind == "empty":
        return [], cwd
    if kind == "same":
        d = rng.choice(dirs)
        n = rng.choice([1, 1, 2, 2, 3, 4, 5])
        names = [rng.choice(DIR_FILES[d]) for _ in range(n)] if rng.random() < 0.25 else (rng.sample(DIR_FILES[d], min(n, len(DIR_FILES[d]))))
        files = [f"{d}/{x}" for x in names]
    elif kind == "different":
        d1, d2 = rng.sample(dirs, 2)
        n = rng.choice([2, 2, 3, 4])
        files = [f"{d1}/{rng.choice(DIR_FILES[d1])}" for _ in range(n - 1)]
        files.insert(rng.randrange(1, n) if rng.random() < 0.8 else 0, f"{d2}/{rng.choice(DIR_FILES[d2])}")
    elif kind == "dotdot":  # one directory, two lexical spellings of it
        files = ["{B}/d0/a.root", "{B}/d1/../d0/b.root"]
        if rng.random() < 0.5:
            files.reverse()
        if rng.random() < 0.3:
            files = ["{B}/d1/../d0/a.root", "{B}/d1/../d0/b.root"]  # the same spelling twice: accepted
    elif kind == "missing":
        d = rng.choice(dirs)
        n = rng.choice([1, 2, 3])
        files = [f"{d}/{rng.choice(DIR_FILES[d])}" for _ in range(n - 1)]
        files.insert(rng.randrange(n), rng.choice([f"{d}/nothere.root", "{B}/nodir/a.root", "/bad/path"]))
        if rng.random() < 0.3:
            files.append("{B}/d1/also_missing.root")
    elif kind == "dir_as_file":
        files = rng.choice([["{B}/d0/sub"], ["{B}/d0/a.root", "{B}/d0/sub"], ["/"]])
    elif kind == "relative":
        cwd = rng.choice(["{B}", "{B}/d0"])
        if cwd == "{B}":
            files = rng.choice([["d0/a.root"], ["d0/a.root", "d0/b.root"], ["./d0/a.root", "d0//c.root"], ["d0/a.root", "d1/a.root"]])
        else:
            files = rng.choice([["a.root"], ["a.root", "./b.root"], ["a.root", "sub/s.root"], ["../d1/z.root"]])
        return list(files), cwd
    else:
        raise ValueError(kind)
    files = [respell(rng, f) if (f.startswith("{B}") and rng.random() < 0.12) else f for f in files]
    return files, cwd


FILE_KINDS = ["same"] * 80 + ["different"] * 5 + ["dotdot"] * 2 + ["missing"] * 4 + ["empty"] * 1 + ["dir_as_file"] * 3 + ["relative"] * 5


def gen_mds(rng) -> Tuple[List[Dict[str, Any]], List[Dict[str, Any]]]:
    n = rng.choice([0, 0, 0, 0, 1, 1, 1, 1, 2, 2, 3])
    mds: List[Dict[str, Any]] = []
    for _ in range(n):
        if rng.random() < 0.8:
            mds.append({"metadata_type": "docker", "image": rng.choice(MD_IMAGES)})
        else:
            mds.append({"metadata_type": "docker"})
    for _ in range(rng.choice([0, 0, 0, 1, 2])):
        mds.insert(rng.randrange(len(mds) + 1), dict(OTHER_MD))
    if rng.random() < 0.02:
        mds.insert(rng.randrange(len(mds) + 1), dict(BAD_MD))
    k = rng.randrange(len(mds) + 1)
    return mds[:k], mds[k:]


def gen_outcome(rng) -> Dict[str, Any]:
    n = rng.choice([0, 1, 1, 2, 2, 3, 4])
    chunks = [[rng.choice(["stdout", "stdout", "stderr"]), rng.choice(RAW_CHUNKS) if rng.random() < 0.15 else latin(rng.choice(TEXTS))] for _ in range(n)]
    r = rng.random()
    ending = "success" if r < 0.88 else ("docker_error" if r < 0.96 else "other_error")
    at_call = ending != "success" and rng.random() < 0.3
    write_result = rng.random() < (0.96 if ending == "success" else 0.5)
    return {"chunks": chunks, "ending": ending, "at_call": at_call, "write_result": write_result}


def usable_backends() -> List[str]:
    """Backends whose row the translator could read far enough to run cases on them."""
    return [r["key"] for r in rows_by_key().values() if UNREC not in (r["datasetClass"], r["runner"]) and r["fileNames"]]


def gen_case(rng) -> Dict[str, Any]:
    files, cwd = gen_files(rng, rng.choice(FILE_KINDS))
    n = len(files)
    forms = ["list_str"] * 4 + ["list_path"] * 3 + ["tuple_path"]
    if n == 1:
        forms += ["single_str"] * 2 + ["single_path"] * 2
    r = rng.random()
    image, tag = (None, None) if r < 0.5 else ((rng.choice(IMAGES), rng.choice(TAGS)) if r < 0.85 else ((rng.choice(IMAGES), None) if r < 0.93 else (None, rng.choice(TAGS))))
    r = rng.random()
    outdir = None if r < 0.3 else ("{B}/out" if r < 0.85 else ("{B}/out/" if r < 0.9 else ("{B}//out/." if r < 0.97 else "{B}/nope")))
    before, after = gen_mds(rng)
    case = {
        "backend": rng.choice(usable_backends()), "files": files, "form": rng.choice(forms), "cwd": cwd, "image": image, "tag": tag,
        "outdir": outdir, "mds_before": before, "mds_after": after, "ttree": rng.random() < 0.3, "outcome": gen_outcome(rng),
    }
    if rng.random() < 0.3:  # further executions on the same dataset object
        more = []
        for _ in range(rng.choice([1, 1, 2])):
            b, a = gen_mds(rng)
            if rng.random() < 0.4:  # the interesting shape: no docker metadata after a query that had some
                b, a = [m for m in b if m.get("metadata_type") != "docker"], [m for m in a if m.get("metadata_type") != "docker"]
            more.append({"mds_before": b, "mds_after": a, "ttree": rng.random() < 0.3, "outcome": gen_outcome(rng)})
        case["more"] = more
    return case


def grid_cases(tier: str) -> List[Dict[str, Any]]:
    """Small exhaustive grid: file-list shape x metadata shape x outcome shape (x backend in thorough)."""
    file_shapes = [
        ["{B}/d0/a.root"], ["{B}/d0/a.root", "{B}/d0/b.root", "{B}/d0/c.root"], ["{B}/d0/a.root", "{B}/d1/a.root"],
        ["{B}/d0/a.root", "{B}/d0/b.root", "{B}/d1/z.root"], ["{B}/d0/a.root", "{B}/d0/nothere.root"], [],
    ]
    d = lambda i: {"metadata_type": "docker", "image": i}  # noqa: E731
    md_shapes = [
        ([], []), ([d("one:1")], []), ([], [d("one:1")]), ([d("inner:1")], [d("outer:2")]),
        ([{"metadata_type": "docker"}], [d("outer:2")]), ([d("inner:1"), dict(OTHER_MD)], [{"metadata_type": "docker"}]),
    ]
    ch = [["stdout", "a\n"], ["stderr", "caf\xe9\n"], ["stdout", latin("café\n")]]
    outcomes = [
        {"chunks": ch, "ending": "success", "at_call": False, "write_result": True},
        {"chunks": [], "ending": "success", "at_call": False, "write_result": True},
        {"chunks": ch[:1], "ending": "success", "at_call": False, "write_result": False},
        {"chunks": ch, "ending": "docker_error", "at_call": True, "write_result": False},
        {"chunks": [], "ending": "docker_error", "at_call": False, "write_result": False},
        {"chunks": ch[:1], "ending": "docker_error", "at_call": False, "write_result": True},
        {"chunks": ch[:2], "ending": "docker_error", "at_call": False, "write_result": False},
        {"chunks": ch, "ending": "docker_error", "at_call": False, "write_result": True},
        {"chunks": ch[:2], "ending": "other_error", "at_call": False, "write_result": True},
    ]
    if tier != "thorough":
        file_shapes = [file_shapes[1], file_shapes[3], file_shapes[4]]
        outcomes = [outcomes[0], outcomes[2], outcomes[3], outcomes[6], outcomes[8]]
    cases = []
    i = 0
    ub = usable_backends()
    for fsh in file_shapes:
        for before, after in md_shapes:
            for oc in outcomes:
                bks = ub if tier == "thorough" else [ub[i % len(ub)]]
                for b in bks:
                    cases.append({
                        "backend": b, "files": list(fsh), "form": ["list_str", "list_path"][i % 2], "cwd": "", "image": None if i % 3 else "my/img",
                        "tag": None if i % 3 else "v1", "outdir": [None, "{B}/out"][i % 2], "mds_before": copy.deepcopy(before),
                        "mds_after": copy.deepcopy(after), "ttree": False, "outcome": copy.deepcopy(oc),
                    })
                i += 1
    # sequences on one dataset object: every ordered pair of metadata shapes, the first container succeeding or
    # failing; in thorough also triples with a failing container in the middle
    ok = {"chunks": ch[:1], "ending": "success", "at_call": False, "write_result": True}
    bad = {"chunks": ch[:2], "ending": "docker_error", "at_call": False, "write_result": True}

    def step(shape, oc):
        return {"mds_before": copy.deepcopy(shape[0]), "mds_after": copy.deepcopy(shape[1]), "ttree": False, "outcome": copy.deepcopy(oc)}

    for m1 in md_shapes:
        for m2 in md_shapes:
            for first in (ok, bad):
                bks = ub if tier == "thorough" else [ub[i % len(ub)]]
                for b in bks:
                    c = {"backend": b, "files": ["{B}/d0/a.root", "{B}/d0/b.root"], "form": "list_path", "cwd": "", "image": None if i % 2 else "my/img",
                         "tag": None if i % 2 else "v1", "outdir": [None, "{B}/out"][i % 2], **step(m1, first), "more": [step(m2, ok)]}
                    cases.append(c)
                    if tier == "thorough":
                        c3 = copy.deepcopy(c)
                        c3["more"] = [step(m2, bad), step(([], []), ok)]
                        cases.append(c3)
                i += 1
    return cases


# ------------------------------------------------------------------------------------------------
# running cases on the implementation and on the model
# ------------------------------------------------------------------------------------------------


def case_key(case: Dict[str, Any]) -> str:
    return "exec:" + json.dumps(case, sort_keys=True, ensure_ascii=True, separators=(",", ":"))


def run_impl(cases: List[Dict[str, Any]]) -> List[Dict[str, Any]]:
    """Real code on every case (process pool; every process has its own stand-in docker state)."""
    from c17_harness import impl

    tbl = rows_by_key()
    items = list(enumerate(cases))
    if len(items) <= 8:
        return [r for _, r in impl.run_many((items, tbl))]
    nproc = max(1, min(12, (os.cpu_count() or 2) - 1))
    size = max(1, min(40, len(items) // (nproc * 3) or 1))
    chunks = [items[i:i + size] for i in range(0, len(items), size)]
    res: Dict[int, Dict[str, Any]] = {}
    import multiprocessing as mp

    with ProcessPoolExecutor(max_workers=nproc, mp_context=mp.get_context("fork")) as pool:
        for part in pool.map(impl.run_many, [(c, tbl) for c in chunks]):
            for idx, r in part:
                res[idx] = r
    return [res[i] for i in range(len(items))]


def canon_call(c: Dict[str, Any]) -> Dict[str, Any]:
    vols = []
    for v in c["volumes"]:
        m = v["mount"].rstrip("/") or ("/" if v["mount"] else "")
        vols.append([json.dumps(v["src"], sort_keys=True), m, v["mode"] == "ro"])
    return {"image": c["image"], "command": c["command"], "volumes": sorted(vols)}


def canon_obs(o: Dict[str, Any]) -> Dict[str, Any]:
    """What model and implementation are compared on (nothing the property does not talk about)."""
    r = {k: o[k] for k in ("ctorFailed", "err", "returned", "seenFilelist", "packageOk", "pulled", "delivered", "runDirLive", "leftover")}
    r["calls"] = [canon_call(c) for c in o["calls"]]
    return r


def evaluate(ctx, cases: List[Dict[str, Any]]) -> List[Dict[str, Any]]:
    """Implementation + model + Spec-on-implementation for every case (= every execution of every sequence)."""
    results = run_impl(cases)
    crashes = [r for r in results if "crash" in r]
    if crashes:
        raise vlib.InternalError("harness crashed while running a case: " + crashes[0]["crash"])
    reqs, where = [], []
    for r in results:
        where.append((len(reqs), len(r["steps"])))
        reqs.append({"op": "runseq", **r["model_inputs"], "more": r["planned_steps"][1:]})
        for st in r["steps"]:  # the Spec of THIS execution's query/outcome on THIS execution's observation
            reqs.append({"op": "spec", **st["model_inputs"], "obs": st["obs"]})
    ans = ctx.driver(DRIVER, reqs)
    out = []
    for case, r, (at, n) in zip(cases, results, where):
        m, specs = ans[at], ans[at + 1: at + 1 + n]
        if "bad" in m or any("bad" in x for x in specs):
            bad = next(x["bad"] for x in [m] + specs if "bad" in x)
            out.append({"case": case, "impl": r, "model": {"bad": bad}, "spec": {"bad": bad}})
            continue
        failed = [f"execution{k}:{c}" if n > 1 else c for k, x in enumerate(specs) for c in x.get("failed", [])]
        out.append({
            "case": case, "impl": r, "model": {"obs_seq": m["obs"]},
            "spec": {"holds": all(x.get("holds", False) for x in specs), "failed": failed},
        })
    return out


def path_requests(results: List[Dict[str, Any]]) -> List[str]:
    s = set()
    for r in results:
        mi = r["impl"]["model_inputs"]
        s.update(mi["files"])
        if mi["outputDir"] is not None:
            s.add(mi["outputDir"])
    return sorted(s)


def nontrivial(case: Dict[str, Any], e: Dict[str, Any]) -> bool:
    if e["impl"]["obs"]["ctorFailed"]:
        return False
    nd = sum(1 for m in case["mds_before"] + case["mds_after"] if m.get("metadata_type") == "docker")
    return bool(case.get("more")) or len(case["files"]) >= 2 or nd >= 1 or case["outcome"]["ending"] != "success" or not case["outcome"]["write_result"]


HOW = (
    "sys.path[:0]=['/verif/tools/c17_stubs','/repo']; build the dataset/query of `case` ({B} = a fresh directory laid out as "
    "tools/c17_harness/impl.py LAYOUT_*), script python_on_whales.verif_control with case['outcome'], run "
    "asyncio.run(query.value_async()); then, ON THE SAME DATASET OBJECT, the queries/outcomes of case['more'] in order; "
    "or: ./check C17 --replay <this file>"
)


def judge(ctx, stream: str, e: Dict[str, Any], known_key: Optional[str] = None) -> bool:
    """Counters, Spec on the implementation, model-vs-implementation. Returns True when the Spec held."""
    case, r, m, s = e["case"], e["impl"], e["model"], e["spec"]
    if "bad" in m or "bad" in s:
        return True  # driver failure already recorded as a broken obligation
    ob = r["obs"]
    ctx.count(f"stream:{stream}")
    ctx.count(f"backend:{case['backend']}")
    ctx.count(f"files:{min(len(case['files']), 5)}")
    ctx.count("result:" + ("ctor-" if ob["ctorFailed"] else "") + (ob["err"] or "returned"))
    ctx.count(f"docker-md:{sum(1 for x in r['model_inputs']['mds'] if x['docker'])}")
    ctx.count(f"container:{case['outcome']['ending']}" + ("@call" if case["outcome"].get("at_call") else f"@chunk{len(case['outcome']['chunks'])}" if case["outcome"]["ending"] != "success" else ""))
    ctx.count("calls:%d" % len(ob["calls"]))
    ctx.count("executions-on-one-dataset:%d" % len(r["planned_steps"]))
    if len(r["planned_steps"]) > 1:
        imgs = [next((x["image"] for x in st["mds"] if x["docker"] and x["image"]), None) for st in r["planned_steps"]]
        if any(a is not None and b is None for a, b in zip(imgs, imgs[1:])):
            ctx.count("sequence:docker-md-then-none")
        if any(a is not None and b is not None and a != b for a, b in zip(imgs, imgs[1:])):
            ctx.count("sequence:image-then-other-image")
        if any(st["outcome"]["ending"] != "success" for st in r["planned_steps"][:-1]):
            ctx.count("sequence:failure-before-last")

    def _undecodable(t: str) -> bool:
        try:
            t.encode("latin-1").decode("utf-8")
            return False
        except UnicodeDecodeError:
            return True

    if any(_undecodable(t) for _, t in case["outcome"].get("chunks", [])):
        ctx.count("output:has-non-utf8-chunk")
    ctx.case(case, nontrivial(case, e), {"case": case, "implementation": [st["obs"] for st in r["steps"]]})
    held = bool(s.get("holds", False))
    if not held:
        ctx.violation(
            key=known_key or case_key(case),
            what="local docker execution violates clause(s) " + ",".join(s.get("failed", [])) + " of the C17 specification",
            case=case,
            observed={"observations": [st["obs"] for st in r["steps"]], "info": [st["info"] for st in r["steps"]], "failed_clauses": s.get("failed")},
            how=HOW,
        )
    cm, ci = [canon_obs(x) for x in m["obs_seq"]], [canon_obs(st["obs"]) for st in r["steps"]]
    if cm != ci:
        if len(cm) != len(ci):
            diff: Any = {"executions": {"model": len(cm), "implementation": len(ci)}}
        else:
            diff = {f"execution{i}": {k: {"model": a[k], "implementation": b[k]} for k in a if a[k] != b.get(k)} for i, (a, b) in enumerate(zip(cm, ci)) if a != b}
        ctx.disagreement("execute_result_async", case, diff, {"info": [st["info"] for st in r["steps"]]})
    return held


def replay_fixed(ctx, entry: Dict[str, Any]):
    """`fixed` finding: constructing a dataset in a FRESH interpreter (tempfile.tempdir is None there)."""
    from c17_harness import impl
    import tempfile

    tbl = rows_by_key()
    d = tempfile.mkdtemp(prefix="c17-fresh-")
    try:
        f = Path(d) / "a.root"
        f.write_text("data")
        for key in entry["input"].get("backends", ["atlas"]):
            row = tbl[key]
            if row["datasetClass"] == UNREC:
                continue
            code = impl.FRESH_SNIPPET.format(stubs=impl.STUBS, repo=str(vlib.REPO), module=row["module"], cls=row["datasetClass"], file=str(f))
            env = {k: v for k, v in os.environ.items() if k not in ("TMPDIR", "TEMP", "TMP")}
            p = subprocess.run([sys.executable, "-c", code], capture_output=True, text=True, timeout=120, env=env, cwd=d)
            line = (p.stdout.strip().splitlines() or [""])[-1]
            ctx.count("fixed-replay:" + ("ok" if line.startswith("OK") else "failed"))
            ctx.case({"fixed": entry["key"], "backend": key}, False)
            if not line.startswith("OK"):
                ctx.violation(
                    key="regressed:" + entry["key"] + ":" + key,
                    what=f"{row['datasetClass']}(existing_file) in a fresh interpreter no longer constructs: {line or p.stderr[-300:]}",
                    case={"kind": "fresh_interpreter_ctor", "backend": key},
                    observed={"stdout": p.stdout[-500:], "stderr": p.stderr[-500:]},
                    how=f"{sys.executable} -c '<tools/c17_harness/impl.py FRESH_SNIPPET>' (fresh interpreter, TMPDIR unset)",
                )
    finally:
        import shutil

        shutil.rmtree(d, ignore_errors=True)


def check_pure_functions(ctx, results: List[Dict[str, Any]]):
    """Tie of the pure sub-model: pathlib parsing."""
    from pathlib import PurePosixPath

    paths = path_requests(results)
    extra = ["", ".", "/", "//", "///", "a", "a/", "./a", "a/./b", "a//b", "//a/b", "///a/b", "a/..", "../a", "/a/../b/", "/.", "./", ".//.", "a/b/c.root"]
    paths = sorted(set(paths) | set(extra))
    ans = ctx.driver(DRIVER, [{"op": "path", "s": p} for p in paths])
    for p, a in zip(paths, ans):
        if "bad" in a:
            return
        pp = PurePosixPath(p)
        want = {"name": pp.name, "parent": str(pp.parent), "render": str(pp)}
        got = {k: a.get(k) for k in want}
        ctx.count("pathlib-compared")
        if want != got:
            ctx.disagreement("pathlib.PurePosixPath", {"path": p}, got, want)


def check_table(ctx):
    """The generated table as the driver sees it is the table this run translated (stale-olean guard), and the
    defaults it records are the ones the classes really have."""
    import importlib
    import inspect

    ans = ctx.driver(DRIVER, [{"op": "table"}])[0]
    if "bad" in ans:
        return
    t = table()
    mine = {r["key"]: {k: (r[k] if k != "cacheVolumes" else [list(x) for x in r[k]]) for k in ("datasetClass", "defaultImage", "defaultTag", "cacheVolumes", "executorClass", "runner", "fileNames", "templateDir", "runnerResultName")} for r in t["rows"]}
    theirs = {r["key"]: {k: r[k] for k in mine[r["key"]]} for r in ans["backends"] if r["key"] in mine}
    if mine != theirs or ans.get("volumePrefix") != t["volumePrefix"] or ans.get("resultFileName") != t["resultFileName"]:
        ctx.disagreement("generated-table", {"what": "driver's table differs from this run's translation"}, theirs, mine)
    sys.path.insert(0, str(Path(__file__).resolve().parent.parent / "c17_stubs"))
    for r in t["rows"]:
        if r["datasetClass"] == UNREC:
            continue
        cls = getattr(importlib.import_module(r["module"]), r["datasetClass"])
        sig = inspect.signature(cls.__init__)
        live: Dict[str, Any] = {"defaultImage": sig.parameters["docker_image"].default, "defaultTag": sig.parameters["docker_tag"].default}
        try:
            ds = cls(Path(__file__))
            exe = ds.get_executor_obj()
            live["executorClass"] = type(exe).__name__
            live["runner"] = exe._runner_name
            live["fileNames"] = list(exe._file_names)
            live["templateDir"] = exe._template_dir_name
            live["cacheVolumes"] = [(v.docker_name, v.mount_point) for v in ds.docker_cache_volume()]
        except Exception as e:
            live["error"] = f"{type(e).__name__}: {e}"
        ctx.count("table-row-compared")
        mine_row = {k: (r[k] if k != "cacheVolumes" else [tuple(x) for x in r[k]]) for k in live if k != "error"}
        if "error" in live or any(live[k] != mine_row[k] for k in mine_row):
            ctx.disagreement("generated-table", {"backend": r["key"]}, mine_row, live)


def run(ctx):
    # 1. known findings first
    known = [e for e in ctx.known_entries("known") if e["input"].get("backend") in usable_backends()]
    if known:
        ev = evaluate(ctx, [e["input"] for e in known])
        for entry, e in zip(known, ev):
            judge(ctx, "known-finding", e, known_key=entry["key"])
    fixed_cases = []
    for entry in ctx.known_entries("fixed"):
        if entry["input"].get("kind") == "fresh_interpreter_ctor":
            replay_fixed(ctx, entry)
        elif entry["input"].get("backend") in usable_backends():
            fixed_cases.append(entry)
    if fixed_cases:  # repaired defects keyed by a concrete case: a failure now is a regression, i.e. a VIOLATION
        ev = evaluate(ctx, [e["input"] for e in fixed_cases])
        for entry, e in zip(fixed_cases, ev):
            held = judge(ctx, "fixed-finding", e, known_key="regressed:" + entry["key"])
            ctx.count("fixed-replay:" + ("ok" if held else "failed"))
    ctx.check_time()

    # 2. corpus, grid, generated cases
    if not usable_backends():
        ctx.notes.append("no backend row could be translated: correspondence stream skipped")
        return
    ub = set(usable_backends())
    cases: List[Tuple[str, Dict[str, Any]]] = [("corpus", c["case"]) for c in vlib.corpus_cases(ID) if c["case"]["backend"] in ub]
    cases += [("grid", c) for c in grid_cases(ctx.tier)]
    nrand = 1000 if ctx.tier == "quick" else 30000
    cases += [("random", gen_case(ctx.rng)) for _ in range(nrand)]
    ev = evaluate(ctx, [c for _, c in cases])
    for (stream, _), e in zip(cases, ev):
        judge(ctx, stream, e)
    ctx.check_time()
    if ctx.violations:  # minimise the failing input that goes into the replay file
        fl = [e for e in ev if failing(e)]
        if fl:
            best = shrink(ctx, min(fl, key=plainness))
            ctx.violations.insert(0, as_violation(best))
            del ctx.violations[5:]

    # 3. the pure sub-models and the generated table
    check_pure_functions(ctx, ev)
    check_table(ctx)
    ctx.extra_cov["exhaustive"] = False
    ctx.extra_cov["exhaustive_part"] = (
        ("grid of 6 file-list shapes x 6 metadata shapes x 9 container outcomes x 3 backends; sequences on one dataset object: "
         "all 36 ordered pairs of metadata shapes x first container ok/failing x 3 backends, and the same as triples with a failing middle execution"
         if ctx.tier == "thorough"
         else "grid of 3 file-list shapes x 6 metadata shapes x 5 container outcomes (backend rotating); sequences on one dataset "
         "object: all 36 ordered pairs of metadata shapes x first container ok/failing (backend rotating)")
    )
    ctx.extra_cov["defect_exclusions"] = []


# ------------------------------------------------------------------------------------------------
# search, shrink, replay
# ------------------------------------------------------------------------------------------------


def simpler(case: Dict[str, Any]) -> List[Dict[str, Any]]:
    out = []

    def w(**kw):
        c = copy.deepcopy(case)
        c.update(kw)
        if c != case:
            out.append(c)

    fs = case["files"]
    for i in range(len(fs)):
        if len(fs) > 1:
            w(files=fs[:i] + fs[i + 1:], form=case["form"] if len(fs) > 2 or not case["form"].startswith("single") else "list_str")
    for k in ("mds_before", "mds_after"):
        for i in range(len(case[k])):
            w(**{k: case[k][:i] + case[k][i + 1:]})
    oc = case["outcome"]
    for i in range(len(oc["chunks"])):
        w(outcome={**oc, "chunks": oc["chunks"][:i] + oc["chunks"][i + 1:]})
    if oc["ending"] != "success":
        w(outcome={**oc, "ending": "success", "at_call": False})
    if not oc["write_result"]:
        w(outcome={**oc, "write_result": True})
    if oc.get("at_call"):
        w(outcome={**oc, "at_call": False})
    more = case.get("more", [])
    if more:
        for i in range(len(more)):
            w(more=more[:i] + more[i + 1:])
        first = more[0]
        w(mds_before=first.get("mds_before", []), mds_after=first.get("mds_after", []), ttree=first.get("ttree", False),
          outcome=first["outcome"], more=more[1:])
        for i, st in enumerate(more):
            def ws(**kw):
                w(more=more[:i] + [{**st, **kw}] + more[i + 1:])
            for k in ("mds_before", "mds_after"):
                for j in range(len(st.get(k, []))):
                    ws(**{k: st[k][:j] + st[k][j + 1:]})
            so = st["outcome"]
            if so["chunks"]:
                ws(outcome={**so, "chunks": []})
            if so["ending"] != "success" or so.get("at_call") or not so["write_result"]:
                ws(outcome={**so, "ending": "success", "at_call": False, "write_result": True})
            if st.get("ttree"):
                ws(ttree=False)
    w(image=None, tag=None)
    w(outdir="{B}/out")
    w(ttree=False)
    w(form="list_str")
    w(backend="cms_aod")
    return out


def plainness(e: Dict[str, Any]):
    """Prefer failing inputs with ordinary file names, then short ones."""
    c = e["case"]
    odd = sum(1 for f in c["files"] if not re.fullmatch(r"\{B\}/d[01](/sub)?/[a-z]+\.root", f)) + (1 if c.get("cwd") else 0)
    return (odd, len(json.dumps(c)))


def failing(e: Dict[str, Any]) -> bool:
    return "bad" not in e["spec"] and not e["spec"].get("holds", False)


def shrink(ctx, best: Dict[str, Any]) -> Dict[str, Any]:
    """Greedy structural simplification while the Spec still fails on the implementation."""
    for _ in range(15):
        cands = simpler(best["case"])
        if not cands:
            break
        nxt = next((e for e in evaluate(ctx, cands) if failing(e)), None)
        if nxt is None:
            break
        best = nxt
    return best


def as_violation(best: Dict[str, Any]) -> Dict[str, Any]:
    return {
        "key": case_key(best["case"]),
        "what": "local docker execution violates clause(s) " + ",".join(best["spec"].get("failed", [])) + " of the C17 specification",
        "case": best["case"],
        "observed": {"observations": [st["obs"] for st in best["impl"]["steps"]], "info": [st["info"] for st in best["impl"]["steps"]], "failed_clauses": best["spec"].get("failed")},
        "replay_how": HOW,
    }


def search(ctx, broken):
    """Larger sweep with the Spec (on the implementation's observation) as the only judge; then shrink."""
    if not usable_backends():
        return None
    cases = grid_cases("thorough") + [gen_case(ctx.rng) for _ in range(1500)]
    fl = [e for e in evaluate(ctx, cases) if failing(e)]
    if not fl:
        return None
    best = shrink(ctx, min(fl, key=plainness))
    v = as_violation(best)
    v["known"] = v["key"] in {e["key"] for e in ctx.known_entries("known")}
    return v


def replay(ctx, rep) -> int:
    case = rep["case"]
    if case.get("kind") == "fresh_interpreter_ctor":
        before = len(ctx.violations)
        replay_fixed(ctx, {"key": "replay", "input": {"backends": [case.get("backend", "atlas")]}})
        print("fresh-interpreter constructor:", "fails" if len(ctx.violations) > before else "works")
        return 1 if len(ctx.violations) > before else 0
    e = evaluate(ctx, [case])[0]
    print("case:", json.dumps(case))
    for k, st in enumerate(e["impl"]["steps"]):
        print(f"execution {k}: implementation observed:", json.dumps(st["obs"]))
        print(f"execution {k}: info:", json.dumps(st["info"]))
    print("model observes:", json.dumps(e["model"].get("obs_seq")))
    print("spec on the implementation:", e["spec"])
    return 0 if e["spec"].get("holds") else 1


LEVEL_TEXT = (
    "Machine-checked proof (Lean 4) about a hand model of LocalDataset.__init__ / execute_result_async / "
    "_extract_result_TTree, for every file list, image, tag, metadata list, output directory, file-system facts and "
    "container outcome (any number of chunks, failure at any chunk or at the call, result present or not): constructor "
    "refusals are exact and leave no trace; files from different directories are refused before docker.run; filelist.txt "
    "is /data/<name> per file in order and names the files inside the mounted directory; the image is the innermost docker "
    "metadata's, else image:tag; the volume list is package ro at /scripts, package at /results, data directory ro at "
    "/data plus the backend's cache volumes (per-backend facts regenerated from the source on every run); any container "
    "failure or missing result file is an error (the container's own exception) with nothing returned; valid inputs with "
    "a succeeding container that leaves its result always return the copied file; what the container prints (valid UTF-8 "
    "or not) never changes the outcome; any number of executions on one dataset object, started in any state of the dict "
    "shared between executors, behave as independent single executions (image of execution i = query i's docker metadata, "
    "else image:tag); a result is returned only when everything went well; the temporary directory is created once and removed on every path, and every step happens while it exists. "
    "The model is tied to the code on every run by executing the real constructor and the real execute_result_async "
    "(asyncio) with a scripted stand-in python_on_whales on a grid plus seeded random cases, single executions and "
    "sequences of 2-3 executions on one dataset object; the decidable Spec is also "
    "evaluated on the implementation's own observations."
)
LEVEL_NOTE = (
    "All property theorems are full strength; the only hypotheses left are two decidable sanity conditions on a backend's "
    "row (main script in its package, cache mount points distinct), proved by `decide` for the table regenerated from the "
    "source. The two repaired defects (constructor assert on tempfile.tempdir; UnicodeDecodeError on undecodable container "
    "output) are replayed on the real code every run as `fixed` findings. Trusted: Lean kernel (axioms audited); "
    "agreement of the hand model with the Python is checked by differential execution, not proved; the stand-in docker "
    "client, harness, generators and translator; TemporaryDirectory's contract (also observed by a leftover census in every "
    "case); real docker and the images are out of reach in the sandbox."
)
TECHNIQUE = "Lean 4 theorems over a hand model + table translated from source + correspondence check (differential execution with a stand-in docker client) against LocalDataset"
DESIGN_REF = "DESIGN.md §4 C17"
