"""C03 — output tree schema and returned descriptor match the query's final shape."""
from __future__ import annotations

import json

import cgroup
import pipeline as P
import qgen
import qtypes  # cross-check only: the oracle is the Lean typing model (Linq/Typing.lean through C03/TypingDriver.lean)
from cprop import CompilerProp

ID = "C03"
LEAN_MODULES = ["FaxVerif.C03.Theorems", "FaxVerif.C03.TheoremsTyping", "FaxVerif.C03.TheoremsGen"]
LEAN_SOURCES = ["FaxVerif/C03", "FaxVerif/Gen", "FaxVerif/Cpp", "FaxVerif/Linq"]
DRIVER = cgroup.DRIVER
TYPING_DRIVER = "FaxVerif/C03/TypingDriver.lean"
SETUP_MODULES = cgroup.DRIVER_IMPORTS + ["FaxVerif.Linq.Typing"]  # what the two drivers import
THEOREMS = [
    "FaxVerif.C03.schema_ok_compile",
    "FaxVerif.C03.schema_ok_compileL",
    "FaxVerif.C03.schema_ok_compileN",
    "FaxVerif.C03.nested_column_pushed",
    "FaxVerif.C03.types_agree_with_typing",
    "FaxVerif.C03.types_agree_with_typing_counterexample",
    "FaxVerif.C03.types_agree_with_typingL",
    "FaxVerif.C03.types_agree_with_typingL_counterexample",
    "FaxVerif.C03.types_agree_with_typingN",
    "FaxVerif.C03.column_values_fit",
    "FaxVerif.C03.column_values_fitL",
    "FaxVerif.C03.column_values_fitN",
    "FaxVerif.C03.schema_ok_against_typing",
    "FaxVerif.C03.schema_ok_against_typingL",
    "FaxVerif.C03.schema_ok_against_typingN",
    "FaxVerif.C03.schema_names",
    "FaxVerif.C03.schema_own_storage",
    "FaxVerif.C03.schema_width",
    "FaxVerif.C03.tree_name",
    "FaxVerif.C03.elem_col_types",
    "FaxVerif.C03.branch_vars",
    # the typing model of the whole query language (C03/TheoremsTyping.lean)
    "FaxVerif.C03.type_soundness",
    "FaxVerif.C03.columns_sound",
    "FaxVerif.C03.columns_sound_labeled",
    "FaxVerif.C03.int_stays_int",
    "FaxVerif.C03.sum_has_element_type",
    "FaxVerif.C03.division_is_floating",
    "FaxVerif.C03.conditional_is_floating",
    "FaxVerif.C03.comparison_is_bool",
    "FaxVerif.C03.final_names_order",
    "FaxVerif.C03.final_names_dict",
    "FaxVerif.C03.final_names_tuple",
    "FaxVerif.C03.final_names_distinct_partial",
    "FaxVerif.C03.final_names_distinct_dict",
    "FaxVerif.C03.width",
    "FaxVerif.C03.label_mismatch_refused",
    "FaxVerif.C03.column_shapes",
    "FaxVerif.C03.neg_bool_counterexample",
    "FaxVerif.C03.not_is_bool_of_a_number",
    "FaxVerif.C03.ite_bool_counterexample",
]
RULE = (
    "type-directed random queries (C01 generator) with every terminal form: bare value, tuple, list, dict, and explicit "
    "ResultTTree(source, names, tree, file) with random names / tree names and, in a separate refusal stream, a wrong number of names; "
    "plus a deterministic stream with one column per typing rule and operand-kind combination (conditional with integer arms, int/int "
    "division, float+double both ways, Sum/Min/Max/First/Aggregate per element kind, vectors and vectors of vectors), element level and event level; "
    "three backends. The expected column names and C++ types of every case come from the Lean typing model (finalColumns / "
    "finalColumnsLabeled of Linq/Typing.lean, proved sound for the reference semantics); tools/qtypes.py is only cross-checked against it. "
    "Checked on the implementation's output: decidable SchemaOk (names in order, own storage, declared once with the "
    "expected C++ type, body writes exactly the booked variables, fill names the booked tree) and "
    "the returned descriptor. type_soundness is also evaluated: on every generated case and event the value `denote` yields fits the type "
    "`typeOf` gives. Non-trivial: >=2 operators and >=2 columns or a sequence column."
)
TRUSTED_BASE = [
    "lean/FaxVerif/Linq/Typing.lean typeOf / finalColumns: the property's typing rules as an executable Lean model (sound for Linq.denote by "
    "C03.type_soundness / C03.columns_sound), given the declared kinds of the synthetic data model read from the metadata the translator receives",
    "tools/cparse.py parse of booking lines and class declarations",
]
ASSUMPTIONS = ["the runner delivers the file the job writes under the name ANALYSIS.root (C16 covers the runner)"]
LEVEL_TEXT = (
    "Lean 4 theorems on the translator model for all fragment queries: booked names = the final expression's names in order, one "
    "distinct storage variable per column, width, tree name, element-level column types (int stays int, / is double, comparisons bool). "
    "Lean 4 typing model of the WHOLE generator language (typeOf / finalColumns / finalColumnsLabeled) with type_soundness: for every query, "
    "every event of the data model and every environment, a value the query yields fits the column type the rules assign (every element of a "
    "sequence the element type, nested likewise); columns_sound: every row fits the booked columns cell by cell; int_stays_int, "
    "division_is_floating, conditional_is_floating, comparison_is_bool, final_names_order / _dict / _tuple, final_names_distinct_partial, width, "
    "label_mismatch_refused, column_shapes. That model is the oracle: the decidable schema predicate SchemaOk (Lean) is evaluated on the "
    "implementation's own parsed output for every generated query and all terminal forms against the names and C++ types the model computes; "
    "the returned descriptor and the count-mismatch refusal (decided by finalColumnsLabeled) are checked on the real pipeline. For the "
    "translator MODELS (Gen.compile, compileL with lazy operators, compileN with nested loops — each tied to the real translator's text "
    "on every run) the whole predicate is a theorem for every query of the fragment: schema_ok_compile / _compileL / _compileN (all "
    "eight conjuncts: names in order, own storage, declared once with the type, written by the body, nothing else written, a fill on the "
    "booked tree), the column types the model declares are the types the independent typing model assigns to the user-level query "
    "(types_agree_with_typing / L / N, with the two exclusions proved necessary by counterexamples: columns of bare objects, and/or on "
    "non-boolean operands), hence every value the query can evaluate to fits the C++ type booked for its column (column_values_fit / L / N)."
)
LEVEL_NOTE = (
    "Proved on the translator model (tied by C01's text tie): names, distinct storage, width, tree name, element-level scalar types. Proved on the "
    "typing model for all queries: soundness of the expected types, names/order/width/labels of the final shape. Not proved: that the TRANSLATOR "
    "assigns the model's type to every query (evaluated per generated program through SchemaOk) and 'body writes exactly the booked variables' for "
    "all queries. Where the translator's own rule is not the type of Python's value the model follows Python and the difference is a proved "
    "counterexample outside the generated stream: -b (bool operand) is booked bool, a conditional with boolean arms is "
    "booked double (neg_bool_/ite_bool_counterexample; `not` of a number is bool in the model and, since fix ea7911a, in the translator: "
    "not_is_bool_of_a_number, exercised by the typing-rules stream); distinct names need distinct dict keys (final_names_distinct_partial). "
    "Known: unique_name = name ++ index is not injective (column x1 at counter 0 vs column x at counter 10)."
)
TECHNIQUE = "Lean 4 theorems on the translator model and on a typing model of the query language (type soundness) + decidable schema predicate (Lean) evaluated on the implementation's output against the typing model's columns"
DESIGN_REF = "DESIGN.md §4 C03"

PREFIX = {"atlas": "atlas_xaod", "cms_aod": "cms_aod", "cms_miniaod": "cms_miniaod"}


class SCase(cgroup.Case):
    explicit = None  # (names, tree, mismatch intended by the generator) for an explicit ResultTTree
    typing = None  # answers of the Lean typing model: {"default":…, "labeled":…|None, "sound":…}
    expected = None  # (names, C++ types, tree) the Lean model demands; None when it demands a refusal or has no answer

    def to_json(self):
        d = super().to_json()
        if self.explicit:
            d["explicit"] = list(self.explicit)
        return d


def as_scase(c, j=None):
    if not isinstance(c, SCase):
        c.__class__ = SCase
        c.explicit = None
    if j and j.get("explicit"):
        c.explicit = (list(j["explicit"][0]), j["explicit"][1], bool(j["explicit"][2]))
    return c


def gen(ctx, i):
    c = cgroup.gen_case(ctx.rng, backend=P.BACKENDS[i % 3], nevents=1)
    as_scase(c)
    kind = i % 20  # 0..5: explicit ResultTTree (30%); 0 and 1: with a wrong number of labels (one too many / one too few)
    if kind < 6:
        # (the number of labels follows the generator's own count of columns; whether the label list fits is DECIDED by the
        # Lean model — finalColumnsLabeled — in `evaluate`, and a difference between the two is reported)
        width = len(c.names)
        newnames = [ctx.rng.choice(["pt", "eta", "n", "jetPt", "x"]) + str(k) for k in range(width)]
        mismatch = kind < 2
        if mismatch:
            newnames = newnames + ["extra"] if kind == 0 else newnames[:-1]  # (a bare value with NO label at all included)
        c.explicit = (newnames, ctx.rng.choice(["mytree", "t", "analysis_tree", "trees/nominal", "a b", "T-1.x", "/t"]), mismatch)
        # AsROOTTTree understands a sequence of tuples or of single items (README), not of dicts
        if c.query["f"]["k"] in ("dict", "list"):
            c.query = {**c.query, "f": {"k": "tuple", "es": c.query["f"]["es"]}}
    return c


def translate_case(c):
    cgroup.set_counter(c)
    mds = qgen.metadata(c.backend)
    src = qgen.render_functional(c.query, mds)
    if c.explicit:
        names, tree, _ = c.explicit
        src = f"ResultTTree({src}, {names!r}, {tree!r}, 'out.root')"
    c.result = P.translate_functional(c.backend, src)
    if c.result["ok"]:
        c.package = qgen.package_json(c.result)
    return c


# ---------------------------------------------------------------- the Lean typing model as the oracle

_SIG = {}


def _ty(t: str, known) -> str:
    """a C++ type of the metadata in the driver's notation"""
    t = t.strip()
    if t in ("int", "float", "double", "bool"):
        return t
    if t.startswith("std::vector<") and t.endswith(">"):
        return "vec:" + _ty(t[len("std::vector<"):-1], known)
    if t in known:
        return "obj:" + t
    raise ValueError(f"metadata type {t!r} has no counterpart in the typing model")


def sig(backend):
    """The declared kinds of the data model, read from the very metadata the translator is given (qgen.metadata):
    collection accessor -> element class, class -> method -> declared return type."""
    if backend not in _SIG:
        mds = qgen.metadata(backend)
        colls = [{"name": d["name"], "cls": d["element_type"]} for d in mds if d["metadata_type"] == qgen.MDTYPE[backend]]
        known = {c["cls"] for c in colls}
        classes = {k: [] for k in sorted(known)}
        for d in mds:
            if d["metadata_type"] != "add_method_type_info":
                continue
            t = d.get("return_type_collection") or d["return_type"]
            classes.setdefault(d["type_string"], []).append({"name": d["method_name"], "type": _ty(t, known)})
        _SIG[backend] = {"colls": colls, "classes": [{"cls": k, "methods": v} for k, v in classes.items()]}
    return _SIG[backend]


def attach_typing(ctx, cases):
    """One driver call: for every case the model's columns (default naming; with the labels when the case is an explicit
    ResultTTree) and type_soundness evaluated on the case's events. Sets c.typing and c.expected; cross-checks qtypes."""
    todo = [c for c in cases if c.typing is None]
    reqs, idx = [], []
    for c in todo:
        q = c.lean_query or c.query
        S = sig(c.backend)
        k0 = len(reqs)
        reqs.append({"op": "columns", "sig": S, "query": q, "labels": None})
        reqs.append({"op": "sound", "sig": S, "query": q, "events": c.events, "coll_types": qgen.coll_types(c.backend)})
        if c.explicit:
            reqs.append({"op": "columns", "sig": S, "query": q, "labels": list(c.explicit[0])})
        idx.append((k0, len(reqs)))
    ans = ctx.driver(TYPING_DRIVER, reqs, timeout=900)
    for c, (a, b) in zip(todo, idx):
        r = ans[a:b]
        c.typing = {"default": r[0], "sound": r[1], "labeled": r[2] if c.explicit else None}
        c.expected = None
        if any("bad" in x for x in r):
            continue  # (the driver's failure is already a broken obligation)
        ident = {"backend": c.backend, "source": c.source(), "explicit": list(c.explicit) if c.explicit else None}
        d = c.typing["default"]
        # 1 the model types every generated query
        if "error" in d:
            ctx.disagreement("C03 typing model assigns no column type to a generated query", ident, d, {"generator_names": c.names})
            continue
        # 2 cross-check: tools/qtypes.py (the former oracle) and the generator's own column names
        try:
            qn, qt = qtypes.columns(c.query)
            if (qn, qt) != (d["names"], d["types"]):
                ctx.disagreement("C03 typing model vs tools/qtypes.py", ident, {"names": d["names"], "types": d["types"]}, {"names": qn, "types": qt})
        except Exception as e:  # qtypes knows less than the model: not a defect of the model
            ctx.count("cross-check:qtypes-has-no-answer")
        if c.names and not c.explicit and list(c.names) != d["names"]:
            ctx.disagreement("C03 typing model vs the generator's column names", ident, d["names"], list(c.names))
        # 3 type_soundness evaluated: every value fits its type, every generated event is an event of the data model
        for k, e in enumerate(c.typing["sound"].get("events", [])):
            ctx.count("soundness:" + e["outcome"].split(" ")[0].split(":")[0])
            if not e["event_ok"]:
                ctx.disagreement("C03 generated event is not an event of the declared data model (eventOk)", {**ident, "event": k}, e, None)
            if e["outcome"].startswith("ILL-TYPED"):
                ctx.disagreement("C03 type_soundness evaluated: a value denote yields does not fit the type typeOf gives", {**ident, "event": k}, {"type": c.typing["sound"].get("type")}, e["outcome"][:400])
        # 4 what the tree must look like
        tree = PREFIX[c.backend] + "_tree"
        if c.explicit:
            lab = c.typing["labeled"]
            refused = "error" in lab
            if refused != bool(c.explicit[2]):
                ctx.disagreement("C03 typing model vs the generator: does the label list fit the columns", ident, lab, {"generator_intends_mismatch": c.explicit[2], "width": len(d["names"])})
            if not refused:
                c.expected = (lab["names"], lab["types"], c.explicit[1])
        else:
            c.expected = (d["names"], d["types"], tree)


def request(c):
    r = cgroup.request(c, with_query=False)
    if c.expected is not None:
        names, types, tree = c.expected
        r["schema"] = {"names": names, "types": types, "fill": tree if c.backend == "atlas" else ""}
    return r


def model_refuses(c) -> bool:
    """explicit labels that the Lean model (finalColumnsLabeled) rejects while the query itself has columns"""
    t = c.typing or {}
    return bool(c.explicit) and t.get("labeled") is not None and "error" in t["labeled"] and "names" in (t.get("default") or {})


def judge(c):
    r = c.result
    if model_refuses(c):
        if r["ok"]:
            return {"what": "a column / label count mismatch is accepted", "observed": {"names": c.explicit[0], "model": c.typing["labeled"], "branches": c.package["branches"]}}
        return None
    if not r["ok"]:
        return None
    a = c.answer
    if a is None or "bad" in a or c.expected is None:
        return None
    names, types, tree = c.expected
    if r["treename"] != tree or r["filename"] != "ANALYSIS.root":
        return {"what": "the returned descriptor does not name the tree / file the job writes", "observed": {"descriptor": [r["treename"], r["filename"]], "expected": [tree, "ANALYSIS.root"]}}
    if c.package["book_trees"] and set(c.package["book_trees"]) != {tree}:
        return {"what": "the booked tree is not the tree named by the query / the descriptor", "observed": {"booked": c.package["book_trees"], "expected": tree}}
    if a.get("schema_ok") is not True:
        return {"what": "the output tree's schema differs from the query's final shape (names in order / own storage / declared type / variables written / fill target)",
                "observed": {"expected_names": names, "expected_types": types, "branches": c.package["branches"], "class_vars": c.package["class_vars"], "body": r["query"]}}
    return None


class Prop(CompilerProp):
    def evaluate(self, ctx, cases):
        for c in cases:
            as_scase(c)
        attach_typing(ctx, cases)
        for c in cases:
            if c.result is None:
                translate_case(c)
        acc = [c for c in cases if c.result["ok"]]
        ans = ctx.driver(DRIVER, [request(c) for c in acc], timeout=1500)
        for c, a in zip(acc, ans):
            c.answer = a

    def replay(self, ctx, rep) -> int:
        c = cgroup.Case.from_json(rep["case"])
        as_scase(c, rep["case"])
        self.evaluate(ctx, [c])
        hit = self.judge(c)
        print("query :", c.source(), "| explicit:", c.explicit)
        print("model :", c.typing)
        print("\n".join((c.result or {}).get("query", [])) if c.result and c.result.get("ok") else c.result)
        print("answer:", {k: v for k, v in (c.answer or {}).items() if k in ("schema_ok", "bad")})
        print("VIOLATION" if hit else "holds", hit or "")
        return 1 if hit and hit.get("kind") != "broken" else 0


def after(ctx, c):
    ctx.count("terminal:" + ("explicit-mismatch" if c.explicit and c.explicit[2] else "explicit" if c.explicit else c.query["f"]["k"] if c.query["f"]["k"] in ("tuple", "list", "dict") else "bare"))
    for t in (c.expected or ([], [], ""))[1]:
        ctx.count("column-type:" + t)


def nontrivial(c):
    if not c.result["ok"] or len(qgen.ops_used(c.query)) < 2 or c.expected is None:
        return False
    names, types, _ = c.expected
    return len(names) >= 2 or any(t.startswith("std::vector") for t in types)


# ---------------------------------------------------------------- one case per typing rule (deterministic)


def rule_exprs():
    """(rule, expression over an object `j`) — every rule of Linq.typeOf with the operand kinds that tell the rule from its
    neighbours (int/int division, a conditional with two integer arms, float+double in both orders, Sum of floats …)."""
    V = lambda n: {"k": "var", "n": n}
    M = lambda o, n: {"k": "meth", "o": o, "n": n}
    J = lambda n: M(V("j"), n)
    K = lambda n: M(V("k"), n)
    I = lambda v: {"k": "int", "v": v}
    Dbl = lambda v: {"k": "dbl", "v": v}
    B = lambda op, a, b: {"k": "bin", "op": op, "a": a, "b": b}
    C = lambda op, a, b: {"k": "cmp", "op": op, "a": a, "b": b}
    IF = lambda c, a, b: {"k": "if", "c": c, "a": a, "b": b}
    SEL = lambda s, x, f: {"k": "Select", "s": s, "x": x, "f": f}
    WH = lambda s, x, f: {"k": "Where", "s": s, "x": x, "f": f}
    T = lambda k, s: {"k": k, "s": s}
    AGG = lambda s, seed, f: {"k": "Aggregate", "s": s, "seed": seed, "acc": "acc", "x": "k", "f": f}
    kids = lambda f: SEL(J("kids"), "k", f)
    return [
        ("if:int,int", IF(J("b"), J("i"), I(5))),
        ("if:float,float", IF(J("b"), J("f"), J("f"))),
        ("if:double,int", IF(C(">", J("i"), I(1)), J("d"), I(1))),
        ("+:float,double", B("+", J("f"), J("d"))),
        ("+:double,float", B("+", J("d"), J("f"))),
        ("*:float,double", B("*", J("f"), J("g"))),
        ("-:double,float", B("-", J("g"), J("f"))),
        ("+:float,int", B("+", J("f"), J("i"))),
        ("+:int,float", B("+", J("i"), J("f"))),
        ("*:int,double", B("*", J("i"), J("d"))),
        ("*:double,int", B("*", J("d"), J("j"))),
        ("+:float,float", B("+", J("f"), J("f"))),
        ("-:int,int", B("-", J("i"), J("j"))),
        ("*:int,int", B("*", J("i"), I(3))),
        ("%:int,int", B("%", J("i"), I(3))),
        ("/:int,int", B("/", J("i"), I(2))),
        ("/:float,float", B("/", J("f"), J("f"))),
        ("/:float,int", B("/", J("f"), I(2))),
        ("**:int,int", B("**", J("i"), I(2))),
        ("**:float,int", B("**", J("f"), I(2))),
        ("neg:int", {"k": "neg", "a": J("i")}),
        ("neg:float", {"k": "neg", "a": J("f")}),
        ("neg:double", {"k": "neg", "a": B("*", J("d"), I(2))}),
        ("cmp:int,float", C("<", J("i"), J("f"))),
        ("cmp:int,int", C("==", J("i"), J("j"))),
        ("and", {"k": "and", "a": J("b"), "b": C(">", J("d"), Dbl("0.5"))}),
        ("or", {"k": "or", "a": C(">", J("i"), I(1)), "b": J("b")}),
        ("not", {"k": "not", "a": J("b")}),
        ("not:int", {"k": "not", "a": J("i")}),
        ("not:float", {"k": "not", "a": J("f")}),
        ("not:double", {"k": "not", "a": B("*", J("d"), I(2))}),
        ("Count", T("Count", J("vs"))),
        ("Count:where", T("Count", WH(J("kids"), "k", K("b")))),
        ("Sum:double", T("Sum", J("vs"))),
        ("Sum:int", T("Sum", kids(K("i")))),
        ("Sum:float", T("Sum", kids(K("f")))),
        ("Sum:int*int", T("Sum", kids(B("*", K("i"), K("j"))))),
        ("Min:int", T("Min", kids(K("i")))),
        ("Max:float", T("Max", kids(K("f")))),
        ("Max:double", T("Max", J("vs"))),
        ("First:float", T("First", kids(K("f")))),
        ("First:int", T("First", kids(K("i")))),
        ("First:double", T("First", J("vs"))),
        ("Aggregate:int+float", AGG(J("kids"), I(0), B("+", V("acc"), K("f")))),
        ("Aggregate:int+int", AGG(J("kids"), I(0), B("+", V("acc"), K("i")))),
        ("Aggregate:double+int", AGG(J("kids"), Dbl("0.5"), B("+", V("acc"), K("i")))),
        ("Aggregate:int+double", AGG(J("kids"), I(1), B("*", V("acc"), K("d")))),
        ("index:double", {"k": "sub", "a": J("vs"), "i": 0}),
        ("index:float", M({"k": "sub", "a": J("kids"), "i": 0}, "f")),
        ("fn", {"k": "fn", "f": "sqrt", "args": [J("f")]}),
        ("userfn", {"k": "fn", "f": "vpf", "args": [J("d"), J("i")]}),
        ("seq:float", kids(K("f"))),
        ("seq:float+int", kids(B("+", K("f"), K("i")))),
        ("seq:int", kids(B("*", K("i"), I(2)))),
        ("seq:bool", kids(C(">", K("d"), Dbl("1.5")))),
        ("seq:double*float", SEL(J("vs"), "v", B("*", V("v"), J("f")))),
        ("seq:if", kids(IF(K("b"), K("i"), K("j")))),
        ("seq:where", SEL(WH(J("kids"), "k", C(">", K("i"), I(0))), "k", B("/", K("i"), I(2)))),
        # (vectors of vectors are columns of event-level rows only: `kids` stands for the event's collection there)
        ("seqseq:double", kids(K("vs"))),
        ("seqseq:double+float", kids(SEL(K("vs"), "v", B("+", V("v"), K("f"))))),
        ("seqseq:int", kids(SEL(K("kids"), "k2", M(V("k2"), "i")))),
        ("seqseq:float/", kids(SEL(K("kids"), "k2", B("+", M(V("k2"), "f"), K("i"))))),
    ]


def rule_cases():
    """The rule expressions as columns of real queries: three at a time as a dict / tuple of an element-level row
    (`….SelectMany(e -> e.As("ba")).Select(j -> {…})`), and every scalar one again as a vector column at event level
    (`ds.Select(e -> e.As("ba").Select(j -> expr))`). Deterministic: independent of the seed."""
    import random

    rng = random.Random("C03 typing rules")
    exprs = rule_exprs()
    coll = lambda e: {"k": "coll", "e": {"k": "var", "n": e}, "c": "As", "bank": "ba"}
    rows = {"k": "SelectMany", "s": {"k": "ds"}, "x": "e", "f": coll("e")}
    cases = []

    def add(q, names, form, rules):
        b = P.BACKENDS[len(cases) % 3]
        c = cgroup.Case(b, q, names, form, [qgen.gen_event(rng, b, {"ba": "As"}, empty_bias=0.0)])
        c.family = "typing-rules"
        as_scase(c)
        c.rules = rules
        cases.append(c)

    flat = [(r, e) for r, e in exprs if not r.startswith("seqseq")]
    for n in range(0, len(flat), 3):
        chunk = flat[n:n + 3]
        if (n // 3) % 2 == 0:
            ks = [f"r{n + i}" for i in range(len(chunk))]
            body, names = {"k": "dict", "ks": ks, "es": [e for _, e in chunk]}, ks
        else:
            body, names = {"k": "tuple", "es": [e for _, e in chunk]}, [f"col{i}" for i in range(len(chunk))]
        add({"k": "Select", "s": rows, "x": "j", "f": body}, names, "selectmany", [r for r, _ in chunk])
    for r, e in flat:
        if r.startswith(("seq", "index")):
            continue  # (a vector per element would be a vector of vectors here — below; an index inside a projection is evaluated lazily: C04's subject)
        add({"k": "Select", "s": {"k": "ds"}, "x": "e", "f": {"k": "Select", "s": coll("e"), "x": "j", "f": e}}, ["col1"], "select", [r])
    # event-level rows with vector and vector-of-vector columns: `j.kids()` of the expressions becomes the event's collection
    def at_event(q):
        if isinstance(q, dict):
            if q == {"k": "meth", "o": {"k": "var", "n": "j"}, "n": "kids"}:
                return coll("e")
            return {k: at_event(v) for k, v in q.items()}
        if isinstance(q, list):
            return [at_event(v) for v in q]
        return q

    deep = [(r, at_event(e)) for r, e in exprs if r.startswith("seq")]
    deep = [(r, e) for r, e in deep if not qgen._uses_var(e, "j")]
    for n in range(0, len(deep), 2):
        chunk = deep[n:n + 2]
        ks = [f"v{n + i}" for i in range(len(chunk))]
        add({"k": "Select", "s": {"k": "ds"}, "x": "e", "f": {"k": "dict", "ks": ks, "es": [e for _, e in chunk]}}, ks, "select", [r for r, _ in chunk])
    return cases


_P = Prop(ID, gen, judge, 240, 2400, with_query=False, after=after, nontrivial=nontrivial)
search, replay = _P.search, _P.replay


def run(ctx):
    cases = rule_cases()
    for c in cases:
        for r in c.rules:
            ctx.count("rule:" + r.split(":")[0])
    _P.stream(ctx, cases, "typing-rules")
    _P.run(ctx)
