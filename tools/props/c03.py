"""C03 — output tree schema and returned descriptor match the query's final shape."""
from __future__ import annotations

import cgroup
import pipeline as P
import qgen
import qtypes
from cprop import CompilerProp

ID = "C03"
LEAN_MODULES = ["FaxVerif.C03.Theorems"]
LEAN_SOURCES = ["FaxVerif/C03", "FaxVerif/Gen", "FaxVerif/Cpp"]
DRIVER = cgroup.DRIVER
SETUP_MODULES = cgroup.DRIVER_IMPORTS  # what the driver imports
THEOREMS = [
    "FaxVerif.C03.schema_names",
    "FaxVerif.C03.schema_own_storage",
    "FaxVerif.C03.schema_width",
    "FaxVerif.C03.tree_name",
    "FaxVerif.C03.elem_col_types",
    "FaxVerif.C03.branch_vars",
]
RULE = (
    "type-directed random queries (C01 generator) with every terminal form: bare value, tuple, list, dict, and explicit "
    "ResultTTree(source, names, tree, file) with random names / tree names and, in a separate refusal stream, a wrong number of names; "
    "three backends. Checked on the implementation's output: decidable SchemaOk (names in order, own storage, declared once with the "
    "expected C++ type computed independently from the query, body writes exactly the booked variables, fill names the booked tree) and "
    "the returned descriptor. Non-trivial: >=2 operators and >=2 columns or a sequence column."
)
TRUSTED_BASE = [
    "tools/qtypes.py: the expected column types (the property's typing rules) — independent of the translator",
    "tools/cparse.py parse of booking lines and class declarations",
]
ASSUMPTIONS = ["the runner delivers the file the job writes under the name ANALYSIS.root (C16 covers the runner)"]
LEVEL_TEXT = (
    "Lean 4 theorems on the translator model for all fragment queries: booked names = the final expression's names in order, one "
    "distinct storage variable per column, width, tree name, element-level column types (int stays int, / is double, comparisons bool). "
    "The decidable schema predicate SchemaOk (Lean) is evaluated on the implementation's own parsed output for every generated query "
    "of the larger language and all terminal forms, with expected types computed independently; the returned descriptor and the "
    "count-mismatch refusal are checked on the real pipeline."
)
LEVEL_NOTE = (
    "Proved on the model (tied by C01's text tie): names, distinct storage, width, tree name, element-level scalar types. Not proved: "
    "event-level column types and 'body writes exactly the booked variables' for all queries (evaluated per generated program). "
    "Known: unique_name = name ++ index is not injective (column x1 at counter 0 vs column x at counter 10)."
)
TECHNIQUE = "Lean 4 theorems on the translator model + decidable schema predicate (Lean) evaluated on the implementation's output"
DESIGN_REF = "DESIGN.md §4 C03"

PREFIX = {"atlas": "atlas_xaod", "cms_aod": "cms_aod", "cms_miniaod": "cms_miniaod"}


class SCase(cgroup.Case):
    explicit = None  # (names, tree) for an explicit ResultTTree


def gen(ctx, i):
    c = cgroup.gen_case(ctx.rng, backend=P.BACKENDS[i % 3], nevents=1)
    c.__class__ = SCase
    c.explicit = None
    kind = i % 20  # 0..5: explicit ResultTTree (30%); 0 and 1: with a wrong number of labels (one too many / one too few)
    if kind < 6:
        names, types = qtypes.columns(c.query)
        newnames = [ctx.rng.choice(["pt", "eta", "n", "jetPt", "x"]) + str(k) for k in range(len(names))]
        mismatch = kind < 2
        if mismatch:
            newnames = newnames + ["extra"] if kind == 0 else newnames[:-1]  # (a bare value with NO label at all included)
        c.explicit = (newnames, ctx.rng.choice(["mytree", "t", "analysis_tree", "trees/nominal", "a b", "T-1.x", "/t"]), mismatch)
        # AsROOTTTree understands a sequence of tuples or of single items (README), not of dicts
        if c.query["f"]["k"] in ("dict", "list"):
            c.query = {**c.query, "f": {"k": "tuple", "es": c.query["f"]["es"]}}
    return c


def translate_case(c):
    cgroup.set_counter(c)
    mds = qgen.metadata(c.backend)
    src = qgen.render_functional(c.query, mds)
    if c.explicit:
        names, tree, _ = c.explicit
        src = f"ResultTTree({src}, {names!r}, {tree!r}, 'out.root')"
    c.result = P.translate_functional(c.backend, src)
    if c.result["ok"]:
        c.package = qgen.package_json(c.result)
    return c


def request(c):
    r = cgroup.request(c, with_query=False)
    names, types = qtypes.columns(c.query)
    tree = PREFIX[c.backend] + "_tree"
    if c.explicit:
        names, tree = c.explicit[0], c.explicit[1]
    c.expected = (names, types, tree)
    r["schema"] = {"names": names, "types": types, "fill": tree if c.backend == "atlas" else ""}
    return r


def judge(c):
    r = c.result
    if c.explicit and c.explicit[2]:
        if r["ok"]:
            return {"what": "a column / label count mismatch is accepted", "observed": {"names": c.explicit[0], "branches": c.package["branches"]}}
        return None
    if not r["ok"]:
        return None
    a = c.answer
    if a is None or "bad" in a:
        return None
    names, types, tree = c.expected
    if r["treename"] != tree or r["filename"] != "ANALYSIS.root":
        return {"what": "the returned descriptor does not name the tree / file the job writes", "observed": {"descriptor": [r["treename"], r["filename"]], "expected": [tree, "ANALYSIS.root"]}}
    if c.package["book_trees"] and set(c.package["book_trees"]) != {tree}:
        return {"what": "the booked tree is not the tree named by the query / the descriptor", "observed": {"booked": c.package["book_trees"], "expected": tree}}
    if a.get("schema_ok") is not True:
        return {"what": "the output tree's schema differs from the query's final shape (names in order / own storage / declared type / variables written / fill target)",
                "observed": {"expected_names": names, "expected_types": types, "branches": c.package["branches"], "class_vars": c.package["class_vars"], "body": r["query"]}}
    return None


class Prop(CompilerProp):
    def evaluate(self, ctx, cases):
        for c in cases:
            if c.result is None:
                if not hasattr(c, "explicit") or not isinstance(c, SCase):
                    c.__class__ = SCase
                    c.explicit = None
                translate_case(c)
        acc = [c for c in cases if c.result["ok"]]
        ans = ctx.driver(DRIVER, [request(c) for c in acc], timeout=1500)
        for c, a in zip(acc, ans):
            c.answer = a


def after(ctx, c):
    ctx.count("terminal:" + ("explicit-mismatch" if c.explicit and c.explicit[2] else "explicit" if c.explicit else c.query["f"]["k"] if c.query["f"]["k"] in ("tuple", "list", "dict") else "bare"))


def nontrivial(c):
    if not c.result["ok"] or len(qgen.ops_used(c.query)) < 2:
        return False
    names, types = qtypes.columns(c.query)
    return len(names) >= 2 or any(t.startswith("std::vector") for t in types)


_P = Prop(ID, gen, judge, 240, 2400, with_query=False, after=after, nontrivial=nontrivial)
run, search, replay = _P.run, _P.search, _P.replay
