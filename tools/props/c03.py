"""C03 — output tree schema and returned descriptor match the query's final shape."""
from __future__ import annotations

import json
import re

import cgroup
import pipeline as P
import qgen
import qtypes  # cross-check only: the oracle is the Lean typing model (Linq/Typing.lean through C03/TypingDriver.lean)
from cprop import CompilerProp

ID = "C03"
LEAN_MODULES = ["FaxVerif.C03.Theorems", "FaxVerif.C03.TheoremsTyping", "FaxVerif.C03.TheoremsGen", "FaxVerif.C03.TheoremsLabels", "FaxVerif.C03.TheoremsDeclared", "FaxVerif.C03.TheoremsBook"]
LEAN_SOURCES = ["FaxVerif/C03", "FaxVerif/Gen", "FaxVerif/Cpp", "FaxVerif/Linq"]  # (C03/Labels.lean, C03/Declared.lean and their theorem files are under FaxVerif/C03)
DRIVER = cgroup.DRIVER
TYPING_DRIVER = "FaxVerif/C03/TypingDriver.lean"
SETUP_MODULES = cgroup.DRIVER_IMPORTS + ["FaxVerif.Linq.Typing", "FaxVerif.C03.Labels", "FaxVerif.C03.Declared"]  # what the two drivers import
THEOREMS = [
    "FaxVerif.C03.schema_ok_compile",
    "FaxVerif.C03.schema_ok_compileL",
    "FaxVerif.C03.schema_ok_compileN",
    "FaxVerif.C03.nested_column_pushed",
    "FaxVerif.C03.types_agree_with_typing",
    "FaxVerif.C03.types_agree_with_typing_counterexample",
    "FaxVerif.C03.types_agree_with_typingL",
    "FaxVerif.C03.types_agree_with_typingL_counterexample",
    "FaxVerif.C03.types_agree_with_typingN",
    "FaxVerif.C03.column_values_fit",
    "FaxVerif.C03.column_values_fitL",
    "FaxVerif.C03.column_values_fitN",
    "FaxVerif.C03.schema_ok_against_typing",
    "FaxVerif.C03.schema_ok_against_typingL",
    "FaxVerif.C03.schema_ok_against_typingN",
    "FaxVerif.C03.schema_names",
    "FaxVerif.C03.schema_own_storage",
    "FaxVerif.C03.schema_width",
    "FaxVerif.C03.tree_name",
    "FaxVerif.C03.elem_col_types",
    "FaxVerif.C03.branch_vars",
    # the typing model of the whole query language (C03/TheoremsTyping.lean)
    "FaxVerif.C03.type_soundness",
    "FaxVerif.C03.columns_sound",
    "FaxVerif.C03.columns_sound_labeled",
    "FaxVerif.C03.int_stays_int",
    "FaxVerif.C03.sum_has_element_type",
    "FaxVerif.C03.division_is_floating",
    "FaxVerif.C03.conditional_is_floating",
    "FaxVerif.C03.comparison_is_bool",
    "FaxVerif.C03.final_names_order",
    "FaxVerif.C03.final_names_dict",
    "FaxVerif.C03.final_names_tuple",
    "FaxVerif.C03.final_names_distinct_partial",
    "FaxVerif.C03.final_names_distinct_dict",
    "FaxVerif.C03.width",
    "FaxVerif.C03.label_mismatch_refused",
    "FaxVerif.C03.column_shapes",
    "FaxVerif.C03.declared_type_kept",
    "FaxVerif.C03.fn_is_declared_floating",
    "FaxVerif.C03.neg_bool_counterexample",
    "FaxVerif.C03.not_is_bool_of_a_number",
    "FaxVerif.C03.ite_bool_counterexample",
    # the terminal model (C03/Labels.lean, C03/TheoremsLabels.lean): label arguments, booking, descriptor
    "FaxVerif.C03.labels_accepted_iff",
    "FaxVerif.C03.accepted_iff_Accepts",
    "FaxVerif.C03.bare_label_accepted_iff",
    "FaxVerif.C03.bare_label_books_one_column",
    "FaxVerif.C03.bare_label_on_tuple_refused",
    "FaxVerif.C03.explicit_agrees_with_labeled",
    "FaxVerif.C03.implicit_is_explicit",
    "FaxVerif.C03.descriptor_matches_booking",
    "FaxVerif.C03.descriptor_ignores_file_argument",
    "FaxVerif.C03.book_refused_iff",
    "FaxVerif.C03.count_mismatch_refused",
    # methods declared with a tree type / const-qualified return type (C03/Declared.lean, C03/TheoremsDeclared.lean)
    "FaxVerif.C03.column_text_of_shape",
    "FaxVerif.C03.tree_type_wins",
    "FaxVerif.C03.shape_keeps_element_type",
    # translator model vs terminal model (C03/TheoremsBook.lean)
    "FaxVerif.C03.compile_matches_book",
]
RULE = (
    "type-directed random queries (C01 generator) with every terminal form: bare value, tuple, list, dict, and explicit "
    "ResultTTree(source, names, tree, file) with random names / tree names and, in a separate refusal stream, a wrong number of names; "
    "plus a deterministic stream with one column per typing rule and operand-kind combination (conditional with integer arms, int/int "
    "division, float+double both ways, Sum/Min/Max/First/Aggregate per element kind, vectors and vectors of vectors), element level and event level; "
    "the data model of every C03 query declares, through the query's own metadata, methods with const-qualified / multi-word / short-named "
    "return types (const short, unsigned int, const size_t, long, const char, const float) and four user C++ functions with different return "
    "types (float / double): deterministic rule columns and a random stream (60 / 600 cases) use them as scalar, vector and vector-of-vector "
    "columns, several functions side by side; explicit labels and tree names also from pools with ? \" \\ blank / ' (the booked names are "
    "compared after decoding them as C++ string literals, and the whole schema predicate is judged as well: the storage variable is an identifier whatever the label); "
    "the label ARGUMENT of an explicit ResultTTree in every form: a list, ONE bare string (as many characters as there are columns, more, fewer; on single "
    "values, 1-tuples, tuples and lists), a literal without a length (number / None) — a deterministic stream of every (terminal form, label argument) pair "
    "(77 cases), the main stream (by index) and the declared-types stream; explicit labels over list terminals; methods declared with a TREE type (an enum "
    "written as int, a const enum written as unsigned int) as scalar and vector columns, under First / comparisons, in dict / tuple / list / explicit terminals; "
    "three backends. The expected column names and C++ types, the booked tree and the descriptor of every case come from the Lean terminal model "
    "(C03/Labels.lean `book` over the typing model finalColumns / finalColumnsLabeled of Linq/Typing.lean, proved sound for the reference semantics; the "
    "column type of a declared method from C03/Declared.lean `methodColTy`); tools/qtypes.py is only cross-checked against it; "
    "implicit_is_explicit and explicit_agrees_with_labeled are also evaluated on every case. "
    "Checked on the implementation's output: decidable SchemaOk (names in order, own storage, declared once with the "
    "expected C++ type, body writes exactly the booked variables, fill names the booked tree) and "
    "the returned descriptor. type_soundness is also evaluated: on every generated case and event the value `denote` yields fits the type "
    "`typeOf` gives. Non-trivial: >=2 operators and >=2 columns or a sequence column."
)
TRUSTED_BASE = [
    "lean/FaxVerif/Linq/Typing.lean typeOf / finalColumns: the property's typing rules as an executable Lean model (sound for Linq.denote by "
    "C03.type_soundness / C03.columns_sound), given the declared kinds of the synthetic data model read from the metadata the translator receives",
    "tools/cparse.py parse of booking lines and class declarations (tools/props/c03.py reads class members with a multi-word type and, for "
    "labels that are not identifiers, the Branch lines' first argument itself: cparse_class_decl_multiword, booked_names_lenient)",
    "Linq.declTy: which column type a declared C++ return type text denotes (a top-level const is dropped, other arithmetic types are kept by name); "
    "C03.methodColTy: a method declared with a tree_type yields columns of the tree type",
    "lean/FaxVerif/C03/Labels.lean callResultTTree / implicitCall / book: the terminal as an executable model (a bare string is one label; values of the row "
    "counted against the labels; <prefix>_tree and ANALYSIS.root), compared with the real pipeline on every case (acceptance, names, types, tree, descriptor)",
]
ASSUMPTIONS = ["the runner delivers the file the job writes under the name ANALYSIS.root (C16 covers the runner)"]
LEVEL_TEXT = (
    "Lean 4 theorems on the translator model for all fragment queries: booked names = the final expression's names in order, one "
    "distinct storage variable per column, width, tree name, element-level column types (int stays int, / is double, comparisons bool). "
    "Lean 4 typing model of the WHOLE generator language (typeOf / finalColumns / finalColumnsLabeled) with type_soundness: for every query, "
    "every event of the data model and every environment, a value the query yields fits the column type the rules assign (every element of a "
    "sequence the element type, nested likewise); columns_sound: every row fits the booked columns cell by cell; int_stays_int, "
    "division_is_floating, conditional_is_floating, comparison_is_bool, final_names_order / _dict / _tuple, final_names_distinct_partial, width, "
    "label_mismatch_refused, column_shapes. That model is the oracle: the decidable schema predicate SchemaOk (Lean) is evaluated on the "
    "implementation's own parsed output for every generated query and all terminal forms against the names and C++ types the model computes; "
    "the returned descriptor and the count-mismatch refusal (decided by finalColumnsLabeled) are checked on the real pipeline. For the "
    "translator MODELS (Gen.compile, compileL with lazy operators, compileN with nested loops — each tied to the real translator's text "
    "on every run) the whole predicate is a theorem for every query of the fragment: schema_ok_compile / _compileL / _compileN (all "
    "eight conjuncts: names in order, own storage, declared once with the type, written by the body, nothing else written, a fill on the "
    "booked tree), the column types the model declares are the types the independent typing model assigns to the user-level query "
    "(types_agree_with_typing / L / N, with the two exclusions proved necessary by counterexamples: columns of bare objects, and/or on "
    "non-boolean operands), hence every value the query can evaluate to fits the C++ type booked for its column (column_values_fit / L / N). "
    "Terminal model (C03/Labels.lean: _extract_column_names, call_ResultTTree's count check and tree types, get_as_ROOT's wrapping, the descriptor): "
    "labels_accepted_iff / accepted_iff_Accepts characterise EXACTLY which (row, label argument) pairs are accepted and what is booked — a bare string is one "
    "label whatever its length (bare_label_accepted_iff, bare_label_books_one_column, bare_label_on_tuple_refused), a literal without a length is refused, "
    "count_mismatch_refused / book_refused_iff; implicit_is_explicit and explicit_agrees_with_labeled tie it to finalColumns / finalColumnsLabeled; "
    "descriptor_matches_booking for every query, terminal, label argument, tree and file name (descriptor tree = booked tree = filled tree = the terminal's; "
    "file = ANALYSIS.root: descriptor_ignores_file_argument; names = the final expression's names in order); compile_matches_book: for every query of "
    "the one-loop fragment the translator model's package (tree, branch names, declared types) is what the terminal model books and its descriptor names. Declared methods: shape_keeps_element_type, "
    "tree_type_wins, column_text_of_shape (an enum declared to be written as int is int / std::vector<int> / std::vector<std::vector<int>>)."
)
LEVEL_NOTE = (
    "Proved on the translator model (tied by C01's text tie): names, distinct storage, width, tree name, element-level scalar types. Proved on the "
    "typing model for all queries: soundness of the expected types, names/order/width/labels of the final shape. Not proved: that the TRANSLATOR "
    "assigns the model's type to every query (evaluated per generated program through SchemaOk) and 'body writes exactly the booked variables' for "
    "all queries. Where the translator's own rule is not the type of Python's value the model follows Python and the difference is a proved "
    "counterexample outside the generated stream: -b (bool operand) is booked bool, a conditional with boolean arms is "
    "booked double (neg_bool_/ite_bool_counterexample; `not` of a number is bool in the model and, since fix ea7911a, in the translator: "
    "not_is_bool_of_a_number, exercised by the typing-rules stream); distinct names need distinct dict keys (final_names_distinct_partial). "
    "User C++ functions are typed only when declared to return float or double (denote gives every function a floating value: "
    "fn_is_declared_floating). The terminal model is tied to the real pipeline by comparison on every generated case (acceptance, names, types, tree, "
    "descriptor), not by a proof about the translator; a dict / set literal as label argument (accepted by the code as the list of its keys) is outside the model. "
    "Known: unique_name = name ++ index is not injective (column x1 at counter 0 vs column x at counter 10); a vector-of-vectors column of a method declared "
    "with a tree_type is booked with the declared type instead of the tree type (kept out of the generators, replayed as a known finding)."
)
TECHNIQUE = "Lean 4 theorems on the translator model and on a typing model of the query language (type soundness) + decidable schema predicate (Lean) evaluated on the implementation's output against the typing model's columns"
DESIGN_REF = "DESIGN.md §4 C03"

PREFIX = {"atlas": "atlas_xaod", "cms_aod": "cms_aod", "cms_miniaod": "cms_miniaod"}


# ---------------------------------------------------------------- the data model of C03's queries
# qgen's synthetic model plus, declared through the query's own metadata (like qgen's `vpf`):
#  * methods whose DECLARED return type is const-qualified / multi-word / short-named (the column must have the value type);
#  * several user C++ functions with DIFFERENT return types (each column must carry its own function's type). The last
#    declared one returns float, the others double: a mix-up between them shows in the booked type.
DECLARED = {"cs": "const short", "ui": "unsigned int", "sz": "const size_t", "lg": "long", "ch": "const char", "cf": "const float"}
USERFNS = [
    {"metadata_type": "add_cpp_function", "name": "upf", "include_files": [], "arguments": ["d"], "code": ["auto result = d + 1.0;"], "return_type": "double"},
    {"metadata_type": "add_cpp_function", "name": "xpf", "include_files": [], "arguments": ["d", "i"], "code": ["auto result = d - i;"], "return_type": "float"},
    {"metadata_type": "add_cpp_function", "name": "wpf", "include_files": [], "arguments": ["d"], "code": ["auto result = d * 0.5;"], "return_type": "float"},
]
# methods DECLARED WITH A TREE TYPE (`tree_type`: the type their values are written as in the tree — an enum stored as an integer):
# name -> (return type relative to the element class, tree type). The column of such a method has the TREE type whatever its
# shape (scalar / vector); the C03-local declared-method table (`sig`) hands the tree type to the typing model.
TREE_TYPED = {"ql": ("{et}::Quality", "int"), "cq": ("const {et}::Kind", "unsigned int")}
_MD = {}


def metadata(backend):
    if backend not in _MD:
        mds = list(qgen.metadata(backend))
        for c in qgen.COLLS:
            et = qgen.elem_type(backend, c)
            for m, rt in DECLARED.items():
                mds.append({"metadata_type": "add_method_type_info", "type_string": et, "method_name": m, "return_type": rt})
            for m, (rt, tt) in TREE_TYPED.items():
                mds.append({"metadata_type": "add_method_type_info", "type_string": et, "method_name": m, "return_type": rt.format(et=et), "tree_type": tt})
        _MD[backend] = mds + USERFNS
    return _MD[backend]


def uses_extras(q) -> bool:
    """the query mentions a method / function that only C03's data model declares (tools/qtypes.py does not know them)"""
    if isinstance(q, dict):
        if (q.get("k") == "meth" and (q.get("n") in DECLARED or q.get("n") in TREE_TYPED)) or (q.get("k") == "fn" and q.get("f") in ("upf", "xpf", "wpf")):
            return True
        return any(uses_extras(v) for v in q.values())
    if isinstance(q, list):
        return any(uses_extras(v) for v in q)
    return False


def decorate_events(events):
    """every object of the events also answers the DECLARED methods (values derived from its own attributes: no random draw)"""
    def obj(v):
        if not isinstance(v, dict):
            return
        if "v" in v:
            for x in v["v"]:
                obj(x)
        if "o" in v:
            a = v["o"]["a"]
            have = {kv["k"]: kv["v"] for kv in a}
            if "i" in have and "cs" not in have:
                i, j = have["i"].get("i", 0), have.get("j", {}).get("i", 0)
                a += [{"k": "cs", "v": {"i": i}}, {"k": "ui", "v": {"i": j}}, {"k": "sz", "v": {"i": j + 1}}, {"k": "lg", "v": {"i": i * 1000}},
                      {"k": "ch", "v": {"i": 65 + j}}, {"k": "cf", "v": have.get("f", {"d": "0.5"})}]
            if "i" in have and "ql" not in have:
                i, j = have["i"].get("i", 0), have.get("j", {}).get("i", 0)
                a += [{"k": "ql", "v": {"i": j % 3}}, {"k": "cq", "v": {"i": abs(i) % 2}}]
            for kv in a:
                obj(kv["v"])
    for ev in events:
        for b in ev.get("banks", []):
            obj(b.get("content"))
    return events


ODD_LABELS = ['p?t', 'a"b', 'c\\d', 'e f', 'g/h', '??/x', 'q\\?', '"', 'x\\"y', "it's"]
ODD_TREES = ['tr?ee', 't"q', 'b\\s', 'a b/c', '??/', 'n\\"m', 'w\\?', '"']
IDENT = re.compile(r"^[A-Za-z_]\w*$")
BARE_ALPHABET = "ptxyzwnmabcdefgh"  # bare-string label arguments are slices of this (every character an identifier)


def label_list(labels):
    """the labels a ResultTTree label argument denotes: a bare string is ONE label (`_extract_column_names`); a literal
    without a length ({"scalar": value}: a number, None) denotes none"""
    if isinstance(labels, dict):
        return []
    return [labels] if isinstance(labels, str) else list(labels)


def label_arg_json(labels):
    """the label argument for the Lean terminal model (C03.LabelArg)"""
    if isinstance(labels, dict):
        return {"scalar": True}
    return {"bare": labels} if isinstance(labels, str) else {"list": list(labels)}


def label_src(labels) -> str:
    """the label argument as written in the query text"""
    return repr(labels["scalar"]) if isinstance(labels, dict) else repr(labels if isinstance(labels, str) else list(labels))


class SCase(cgroup.Case):
    explicit = None  # (label argument: list of names | ONE bare string, tree, mismatch intended by the generator) for an explicit ResultTTree
    typing = None  # answers of the Lean typing model: {"default":…, "labeled":…|None, "sound":…}
    expected = None  # (names, C++ types, tree) the Lean model demands; None when it demands a refusal or has no answer
    descriptor = None  # (treename, filename, tree of the fill) of the Lean terminal model

    def key(self):
        k = super().key()
        if self.explicit:
            k += " |ResultTTree " + label_src(self.explicit[0]) + " " + repr(self.explicit[1])
        return k

    def to_json(self):
        d = super().to_json()
        if self.explicit:
            d["explicit"] = [self.explicit[0] if isinstance(self.explicit[0], (str, dict)) else list(self.explicit[0]), self.explicit[1], self.explicit[2]]
        return d


def as_scase(c, j=None):
    if not isinstance(c, SCase):
        c.__class__ = SCase
        c.explicit = None
        decorate_events(c.events)
    if j and j.get("explicit"):
        l0 = j["explicit"][0]
        c.explicit = (l0 if isinstance(l0, (str, dict)) else list(l0), j["explicit"][1], bool(j["explicit"][2]))
    return c


def odd_labels(c) -> bool:
    """a label that is not an identifier: the storage variable's name is derived from it (see `judge`)"""
    return bool(c.explicit) and any(not IDENT.match(n) for n in label_list(c.explicit[0]))


def gen(ctx, i):
    c = cgroup.gen_case(ctx.rng, backend=P.BACKENDS[i % 3], nevents=1)
    as_scase(c)
    kind = i % 20  # 0..5: explicit ResultTTree (30%); 0 and 1: with a wrong number of labels (one too many / one too few)
    if kind < 6:
        # (the number of labels follows the generator's own count of columns; whether the label list fits is DECIDED by the
        # Lean model — finalColumnsLabeled — in `evaluate`, and a difference between the two is reported)
        width = len(c.names)
        newnames = [ctx.rng.choice(["pt", "eta", "n", "jetPt", "x"]) + str(k) for k in range(width)]
        mismatch = kind < 2
        if mismatch:
            newnames = newnames + ["extra"] if kind == 0 else newnames[:-1]  # (a bare value with NO label at all included)
        tree = ctx.rng.choice(["mytree", "t", "analysis_tree", "trees/nominal", "a b", "T-1.x", "/t"])
        # names that need escaping inside a C++ string literal (? " \ blank /): chosen by the case's index, not by a random
        # draw, so that the random stream of queries is the same with and without them
        block = i // 20
        if block % 2 == 1 and kind in (1, 3, 5):
            newnames = [ODD_LABELS[(block + 3 * k + kind) % len(ODD_LABELS)] + str(k) for k in range(len(newnames))]
        if block % 3 != 0 and kind in (2, 3):
            tree = ODD_TREES[(block + kind) % len(ODD_TREES)]
        # ONE bare string as the label argument (the qastle text form allows `ResultTTree(seq, 'pt', 'tree', 'file')`): one
        # label whatever its length. kind 4: as many CHARACTERS as there are columns; kind 0 in odd blocks: one more.
        # (chosen by the index; whether it fits is decided by the Lean model: only a single column takes it)
        labels = newnames
        if kind == 4 or (kind == 0 and block % 2 == 1):
            labels = BARE_ALPHABET[block % 5:][: width + (1 if kind == 0 else 0)]
            mismatch = width != 1
        c.explicit = (labels, tree, mismatch)
        # AsROOTTTree understands a sequence of tuples or of single items (README), not of dicts; a list is read like a tuple
        if c.query["f"]["k"] == "dict" or (c.query["f"]["k"] == "list" and block % 2 == 0):
            c.query = {**c.query, "f": {"k": "tuple", "es": c.query["f"]["es"]}}
    return c


def translate_case(c):
    cgroup.set_counter(c)
    mds = metadata(c.backend)
    src = qgen.render_functional(c.query, mds)
    if c.explicit:
        names, tree, _ = c.explicit
        src = f"ResultTTree({src}, {label_src(names)}, {tree!r}, 'out.root')"
    c.result = P.translate_functional(c.backend, src)
    if c.result["ok"]:
        c.package = qgen.package_json(c.result)
        # class declarations with a multi-word type (`unsigned int _col02;`) are beyond tools/cparse.py's pattern
        decl = cparse_class_decl_multiword(c.result["class_decl"])
        c.package["class_vars"] = [d if cv["n"] == "?" else cv for cv, d in zip(c.package["class_vars"], decl)] if len(decl) == len(c.package["class_vars"]) else c.package["class_vars"]
    return c


_DECL_RE = re.compile(r"^(?P<t>\S(?:.*\S)?)\s+(?P<n>[A-Za-z_]\w*);$")


def cparse_class_decl_multiword(lines):
    """`<type words> <identifier>;` per class member, the type's blanks normalised"""
    res = []
    for x in lines:
        s = (x if isinstance(x, str) else " ".join(x)).strip()
        m = _DECL_RE.match(s)
        res.append({"t": " ".join(m.group("t").split()), "n": m.group("n")} if m else {"t": "?", "n": "?"})
    return res


_BRANCH_LENIENT = re.compile(r'^myTree->Branch\((?P<n>"(?:[^"\\]|\\.)*"), &(?P<v>.*)\);$')


def booked_names_lenient(book_lines):
    """the first argument of every `myTree->Branch(` line of the booking code, read as a C++ string literal, in order; None
    for a line whose first argument is not one well-formed literal followed by `, &<storage>);`"""
    import cparse

    out = []
    for raw in book_lines:
        l = raw.strip()
        if not l.startswith("myTree->Branch"):
            continue
        m = _BRANCH_LENIENT.match(l)
        out.append(cparse.unescape_c(m.group("n")) if m else None)
    return out


# ---------------------------------------------------------------- the Lean typing model as the oracle

_SIG = {}


def _ty(t: str, known) -> str:
    """a C++ type of the metadata in the driver's notation; what column type a declared scalar text denotes is decided
    by the Lean model (`Linq.declTy`), the text is handed over as it stands"""
    t = t.strip()
    if t.startswith("std::vector<") and t.endswith(">"):
        return "vec:" + _ty(t[len("std::vector<"):-1], known)
    if t in known:
        return "obj:" + t
    return "decl:" + t


def sig(backend):
    """The declared kinds of the data model, read from the very metadata the translator is given (qgen.metadata):
    collection accessor -> element class, class -> method -> declared return type."""
    if backend not in _SIG:
        mds = metadata(backend)
        colls = [{"name": d["name"], "cls": d["element_type"]} for d in mds if d["metadata_type"] == qgen.MDTYPE[backend]]
        known = {c["cls"] for c in colls}
        classes = {k: [] for k in sorted(known)}
        for d in mds:
            if d["metadata_type"] != "add_method_type_info":
                continue
            # (C03-local declared-method table, lean/FaxVerif/C03/Declared.lean `methodColTy`: a method declared with a
            # `tree_type` yields columns of THAT type, in every shape; the text is handed over as the metadata has it)
            t = d.get("return_type_collection") or d["return_type"]
            m = {"name": d["method_name"], "type": _ty(t, known)}
            if d.get("tree_type"):
                m["tree"] = d["tree_type"]
            classes.setdefault(d["type_string"], []).append(m)
        fns = [{"name": d["name"], "type": _ty(d["return_type"], known)} for d in mds if d["metadata_type"] == "add_cpp_function"]
        _SIG[backend] = {"colls": colls, "classes": [{"cls": k, "methods": v} for k, v in classes.items()], "fns": fns}
    return _SIG[backend]


def attach_typing(ctx, cases):
    """One driver call: for every case the model's columns (default naming; with the labels when the case is an explicit
    ResultTTree) and type_soundness evaluated on the case's events. Sets c.typing and c.expected; cross-checks qtypes."""
    todo = [c for c in cases if c.typing is None]
    reqs, idx = [], []
    for c in todo:
        q = c.lean_query or c.query
        S = sig(c.backend)
        k0 = len(reqs)
        reqs.append({"op": "columns", "sig": S, "query": q, "labels": None})
        reqs.append({"op": "sound", "sig": S, "query": q, "events": c.events, "coll_types": qgen.coll_types(c.backend)})
        # the terminal model (C03/Labels.lean `book`): implicit terminal, and the explicit one with the label ARGUMENT as written
        reqs.append({"op": "book", "sig": S, "query": q, "prefix": PREFIX[c.backend], "terminal": None})
        if c.explicit:
            ls = c.explicit[0]
            reqs.append({"op": "columns", "sig": S, "query": q, "labels": label_list(ls)})
            reqs.append({"op": "book", "sig": S, "query": q, "prefix": PREFIX[c.backend],
                         "terminal": {"arg": label_arg_json(ls), "tree": c.explicit[1], "file": "out.root"}})
        idx.append((k0, len(reqs)))
    ans = ctx.driver(TYPING_DRIVER, reqs, timeout=900)
    for c, (a, b) in zip(todo, idx):
        r = ans[a:b]
        c.typing = {"default": r[0], "sound": r[1], "implicit": r[2], "labeled": r[4] if c.explicit else None, "labeled_columns": r[3] if c.explicit else None}
        c.expected = None
        if any("bad" in x for x in r):
            continue  # (the driver's failure is already a broken obligation)
        ident = {"backend": c.backend, "source": c.source(), "explicit": SCase.to_json(c).get("explicit")}
        d = c.typing["default"]
        # 1 the model types every generated query
        if "error" in d:
            ctx.disagreement("C03 typing model assigns no column type to a generated query", ident, d, {"generator_names": c.names})
            continue
        # 2 cross-check: tools/qtypes.py (the former oracle) and the generator's own column names
        try:
            if uses_extras(c.query):
                raise KeyError("methods / functions of C03's own data model")
            qn, qt = qtypes.columns(c.query)
            if (qn, qt) != (d["names"], d["types"]):
                ctx.disagreement("C03 typing model vs tools/qtypes.py", ident, {"names": d["names"], "types": d["types"]}, {"names": qn, "types": qt})
        except Exception as e:  # qtypes knows less than the model: not a defect of the model
            ctx.count("cross-check:qtypes-has-no-answer")
        if c.names and not c.explicit and list(c.names) != d["names"]:
            ctx.disagreement("C03 typing model vs the generator's column names", ident, d["names"], list(c.names))
        # 3 type_soundness evaluated: every value fits its type, every generated event is an event of the data model
        for k, e in enumerate(c.typing["sound"].get("events", [])):
            ctx.count("soundness:" + e["outcome"].split(" ")[0].split(":")[0])
            if not e["event_ok"]:
                ctx.disagreement("C03 generated event is not an event of the declared data model (eventOk)", {**ident, "event": k}, e, None)
            if e["outcome"].startswith("ILL-TYPED"):
                ctx.disagreement("C03 type_soundness evaluated: a value denote yields does not fit the type typeOf gives", {**ident, "event": k}, {"type": c.typing["sound"].get("type")}, e["outcome"][:400])
        # 4 what the tree must look like: the terminal model's booking and descriptor
        imp = c.typing["implicit"]
        # (implicit_is_explicit evaluated: the implicit terminal books finalColumns on <prefix>_tree)
        if (imp.get("names"), imp.get("types"), imp.get("tree")) != (d["names"], d["types"], PREFIX[c.backend] + "_tree"):
            ctx.disagreement("C03 terminal model (book, implicit) vs finalColumns", ident, imp, d)
        if c.explicit:
            lab, lc = c.typing["labeled"], c.typing["labeled_columns"]
            refused = "error" in lab
            # (explicit_agrees_with_labeled evaluated: book with the argument as written = finalColumnsLabeled on the labels it denotes)
            if isinstance(c.explicit[0], dict):
                if not refused:  # (a literal without a length denotes no labels at all: LabelArg.names = none)
                    ctx.disagreement("C03 terminal model accepts a label argument that has no length", ident, lab, None)
            elif refused != ("error" in lc) or (not refused and (lab["names"], lab["types"]) != (lc["names"], lc["types"])):
                ctx.disagreement("C03 terminal model (book, explicit) vs finalColumnsLabeled", ident, lab, lc)
            if refused != bool(c.explicit[2]):
                ctx.disagreement("C03 typing model vs the generator: does the label argument fit the columns", ident, lab, {"generator_intends_mismatch": c.explicit[2], "width": len(d["names"])})
            if not refused:
                c.expected = (lab["names"], lab["types"], lab["tree"])
                c.descriptor = (lab["treename"], lab["filename"], lab["fill"])
        else:
            c.expected = (imp["names"], imp["types"], imp["tree"])
            c.descriptor = (imp["treename"], imp["filename"], imp["fill"])


def request(c):
    r = cgroup.request(c, with_query=False)
    if c.expected is not None:
        names, types, tree = c.expected
        r["schema"] = {"names": names, "types": types, "fill": (c.descriptor[2] if c.descriptor else tree) if c.backend == "atlas" else ""}
    return r


def model_refuses(c) -> bool:
    """explicit labels that the Lean model (finalColumnsLabeled) rejects while the query itself has columns"""
    t = c.typing or {}
    return bool(c.explicit) and t.get("labeled") is not None and "error" in t["labeled"] and "names" in (t.get("default") or {})


def judge(c):
    r = c.result
    if model_refuses(c):
        if r["ok"]:
            return {"what": "a column / label count mismatch is accepted (label argument `%s`: %d label(s) for %d column(s))" % (label_src(c.explicit[0]), len(label_list(c.explicit[0])), len(c.typing["default"].get("names") or [])),
                    "observed": {"label_argument": c.explicit[0], "model": c.typing["labeled"], "branches": c.package["branches"]}}
        return None
    if not r["ok"]:
        return None
    a = c.answer
    if a is None or "bad" in a or c.expected is None:
        return None
    names, types, tree = c.expected
    dtree, dfile, _fill = c.descriptor or (tree, "ANALYSIS.root", tree)
    if r["treename"] != dtree or r["filename"] != dfile:
        return {"what": "the returned descriptor does not name the tree / file the job writes", "observed": {"descriptor": [r["treename"], r["filename"]], "expected": [dtree, dfile]}}
    if c.package["book_trees"] and set(c.package["book_trees"]) != {tree}:
        return {"what": "the booked tree is not the tree named by the query / the descriptor", "observed": {"booked": c.package["book_trees"], "expected": tree}}
    if odd_labels(c):
        # A label that is not an identifier (`p?t`, `a"b`): first the booked names as the Branch lines' own string literals, decoded
        # (independent of tools/cparse.py's reading of the line), are the labels in order; then — the storage variable is an
        # identifier whatever the label is (unique_name keeps identifier characters only) — the whole schema predicate below.
        got = booked_names_lenient(r["book"])
        if got != list(names):
            return {"what": "the booked column names (the Branch lines' string literals, decoded) are not the labels given to ResultTTree, in order",
                    "observed": {"labels": names, "decoded": got, "book": r["book"]}}
    if a.get("schema_ok") is not True:
        return {"what": "the output tree's schema differs from the query's final shape (names in order / own storage / declared type / variables written / fill target)",
                "observed": {"expected_names": names, "expected_types": types, "branches": c.package["branches"], "class_vars": c.package["class_vars"], "body": r["query"]}}
    return None


class Prop(CompilerProp):
    def evaluate(self, ctx, cases):
        for c in cases:
            as_scase(c)
        attach_typing(ctx, cases)
        for c in cases:
            if c.result is None:
                translate_case(c)
        acc = [c for c in cases if c.result["ok"]]
        ans = ctx.driver(DRIVER, [request(c) for c in acc], timeout=1500)
        for c, a in zip(acc, ans):
            c.answer = a

    def known(self, ctx):
        """as CompilerProp.known, with the explicit terminal of the stored case"""
        for e in ctx.known_entries("known") + ctx.known_entries("fixed"):
            if "query" not in e.get("input", {}):
                continue
            c = as_scase(cgroup.Case.from_json(e["input"]), e["input"])
            self.evaluate(ctx, [c])
            hit = self.judge(c)
            if hit is not None and hit.get("kind") != "broken":
                key = e["key"] if e["status"] == "known" else "regressed:" + e["key"]
                ctx.violation(key=key, what=e["what"], case=c.to_json(), observed=hit.get("observed"), how=self.how)

    def run(self, ctx):
        """as CompilerProp.run; the corpus cases keep their explicit terminal (label argument, tree)"""
        from vlib import corpus_cases

        self.known(ctx)
        corpus = [as_scase(cgroup.Case.from_json(j), j) for j in corpus_cases(self.pid)]
        if corpus:
            self.stream(ctx, corpus, "corpus")
        n = self.n_quick if ctx.tier == "quick" else self.n_thorough
        i = 0
        while i < n:
            ctx.check_time()
            m = min(400, n - i)
            self.stream(ctx, [self.gen(ctx, i + k) for k in range(m)], "generated")
            i += m
        ctx.extra_cov["exhaustive"] = False
        self.run_parse_tie(ctx)

    def replay(self, ctx, rep) -> int:
        c = cgroup.Case.from_json(rep["case"])
        as_scase(c, rep["case"])
        self.evaluate(ctx, [c])
        hit = self.judge(c)
        print("query :", c.source(), "| explicit:", c.explicit)
        print("model :", c.typing)
        print("\n".join((c.result or {}).get("query", [])) if c.result and c.result.get("ok") else c.result)
        print("answer:", {k: v for k, v in (c.answer or {}).items() if k in ("schema_ok", "bad")})
        print("VIOLATION" if hit else "holds", hit or "")
        return 1 if hit and hit.get("kind") != "broken" else 0


def after(ctx, c):
    if odd_labels(c) and c.result and c.result.get("ok"):
        ctx.count("odd-labels:labels that are not identifiers (judged on the decoded Branch literals AND the schema predicate)")
    if c.explicit and not IDENT.match(c.explicit[1].replace("/", "_")):
        ctx.count("odd-tree-name")
    if c.explicit:
        ls, w = c.explicit[0], len((c.typing or {}).get("default", {}).get("names") or [])
        if isinstance(ls, dict):
            ctx.count("label-arg:a literal without a length (number / None)")
        elif isinstance(ls, str):
            ctx.count("label-arg:bare string, " + ("as many characters as columns" if len(ls) == w else "other length") + (", one column" if w == 1 else ", several columns"))
        else:
            ctx.count("label-arg:list")
        if c.query["f"]["k"] == "list":
            ctx.count("label-arg:over a list terminal")
    ctx.count("terminal:" + ("explicit-mismatch" if c.explicit and c.explicit[2] else "explicit" if c.explicit else c.query["f"]["k"] if c.query["f"]["k"] in ("tuple", "list", "dict") else "bare"))
    for t in (c.expected or ([], [], ""))[1]:
        ctx.count("column-type:" + t)


def nontrivial(c):
    if not c.result["ok"] or len(qgen.ops_used(c.query)) < 2 or c.expected is None:
        return False
    names, types, _ = c.expected
    return len(names) >= 2 or any(t.startswith("std::vector") for t in types)


# ---------------------------------------------------------------- one case per typing rule (deterministic)


def rule_exprs():
    """(rule, expression over an object `j`) — every rule of Linq.typeOf with the operand kinds that tell the rule from its
    neighbours (int/int division, a conditional with two integer arms, float+double in both orders, Sum of floats …)."""
    V = lambda n: {"k": "var", "n": n}
    M = lambda o, n: {"k": "meth", "o": o, "n": n}
    J = lambda n: M(V("j"), n)
    K = lambda n: M(V("k"), n)
    I = lambda v: {"k": "int", "v": v}
    Dbl = lambda v: {"k": "dbl", "v": v}
    B = lambda op, a, b: {"k": "bin", "op": op, "a": a, "b": b}
    C = lambda op, a, b: {"k": "cmp", "op": op, "a": a, "b": b}
    IF = lambda c, a, b: {"k": "if", "c": c, "a": a, "b": b}
    SEL = lambda s, x, f: {"k": "Select", "s": s, "x": x, "f": f}
    WH = lambda s, x, f: {"k": "Where", "s": s, "x": x, "f": f}
    T = lambda k, s: {"k": k, "s": s}
    AGG = lambda s, seed, f: {"k": "Aggregate", "s": s, "seed": seed, "acc": "acc", "x": "k", "f": f}
    kids = lambda f: SEL(J("kids"), "k", f)
    return [
        ("if:int,int", IF(J("b"), J("i"), I(5))),
        ("if:float,float", IF(J("b"), J("f"), J("f"))),
        ("if:double,int", IF(C(">", J("i"), I(1)), J("d"), I(1))),
        ("+:float,double", B("+", J("f"), J("d"))),
        ("+:double,float", B("+", J("d"), J("f"))),
        ("*:float,double", B("*", J("f"), J("g"))),
        ("-:double,float", B("-", J("g"), J("f"))),
        ("+:float,int", B("+", J("f"), J("i"))),
        ("+:int,float", B("+", J("i"), J("f"))),
        ("*:int,double", B("*", J("i"), J("d"))),
        ("*:double,int", B("*", J("d"), J("j"))),
        ("+:float,float", B("+", J("f"), J("f"))),
        ("-:int,int", B("-", J("i"), J("j"))),
        ("*:int,int", B("*", J("i"), I(3))),
        ("%:int,int", B("%", J("i"), I(3))),
        ("/:int,int", B("/", J("i"), I(2))),
        ("/:float,float", B("/", J("f"), J("f"))),
        ("/:float,int", B("/", J("f"), I(2))),
        ("**:int,int", B("**", J("i"), I(2))),
        ("**:float,int", B("**", J("f"), I(2))),
        ("neg:int", {"k": "neg", "a": J("i")}),
        ("neg:float", {"k": "neg", "a": J("f")}),
        ("neg:double", {"k": "neg", "a": B("*", J("d"), I(2))}),
        ("cmp:int,float", C("<", J("i"), J("f"))),
        ("cmp:int,int", C("==", J("i"), J("j"))),
        ("and", {"k": "and", "a": J("b"), "b": C(">", J("d"), Dbl("0.5"))}),
        ("or", {"k": "or", "a": C(">", J("i"), I(1)), "b": J("b")}),
        ("not", {"k": "not", "a": J("b")}),
        ("not:int", {"k": "not", "a": J("i")}),
        ("not:float", {"k": "not", "a": J("f")}),
        ("not:double", {"k": "not", "a": B("*", J("d"), I(2))}),
        ("Count", T("Count", J("vs"))),
        ("Count:where", T("Count", WH(J("kids"), "k", K("b")))),
        ("Sum:double", T("Sum", J("vs"))),
        ("Sum:int", T("Sum", kids(K("i")))),
        ("Sum:float", T("Sum", kids(K("f")))),
        ("Sum:int*int", T("Sum", kids(B("*", K("i"), K("j"))))),
        ("Min:int", T("Min", kids(K("i")))),
        ("Max:float", T("Max", kids(K("f")))),
        ("Max:double", T("Max", J("vs"))),
        ("First:float", T("First", kids(K("f")))),
        ("First:int", T("First", kids(K("i")))),
        ("First:double", T("First", J("vs"))),
        ("Aggregate:int+float", AGG(J("kids"), I(0), B("+", V("acc"), K("f")))),
        ("Aggregate:int+int", AGG(J("kids"), I(0), B("+", V("acc"), K("i")))),
        ("Aggregate:double+int", AGG(J("kids"), Dbl("0.5"), B("+", V("acc"), K("i")))),
        ("Aggregate:int+double", AGG(J("kids"), I(1), B("*", V("acc"), K("d")))),
        ("index:double", {"k": "sub", "a": J("vs"), "i": 0}),
        ("index:float", M({"k": "sub", "a": J("kids"), "i": 0}, "f")),
        ("fn", {"k": "fn", "f": "sqrt", "args": [J("f")]}),
        ("userfn", {"k": "fn", "f": "vpf", "args": [J("d"), J("i")]}),
        ("seq:float", kids(K("f"))),
        ("seq:float+int", kids(B("+", K("f"), K("i")))),
        ("seq:int", kids(B("*", K("i"), I(2)))),
        ("seq:bool", kids(C(">", K("d"), Dbl("1.5")))),
        ("seq:double*float", SEL(J("vs"), "v", B("*", V("v"), J("f")))),
        ("seq:if", kids(IF(K("b"), K("i"), K("j")))),
        ("seq:where", SEL(WH(J("kids"), "k", C(">", K("i"), I(0))), "k", B("/", K("i"), I(2)))),
        # declared return types that are const-qualified / multi-word / short-named: the column has the value type
        ("decl:const short", J("cs")),
        ("decl:unsigned int", J("ui")),
        ("decl:const size_t", J("sz")),
        ("decl:long", J("lg")),
        ("decl:const char", J("ch")),
        ("decl:const float", J("cf")),
        ("cmp:short,int", C(">", J("cs"), I(1))),
        ("not:unsigned", {"k": "not", "a": J("ui")}),
        ("if:const float,double", IF(C(">", J("sz"), I(1)), J("cf"), J("d"))),
        ("+:const float,int", B("+", J("cf"), J("i"))),
        ("First:size_t", T("First", kids(K("sz")))),
        ("Count:where char", T("Count", WH(J("kids"), "k", C(">", K("ch"), I(65))))),
        # methods declared with a TREE type (an enum written as an integer): scalar, vector, First, compared
        ("tree:enum as int", J("ql")),
        ("tree:const enum as unsigned int", J("cq")),
        ("cmp:enum,int", C("==", J("ql"), I(1))),
        ("not:enum", {"k": "not", "a": J("cq")}),
        ("First:enum as int", T("First", kids(K("ql")))),
        ("First:const enum", T("First", kids(K("cq")))),
        ("if:enum cond", IF(C(">", J("ql"), I(1)), J("d"), J("f"))),
        ("seq:enum as int", kids(K("ql"))),
        ("seq:const enum as unsigned int", kids(K("cq"))),
        ("seq:enum==", kids(C("==", K("ql"), I(2)))),
        # user C++ functions: every call has its OWN function's declared return type
        ("userfn:float", {"k": "fn", "f": "wpf", "args": [J("d")]}),
        ("userfn:double1", {"k": "fn", "f": "upf", "args": [J("g")]}),
        ("userfn:float2", {"k": "fn", "f": "xpf", "args": [J("d"), J("i")]}),
        ("userfn:float+double", B("+", {"k": "fn", "f": "wpf", "args": [J("d")]}, {"k": "fn", "f": "vpf", "args": [J("d"), J("j")]})),
        ("userfn:float*float", B("*", {"k": "fn", "f": "wpf", "args": [J("f")]}, {"k": "fn", "f": "xpf", "args": [J("d"), I(1)]})),
        ("seq:short", kids(K("cs"))),
        ("seq:unsigned int", kids(K("ui"))),
        ("seq:size_t", kids(K("sz"))),
        ("seq:char", kids(K("ch"))),
        ("seq:userfn float", kids({"k": "fn", "f": "wpf", "args": [K("d")]})),
        ("seq:userfn double", kids({"k": "fn", "f": "upf", "args": [K("d")]})),
        ("seqseq:long", kids(SEL(K("kids"), "k2", M(V("k2"), "lg")))),
        ("seqseq:unsigned int", kids(SEL(K("kids"), "k2", M(V("k2"), "ui")))),
        ("seqseq:userfn float", kids(SEL(K("vs"), "v", {"k": "fn", "f": "xpf", "args": [V("v"), K("i")]}))),
        # (vectors of vectors are columns of event-level rows only: `kids` stands for the event's collection there)
        ("seqseq:double", kids(K("vs"))),
        ("seqseq:double+float", kids(SEL(K("vs"), "v", B("+", V("v"), K("f"))))),
        ("seqseq:int", kids(SEL(K("kids"), "k2", M(V("k2"), "i")))),
        ("seqseq:float/", kids(SEL(K("kids"), "k2", B("+", M(V("k2"), "f"), K("i"))))),
    ]


def rule_cases():
    """The rule expressions as columns of real queries: three at a time as a dict / tuple of an element-level row
    (`….SelectMany(e -> e.As("ba")).Select(j -> {…})`), and every scalar one again as a vector column at event level
    (`ds.Select(e -> e.As("ba").Select(j -> expr))`). Deterministic: independent of the seed."""
    import random

    rng = random.Random("C03 typing rules")
    exprs = rule_exprs()
    coll = lambda e: {"k": "coll", "e": {"k": "var", "n": e}, "c": "As", "bank": "ba"}
    rows = {"k": "SelectMany", "s": {"k": "ds"}, "x": "e", "f": coll("e")}
    cases = []

    def add(q, names, form, rules):
        b = P.BACKENDS[len(cases) % 3]
        c = cgroup.Case(b, q, names, form, [qgen.gen_event(rng, b, {"ba": "As"}, empty_bias=0.0)])
        c.family = "typing-rules"
        as_scase(c)
        c.rules = rules
        cases.append(c)

    flat = [(r, e) for r, e in exprs if not r.startswith("seqseq")]
    for n in range(0, len(flat), 3):
        chunk = flat[n:n + 3]
        if (n // 3) % 2 == 0:
            ks = [f"r{n + i}" for i in range(len(chunk))]
            body, names = {"k": "dict", "ks": ks, "es": [e for _, e in chunk]}, ks
        else:
            body, names = {"k": "tuple", "es": [e for _, e in chunk]}, [f"col{i}" for i in range(len(chunk))]
        add({"k": "Select", "s": rows, "x": "j", "f": body}, names, "selectmany", [r for r, _ in chunk])
    for r, e in flat:
        if r.startswith(("seq", "index")):
            continue  # (a vector per element would be a vector of vectors here — below; an index inside a projection is evaluated lazily: C04's subject)
        add({"k": "Select", "s": {"k": "ds"}, "x": "e", "f": {"k": "Select", "s": coll("e"), "x": "j", "f": e}}, ["col1"], "select", [r])
    # event-level rows with vector and vector-of-vector columns: `j.kids()` of the expressions becomes the event's collection
    def at_event(q):
        if isinstance(q, dict):
            if q == {"k": "meth", "o": {"k": "var", "n": "j"}, "n": "kids"}:
                return coll("e")
            return {k: at_event(v) for k, v in q.items()}
        if isinstance(q, list):
            return [at_event(v) for v in q]
        return q

    deep = [(r, at_event(e)) for r, e in exprs if r.startswith("seq")]
    deep = [(r, e) for r, e in deep if not qgen._uses_var(e, "j")]
    for n in range(0, len(deep), 2):
        chunk = deep[n:n + 2]
        ks = [f"v{n + i}" for i in range(len(chunk))]
        add({"k": "Select", "s": {"k": "ds"}, "x": "e", "f": {"k": "dict", "ks": ks, "es": [e for _, e in chunk]}}, ks, "select", [r for r, _ in chunk])
    return cases


# ---------------------------------------------------------------- random queries over the DECLARED methods and the user functions


def gen_declared(rng, i):
    """Columns made of the methods with declared (const / multi-word / short-named) return types and of the user C++ functions
    (several per query, so that two functions of different return types sit side by side), as scalars of element-level rows, as
    vectors and vectors of vectors of event-level rows; every terminal form, explicit labels and tree names from the odd pools."""
    V = lambda n: {"k": "var", "n": n}
    M = lambda o, n: {"k": "meth", "o": o, "n": n}
    I = lambda v: {"k": "int", "v": v}
    FN = lambda f, *a: {"k": "fn", "f": f, "args": list(a)}
    backend = P.BACKENDS[i % 3]
    cname, bank = rng.choice([("As", "ba"), ("As", "ba2"), ("Bs", "bb")])
    coll = {"k": "coll", "e": V("e"), "c": cname, "bank": bank}

    def num(v):  # a double-ish argument
        return rng.choice([M(V(v), "d"), M(V(v), "g"), M(V(v), "f"), M(V(v), "cf"), {"k": "bin", "op": "*", "a": M(V(v), "d"), "b": I(2)}])

    def atom(v, nested=False):
        """`nested`: the column is a vector of vectors of this (a tree-typed method is kept out of there: listed known finding)"""
        k = rng.choice(["decl"] * 4 + ["tree"] * 3 + ["fn"] * 4 + ["fn2", "cmp", "not", "if", "first", "count", "plain"])
        if k == "tree":
            if nested:
                k = "decl"
            else:
                t = rng.choice(["m", "m", "m", "cmp", "first"])
                m = M(V(v), rng.choice(list(TREE_TYPED)))
                if t == "cmp":
                    return {"k": "cmp", "op": rng.choice(["==", "!=", ">"]), "a": m, "b": I(rng.choice([0, 1, 2]))}
                if t == "first":
                    return {"k": "First", "s": {"k": "Select", "s": M(V(v), "kids"), "x": v + "k", "f": M(V(v + "k"), rng.choice(list(TREE_TYPED)))}}
                return m
        if k == "decl":
            return M(V(v), rng.choice(list(DECLARED)))
        if k == "fn":
            f = rng.choice(["wpf", "upf", "xpf", "vpf"])
            return FN(f, num(v)) if f in ("wpf", "upf") else FN(f, num(v), M(V(v), rng.choice(["i", "j"])))
        if k == "fn2":
            f, g = rng.sample(["wpf", "upf", "xpf", "vpf"], 2)
            call = lambda h: FN(h, num(v)) if h in ("wpf", "upf") else FN(h, num(v), M(V(v), "i"))
            return {"k": "bin", "op": rng.choice(["+", "-", "*"]), "a": call(f), "b": call(g)}
        if k == "cmp":
            return {"k": "cmp", "op": rng.choice(["<", ">", ">=", "=="]), "a": M(V(v), rng.choice(list(DECLARED))), "b": I(rng.choice([0, 1, 2, 66]))}
        if k == "not":
            return {"k": "not", "a": M(V(v), rng.choice(["ui", "cs", "sz", "b"]))}
        if k == "if":
            return {"k": "if", "c": {"k": "cmp", "op": ">", "a": M(V(v), rng.choice(["sz", "ch", "i"])), "b": I(1)}, "a": M(V(v), "cf"), "b": FN("wpf", num(v))}
        if k == "first":
            return {"k": "First", "s": {"k": "Select", "s": M(V(v), "kids"), "x": v + "k", "f": M(V(v + "k"), rng.choice(list(DECLARED)))}}
        if k == "count":
            return {"k": "Count", "s": {"k": "Where", "s": M(V(v), "kids"), "x": v + "k", "f": {"k": "cmp", "op": ">", "a": M(V(v + "k"), rng.choice(["cs", "lg", "ch"])), "b": I(0)}}}
        return M(V(v), rng.choice(["i", "f", "d", "b"]))

    n = rng.randint(1, 4)
    if rng.random() < 0.5:  # element-level rows of scalars (and vectors over the element's own children)
        cols = [atom("j") for _ in range(n)]
        if rng.random() < 0.3:
            cols[rng.randrange(n)] = {"k": "Select", "s": M(V("j"), "kids"), "x": "k", "f": atom("k")}
        src, x, form = {"k": "SelectMany", "s": {"k": "ds"}, "x": "e", "f": coll}, "j", "selectmany"
    else:  # event-level rows: vectors, vectors of vectors, a count
        cols = []
        for _ in range(n):
            r = rng.random()
            if r < 0.6:
                cols.append({"k": "Select", "s": coll, "x": "j", "f": atom("j")})
            elif r < 0.9:
                cols.append({"k": "Select", "s": coll, "x": "j", "f": {"k": "Select", "s": M(V("j"), "kids"), "x": "k", "f": atom("k", nested=True)}})
            else:
                cols.append({"k": "Count", "s": coll})
        src, x, form = {"k": "ds"}, "e", "select"
    shape = rng.choice(["bare", "tuple", "list", "dict", "explicit", "explicit", "explicit-odd", "explicit-odd", "mismatch", "bare-label", "bare-label"]) if n > 1 else rng.choice(["bare", "bare", "tuple", "dict", "explicit", "explicit-odd", "mismatch", "bare-label", "bare-label"])
    as_list = shape != "list" and rng.random() < 0.3  # (explicit labels over a LIST terminal as well)
    single = shape == "bare-label" and rng.random() < 0.4  # a bare-string label on a single value
    if shape == "bare" or single:
        cols = cols[:1]
        body, names = cols[0], ["col1"]
    elif shape == "dict":
        ks = [f"k{k}_{rng.choice(['pt', 'eta', 'n'])}" for k in range(len(cols))]
        body, names = {"k": "dict", "ks": ks, "es": cols}, ks
    elif shape == "list":
        body, names = {"k": "list", "es": cols}, [f"col{k}" for k in range(len(cols))]
    else:
        body, names = {"k": "list" if as_list else "tuple", "es": cols}, [f"col{k}" for k in range(len(cols))]
    q = {"k": "Select", "s": src, "x": x, "f": body}
    c = cgroup.Case(backend, q, names, form, [qgen.gen_event(rng, backend, {bank: cname}, empty_bias=0.1)])
    c.family = "declared-types"
    as_scase(c)
    if shape == "bare-label":
        # ONE bare string: as many characters as columns (two times out of three), else one more / one fewer (not none)
        k = len(cols) if rng.random() < 0.67 else max(1, len(cols) + rng.choice([1, -1]))
        start = rng.randrange(5)
        tree = rng.choice(ODD_TREES if rng.random() < 0.3 else ["mytree", "t", "trees/nominal", "a b"])
        c.explicit = (BARE_ALPHABET[start:start + k], tree, len(cols) != 1)
    if shape.startswith("explicit") or shape == "mismatch":
        pool = ODD_LABELS if shape == "explicit-odd" or (shape == "mismatch" and rng.random() < 0.5) else ["pt", "eta", "n", "jetPt", "x"]
        labels = [rng.choice(pool) + str(k) for k in range(len(cols))]
        if shape == "mismatch":
            labels = labels + ["extra"] if rng.random() < 0.5 else labels[:-1]
        tree = rng.choice(ODD_TREES if rng.random() < 0.6 else ["mytree", "t", "trees/nominal", "a b"])
        c.explicit = (labels, tree, shape == "mismatch")
    return c


# ---------------------------------------------------------------- every (terminal form, label argument) pair (deterministic)


def label_cases():
    """Explicit ResultTTree over every terminal form (single scalar / single vector / element-level single value, 1-tuple, tuples and
    lists of 2..4 columns, a dict) with every form of label argument: ONE bare string with as many characters as there are columns,
    with one more, with a single character; a list with exactly / one more / one fewer labels. What is accepted and what is booked
    is decided by the Lean model (finalColumnsLabeled on the labels the argument denotes: a bare string is one label).
    Deterministic: independent of the seed."""
    import random

    rng = random.Random("C03 label forms")
    V = lambda n: {"k": "var", "n": n}
    M = lambda o, n: {"k": "meth", "o": o, "n": n}
    J = lambda n: M(V("j"), n)
    coll = {"k": "coll", "e": V("e"), "c": "As", "bank": "ba"}
    vec = lambda m: {"k": "Select", "s": coll, "x": "j", "f": J(m)}
    count = {"k": "Count", "s": coll}
    ev = lambda body: ({"k": "Select", "s": {"k": "ds"}, "x": "e", "f": body}, "select")
    el = lambda body: ({"k": "Select", "s": {"k": "SelectMany", "s": {"k": "ds"}, "x": "e", "f": coll}, "x": "j", "f": body}, "selectmany")
    T = lambda *es: {"k": "tuple", "es": list(es)}
    L = lambda *es: {"k": "list", "es": list(es)}
    terminals = [
        ("single scalar", ev(count), 1),
        ("single vector", ev(vec("d")), 1),
        ("single value per element", el(J("i")), 1),
        ("single tree-typed vector", ev(vec("ql")), 1),
        ("1-tuple", ev(T(count)), 1),
        ("2-tuple", ev(T(count, vec("d"))), 2),
        ("2-list", ev(L(vec("ql"), vec("cs"))), 2),
        ("3-list per element", el(L(J("i"), J("f"), J("b"))), 3),
        ("3-tuple", ev(T(count, vec("f"), vec("cq"))), 3),
        ("4-tuple per element", el(T(J("i"), J("d"), J("ql"), J("ui"))), 4),
        ("dict", ev({"k": "dict", "ks": ["a", "b"], "es": [count, vec("d")]}), 2),
    ]
    cases = []
    for ti, (tname, (q, form), w) in enumerate(terminals):
        args = [
            ("bare:as many characters as columns", BARE_ALPHABET[ti % 5:][:w]),
            ("bare:one more character", BARE_ALPHABET[(ti + 1) % 5:][: w + 1]),
            ("bare:" + ("one character" if w > 1 else "three characters"), "q" if w > 1 else "eta"),
            ("list:exact", [f"{BARE_ALPHABET[(ti + k) % 16]}{k}" for k in range(w)]),
            ("list:one more", [f"n{k}" for k in range(w + 1)]),
            ("list:one fewer", [f"m{k}" for k in range(w - 1)]),
            ("no length:" + ("number" if ti % 2 else "None"), {"scalar": w if ti % 2 else None}),
        ]
        for ai, (aname, arg) in enumerate(args):
            b = P.BACKENDS[(ti + ai) % 3]
            names = ["col1"] if q["f"]["k"] not in ("tuple", "list", "dict") else (q["f"]["ks"] if q["f"]["k"] == "dict" else [f"col{k}" for k in range(w)])
            c = cgroup.Case(b, q, names, form, [qgen.gen_event(rng, b, {"ba": "As"}, empty_bias=0.0)])
            c.family = "label-forms"
            as_scase(c)
            # what the generator intends (the Lean model decides): a dict takes no labels; otherwise the NUMBER OF LABELS must be the width
            c.explicit = (arg, ["t", "mytree", "trees/nominal"][(ti + ai) % 3], tname == "dict" or isinstance(arg, dict) or len(label_list(arg)) != w)
            c.label_form = (tname, aname)
            cases.append(c)
    return cases


_P = Prop(ID, gen, judge, 240, 2400, with_query=False, after=after, nontrivial=nontrivial,
          how="translate `source` wrapped in the metadata of tools/props/c03.py `metadata(backend)` (tools/qgen.py's synthetic data model plus the DECLARED "
              "methods and USERFNS), and in ResultTTree(source, labels, tree, 'out.root') when the case has `explicit` = [labels, tree, mismatch], on `backend` "
              "through apply_ast_transformations + write_cpp_files; read the booking code, the class declaration and the returned descriptor")
search, replay = _P.search, _P.replay


def run(ctx):
    cases = rule_cases()
    for c in cases:
        for r in c.rules:
            ctx.count("rule:" + r.split(":")[0])
    _P.stream(ctx, cases, "typing-rules")
    lcases = label_cases()
    for c in lcases:
        ctx.count("label-form:" + c.label_form[0] + " / " + c.label_form[1])
    _P.stream(ctx, lcases, "label-forms")
    import random

    rng = random.Random(f"C03 declared types:{ctx.seed}")  # (its own generator: the main stream's draws stay what they are)
    n = 60 if ctx.tier == "quick" else 600
    _P.stream(ctx, [gen_declared(rng, i) for i in range(n)], "declared-types")
    _P.run(ctx)
