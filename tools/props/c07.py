"""C07 — translating a query is independent of every query handled before it.

Model : lean/FaxVerif/C07/Model.lean — the process-global and per-executor state func_adl_xAOD carries from one
        translation to the next (`HState`), `executor.__init__`/`add_extended_md`/`apply_ast_transformations`/
        `write_cpp_files`/`reset` as `newExec`/`addXmd`/`translateWith`, the translator proper an uninterpreted
        function of an explicit `View`.
Tie   : T — the three backends' default method-type tables are regenerated from /repo on every run
            (Generated/C07Defaults.lean, read by the driver);
        K — random histories (mix of backends, all metadata kinds, forced failures at every stage) are run on the REAL
            code, each in one Python process (tools/c07_harness/impl.py); after EVERY operation the observable state
            (module globals + executor attributes) is compared with the model's state, and the model's own predictions
            (metadata-stage failure, wrong-backend collection, where a failure leaves the state) with what happened.
Oracle: the property itself, reference-free — the probe query's rendered files after the history vs. in a FRESH
        interpreter, compared by the Lean predicate `agreeObs` (equal up to one bijective renumbering of generated names).
The main stream stays inside the hypotheses of the `_partial` theorems (`benignNew`/`benignOn`, evaluated by the driver
on the observed outcomes; a candidate history is cut before its first non-benign operation).  The excluded classes are
exercised only through the listed known findings, each the literal witness of a `leak_counterexample_*` theorem.
"""
from __future__ import annotations

import ast as pyast
import atexit
import concurrent.futures as cf
import json
import os
import subprocess
import sys
import threading
from pathlib import Path
from typing import Any, Dict, List, Optional, Tuple

ID = "C07"
LEAN_MODULES = ["FaxVerif.C07.Theorems", "FaxVerif.Generated.C07Defaults"]  # the driver reads the generated tables: build them too
LEAN_SOURCES = ["FaxVerif/C07", "FaxVerif/Generated/C07Defaults.lean"]
DRIVER = "FaxVerif/C07/Driver.lean"
THEOREMS = [
    "FaxVerif.C07.reset_restores",
    "FaxVerif.C07.reset_restores_result",
    "FaxVerif.C07.result_depends_on_view_only",
    "FaxVerif.C07.clean_new_indep",
    "FaxVerif.C07.clean_on_indep",
    "FaxVerif.C07.benign_preserves_new",
    "FaxVerif.C07.benign_preserves_on",
    "FaxVerif.C07.history_indep_partial",
    "FaxVerif.C07.history_indep_on_partial",
    "FaxVerif.C07.history_indep_T_partial",
    "FaxVerif.C07.success_heals_partial",
    "FaxVerif.C07.inject_never_leaks",
    "FaxVerif.C07.counter_never_read",
    "FaxVerif.C07.agreeObs_refl",
    "FaxVerif.C07.history_indep_agree_partial",
    "FaxVerif.C07.leak_counterexample_failed_translation",
    "FaxVerif.C07.leak_counterexample_failed_metadata",
    "FaxVerif.C07.leak_counterexample_enum",
    "FaxVerif.C07.leak_counterexample_enum_first_wins",
    "FaxVerif.C07.leak_counterexample_cross_backend_reset",
    "FaxVerif.C07.leak_counterexample_cross_backend_new",
    "FaxVerif.C07.addXmd_invisible_to_new_executors",
    "FaxVerif.C07.shared_default_repaired",
    "FaxVerif.C07.leak_counterexample_found_md",
    "FaxVerif.C07.leak_counterexample_job_blocks",
    "FaxVerif.C07.leak_counterexample_extended_md",
    "FaxVerif.C07.leak_counterexample_name_counter",
    "FaxVerif.C07.retranslation_indep_on_partial",
    "FaxVerif.C07.retranslation_indep_new_partial",
    "FaxVerif.C07.reused_ast_repaired",
]
RULE = (
    "case = (history of <=8 (quick) / <=14 (thorough) operations, probe): operations are `new executor` of any of the 3 "
    "backends, `add_extended_md`, `translate` of a catalogue query (33 queries over the 3 backends: scalar/sequence/tuple "
    "results, default-typed methods, own collections, C++ functions, DeltaR, enums, rows whose column names differ only by trailing digits, and queries that use a collection / "
    "function only an EARLIER query declared) with 0-4 metadata dictionaries drawn from all "
    "kinds (method types incl. collection types, enums, inject_code, job scripts, C++ functions, collections of the right "
    "and the wrong backend, RE-declarations of built-in names (Jets, Muons, DeltaR), job-script blocks with the "
    "`depends_on` key left out and repeated blocks with identical script and different `depends_on`, extended metadata, "
    "malformed) and an intended ending (success ~60%, failure in process_metadata, "
    "in the func_adl rewrites, in the C++ finder, in write_cpp_files); the probe is a catalogue query with its own "
    "metadata, on a new executor or on an existing one. Every case runs in its own Python process; the candidate history "
    "is cut before the first operation outside the theorems' hypotheses. Non-trivial = the history contains at least one "
    "translation that reached reset() AND (one that failed OR a second executor); distinct = distinct (history, probe). "
    "Besides the catalogue, probe (~45%) and history (~30% of the translations) queries are drawn from a typed grammar "
    "(`gen_family_query`: six query shapes over one collection; element expressions of depth <=3 over methods the query "
    "declares for itself with return types inside {int,float,double} and outside it {short, unsigned int, unsigned long, "
    "long, long double}, default-typed methods, constants, + - * /, unary minus, 26 documented math functions, C++ "
    "functions the query declares under fresh names and under names of math functions); a history query of that kind "
    "prefers the function names and return types the probe uses. A quarter of the cases hand AST nodes of the probe "
    "to an executor one or more times before the probe (operations carrying the same `obj` label share one Python "
    "object): the probe's own object, with or without MetaData, or (`inner`) the query object the probe is derived from "
    "and other queries derived from it — the inner query with MetaData, Where, math and declared-function calls. "
    "add_extended_md draws the kinds the probe's metadata uses on every executor but the probe's own (reset or never "
    "reset, created before or after); a probe that uses a kind its caller does not register meets such a registration "
    "on another executor in 70% of its cases. After every operation the harness also "
    "fingerprints ALL module- and class-level data and mutable default arguments of the package's modules outside the "
    "model's state: any change is a broken correspondence."
)
TRUSTED_BASE = [
    "hand model of executor.__init__/add_extended_md/apply_ast_transformations/write_cpp_files/reset and of process_metadata's side effects (Model.lean), tied to the code by the state comparison after every operation of every history of this run",
    "the translator proper is an uninterpreted function of the modelled View; that it reads nothing else from the process state is checked only through the fresh-interpreter oracle and the recorded registry look-ups (footprints), not proved",
    "tools/c07_harness/impl.py (drives the real code, observes module globals and executor attributes, records look-ups through two in-process wrappers) and tools/props/c07.py (generators, conversion of MetaData dicts to model items, comparison)",
    "CPython: a fresh interpreter is a fresh process state",
]
ASSUMPTIONS = [
    "queries are handled as (add_extended_md;) apply_ast_transformations; write_cpp_files on one executor, one after the other (no interleaving, no threads)",
    "a query arrives as a freshly parsed AST, as an AST object that was handed to an executor before, or as a query built around such an object (apply_ast_transformations works on a copy since fix 1c4553a; theorems retranslation_indep_*_partial, reused_ast_repaired)",
    "generated names only need to be consistent: results are compared up to one bijective renumbering of identifiers that end in digits",
    "what a translation shows its caller = ending (ok / stage + exception class), the rendered files, extended_md(k) for the kinds the caller registered, and the WARNING-and-above records the library logs while translating (compared like a file)",
    "the names one translation generates do not collide (unique_name = name ++ index is not injective, e.g. columns `x1` and `x`: theorem leak_counterexample_name_counter and the listed finding; the catalogue queries have no such column names)",
    "extended metadata prototypes have one class per key (executor maps type(prototype) back to its key)",
    "nobody calls cpp_functions.add_function_mapping / mutates the backend collection tables at run time (not reachable from a query)",
]

HARNESS = Path(__file__).resolve().parent.parent / "c07_harness" / "impl.py"
PY = "/venv/bin/python"

# =============================================================================== catalogue
ATLAS_JETS = "SelectMany(DS, lambda e: e.Jets('AntiKt4'))"
MD_MYJETS = {"metadata_type": "add_atlas_event_collection_info", "name": "MyJets", "include_files": ["my/Jets.h"], "container_type": "my::JetContainer", "element_type": "my::Jet", "contains_collection": True}
MD_RECOMU_ATLAS = {"metadata_type": "add_atlas_event_collection_info", "name": "RecoMuons", "include_files": ["my/Mu.h"], "container_type": "my::RecoMuonContainer", "element_type": "reco::Muon", "contains_collection": True}
MD_MYMU_AOD = {"metadata_type": "add_cms_aod_event_collection_info", "name": "MyMu", "include_files": ["my/Mu.h"], "container_type": "my::MuCollection", "element_type": "my::Mu", "contains_collection": True}
MD_MYMU_MINI = {"metadata_type": "add_cms_miniaod_event_collection_info", "name": "MyMu", "include_files": ["my/Mu.h"], "container_type": "my::MuCollection", "element_type": "my::Mu", "contains_collection": True}
MD_MYF = {"metadata_type": "add_cpp_function", "name": "MyF", "include_files": ["my/f.h"], "arguments": ["x"], "code": ["auto result = x * 2;"], "return_type": "double"}
MD_COLOR = {"metadata_type": "define_enum", "namespace": "xAOD.Jet", "name": "Color", "values": ["Red", "Blue"]}
MD_COLOR_RED = {"metadata_type": "define_enum", "namespace": "xAOD.Jet", "name": "Color", "values": ["Red"]}
MD_VALS = {"metadata_type": "add_method_type_info", "type_string": "xAOD::Jet", "method_name": "vals", "return_type_element": "float"}
# one query's metadata may REPLACE a built-in collection / function — for that query only
MD_JETS_REDECL = {"metadata_type": "add_atlas_event_collection_info", "name": "Jets", "include_files": ["xAODCaloEvent/CaloClusterContainer.h"], "container_type": "xAOD::CaloClusterContainer", "element_type": "xAOD::CaloCluster", "contains_collection": True, "link_libraries": ["xAODCaloEvent"]}
MD_MUONS_REDECL_AOD = {"metadata_type": "add_cms_aod_event_collection_info", "name": "Muons", "include_files": ["my/OtherMu.h"], "container_type": "my::OtherMuCollection", "element_type": "my::OtherMu", "contains_collection": True}
MD_MUONS_REDECL_MINI = {"metadata_type": "add_cms_miniaod_event_collection_info", "name": "Muons", "include_files": ["my/OtherMu.h"], "container_type": "my::OtherMuCollection", "element_type": "my::OtherMu", "contains_collection": True}
MD_DELTAR_REDECL = {"metadata_type": "add_cpp_function", "name": "DeltaR", "include_files": ["my/dr.h"], "arguments": ["eta1", "phi1", "eta2", "phi2"], "code": ["auto result = my_delta_r(eta1, phi1, eta2, phi2);"], "return_type": "double"}
REDECL = {"atlas": [MD_JETS_REDECL, MD_DELTAR_REDECL], "cms_aod": [MD_MUONS_REDECL_AOD, MD_DELTAR_REDECL], "cms_miniaod": [MD_MUONS_REDECL_MINI, MD_DELTAR_REDECL]}

# id -> (backend, expression, registry keys looked up, metadata the query needs, ending when the needs are met)
CATALOG: Dict[str, Dict[str, Any]] = {
    "atlas.jets_pt": {"b": "atlas", "q": f"Select({ATLAS_JETS}, lambda j: j.pt())", "keys": [["xAOD::Jet", "pt"]]},
    "atlas.jets_pt_eta": {"b": "atlas", "q": "Select(DS, lambda e: (e.Jets('J').Select(lambda j: j.pt()), e.Jets('J').Select(lambda j: j.eta())))", "keys": [["xAOD::Jet", "pt"], ["xAOD::Jet", "eta"]]},
    "atlas.jet_count": {"b": "atlas", "q": "Select(DS, lambda e: e.Jets('J').Count())", "keys": []},
    "atlas.jet_dict": {"b": "atlas", "q": "Select(DS, lambda e: {'pt': e.Jets('J').Select(lambda j: j.pt()), 'n': e.Jets('J').Count()})", "keys": [["xAOD::Jet", "pt"]]},
    "atlas.jet_first": {"b": "atlas", "q": "Select(DS, lambda e: e.Jets('J').First().pt() + sin(e.Jets('J').First().eta()))", "keys": [["xAOD::Jet", "pt"], ["xAOD::Jet", "eta"]]},
    "atlas.truth_vtx": {"b": "atlas", "q": "Select(SelectMany(DS, lambda e: e.TruthParticles('T')), lambda t: t.prodVtx().x())", "keys": [["xAOD::TruthParticle", "prodVtx"], ["xAODTruth::TruthVertex", "x"]]},
    "atlas.enum_red": {"b": "atlas", "q": f"Select({ATLAS_JETS}, lambda j: j.color(xAOD.Jet.Color.Red))", "keys": [["xAOD::Jet", "color"]], "needs": [MD_COLOR]},
    "atlas.enum_blue": {"b": "atlas", "q": f"Select({ATLAS_JETS}, lambda j: j.color(xAOD.Jet.Color.Blue))", "keys": [["xAOD::Jet", "color"]], "needs": [MD_COLOR]},
    "atlas.myjets_pt": {"b": "atlas", "q": "Select(SelectMany(DS, lambda e: e.MyJets('mine')), lambda j: j.pt())", "keys": [["my::Jet", "pt"]], "needs": [MD_MYJETS]},
    "atlas.custom_muon_track": {"b": "atlas", "q": "Select(SelectMany(DS, lambda e: e.RecoMuons('mu')), lambda m: m.globalTrack().pt())", "keys": [["reco::Muon", "globalTrack"], ["reco::Track", "pt"], ["double", "pt"]], "needs": [MD_RECOMU_ATLAS], "end": "write"},
    "atlas.myf": {"b": "atlas", "q": f"Select({ATLAS_JETS}, lambda j: MyF(j.pt()))", "keys": [["xAOD::Jet", "pt"]], "needs": [MD_MYF]},
    "atlas.jet_vals": {"b": "atlas", "q": f"Select({ATLAS_JETS}, lambda j: j.vals())", "keys": [["xAOD::Jet", "vals"]], "needs": [MD_VALS]},
    # two columns whose names differ by trailing digits: the members `_jetN` / `_jet2M` must keep the order of the columns
    # whatever the counter values N, M are (never an exact collision: the two names are drawn 1-2 indices apart)
    "atlas.cols_jet_jet2": {"b": "atlas", "q": "Select(DS, lambda e: {'jet': e.Jets('J').Select(lambda j: j.pt()), 'jet2': e.Jets('J').Count()})", "keys": [["xAOD::Jet", "pt"]]},
    "atlas.cols_x1_x": {"b": "atlas", "q": "Select(DS, lambda e: {'x1': e.Jets('J').Count(), 'x': e.Jets('J').Select(lambda j: j.eta()), 'x12': e.Jets('J').Select(lambda j: j.pt())})", "keys": [["xAOD::Jet", "eta"], ["xAOD::Jet", "pt"]]},
    "atlas.deltar": {"b": "atlas", "q": f"Select({ATLAS_JETS}, lambda j: DeltaR(j.eta(), j.phi(), 0.0, 0.0))", "keys": [["xAOD::Jet", "eta"], ["xAOD::Jet", "phi"]]},
    # no metadata: the names were declared, if at all, by an earlier query — must be refused as in a fresh process
    "atlas.myjets_undeclared": {"b": "atlas", "q": "Select(SelectMany(DS, lambda e: e.MyJets('undeclared')), lambda j: j.pt())", "keys": [["my::Jet", "pt"]], "end": "write", "history": False},
    "atlas.myf_undeclared": {"b": "atlas", "q": f"Select({ATLAS_JETS}, lambda j: MyF(j.eta()))", "keys": [["xAOD::Jet", "eta"]], "end": "write", "history": False},
    "atlas.bad_write": {"b": "atlas", "q": "Select(DS, lambda e: e.Jets('J'))", "keys": [], "end": "write"},
    "atlas.bad_write_pt": {"b": "atlas", "q": f"Select({ATLAS_JETS}, lambda j: j.pt().nothing())", "keys": [["xAOD::Jet", "pt"], ["double", "nothing"]], "end": "write"},
    "atlas.bad_transform": {"b": "atlas", "q": "Select(DS, lambda e: (1, 2)[5])", "keys": [], "end": "transform"},
    "atlas.bad_finder": {"b": "atlas", "q": f"Select({ATLAS_JETS}, lambda j: MyF(j.pt(), 1))", "keys": [], "needs": [MD_MYF], "end": "finder"},
    "cms_aod.muons_pt": {"b": "cms_aod", "q": "Select(SelectMany(DS, lambda e: e.Muons('muons')), lambda m: m.pt())", "keys": [["reco::Muon", "pt"]]},
    "cms_aod.muon_track": {"b": "cms_aod", "q": "Select(SelectMany(DS, lambda e: e.Muons('muons')), lambda m: m.globalTrack().pt())", "keys": [["reco::Muon", "globalTrack"], ["reco::Track", "pt"]]},
    "cms_aod.mymu_pt": {"b": "cms_aod", "q": "Select(SelectMany(DS, lambda e: e.MyMu('mm')), lambda m: m.pt())", "keys": [["my::Mu", "pt"]], "needs": [MD_MYMU_AOD]},
    "cms_aod.cols_mu_mu2": {"b": "cms_aod", "q": "Select(DS, lambda e: {'mu': e.Muons('muons').Select(lambda m: m.pt()), 'mu2': e.Muons('muons').Count()})", "keys": [["reco::Muon", "pt"]]},
    "cms_aod.deltar": {"b": "cms_aod", "q": "Select(SelectMany(DS, lambda e: e.Muons('muons')), lambda m: DeltaR(m.eta(), m.phi(), 0.0, 0.0))", "keys": [["reco::Muon", "eta"], ["reco::Muon", "phi"]]},
    "cms_aod.mymu_undeclared": {"b": "cms_aod", "q": "Select(SelectMany(DS, lambda e: e.MyMu('undeclared')), lambda m: m.pt())", "keys": [["my::Mu", "pt"]], "end": "write", "history": False},
    "cms_aod.bad_write": {"b": "cms_aod", "q": "Select(DS, lambda e: e.Muons('muons'))", "keys": [], "end": "write"},
    "cms_miniaod.muons_pt": {"b": "cms_miniaod", "q": "Select(SelectMany(DS, lambda e: e.Muons('slimmedMuons')), lambda m: m.pt())", "keys": [["pat::Muon", "pt"]]},
    "cms_miniaod.muon_track": {"b": "cms_miniaod", "q": "Select(SelectMany(DS, lambda e: e.Muons('slimmedMuons')), lambda m: m.globalTrack().pt())", "keys": [["pat::Muon", "globalTrack"], ["reco::TrackRef", "pt"]]},
    "cms_miniaod.cols_mu_mu2": {"b": "cms_miniaod", "q": "Select(DS, lambda e: {'mu2': e.Muons('slimmedMuons').Count(), 'mu': e.Muons('slimmedMuons').Select(lambda m: m.pt())})", "keys": [["pat::Muon", "pt"]]},
    "cms_miniaod.mymu_undeclared": {"b": "cms_miniaod", "q": "Select(SelectMany(DS, lambda e: e.MyMu('undeclared_too')), lambda m: m.pt())", "keys": [["my::Mu", "pt"]], "end": "write", "history": False},
    "cms_miniaod.bad_write": {"b": "cms_miniaod", "q": "Select(DS, lambda e: e.Muons('slimmedMuons'))", "keys": [], "end": "write"},
}
BY_EXPR = {v["q"]: k for k, v in CATALOG.items()}
BACKENDS = ["atlas", "cms_aod", "cms_miniaod"]


def expr_names(expr: str) -> List[str]:
    """every Name the expression contains (a superset of what the translator resolves through get_toplevel_ns)"""
    return sorted({n.id for n in pyast.walk(pyast.parse(expr.replace("DS", "EventDataset('ds')"), mode="eval")) if isinstance(n, pyast.Name)})


# method-type declarations the generator draws from
TYPE_KEYS = {
    "atlas": [("xAOD::Jet", "pt"), ("xAOD::Jet", "eta"), ("xAOD::Jet", "vals"), ("xAOD::Jet", "color"), ("my::Jet", "pt"), ("xAOD::TruthParticle", "prodVtx"), ("xAODTruth::TruthVertex", "x"), ("reco::Muon", "globalTrack")],
    "cms_aod": [("reco::Muon", "pt"), ("reco::Muon", "globalTrack"), ("reco::Track", "pt"), ("my::Mu", "pt"), ("xAOD::Jet", "pt")],
    "cms_miniaod": [("pat::Muon", "pt"), ("pat::Muon", "globalTrack"), ("reco::TrackRef", "pt"), ("my::Mu", "pt"), ("xAOD::Jet", "pt")],
}
RTYPES = ["int", "float", "double", "bool", "const float", "my::Obj*", "short"]


def gen_type_md(rng, keys) -> Dict[str, Any]:
    ty, m = rng.choice(keys)
    md = {"metadata_type": "add_method_type_info", "type_string": ty, "method_name": m}
    r = rng.random()
    if r < 0.75:
        md["return_type"] = rng.choice(RTYPES)
        if rng.random() < 0.15:
            md["deref_count"] = rng.choice([1, 2])
        if rng.random() < 0.1:
            md["tree_type"] = "float"
    elif r < 0.9:
        md["return_type_element"] = rng.choice(["float", "int", "double"])
    else:
        md["return_type_element"] = "float"
        md["return_type_collection"] = rng.choice(["std::vector<float>", "my::FloatVec*"])
    return md


ENUMS = [
    MD_COLOR,
    MD_COLOR_RED,
    {"metadata_type": "define_enum", "namespace": "Other.NS", "name": "Flag", "values": ["On", "Off"]},
    {"metadata_type": "define_enum", "namespace": "Other", "name": "Flag", "values": ["On"]},
    {"metadata_type": "define_enum", "namespace": "cms.reco", "name": "Kind", "values": ["A", "B", "C"]},
]
INJECTS = [
    {"metadata_type": "inject_code", "name": "blk1", "body_includes": ["inj/one.h"], "private_members": ["int m_one;"]},
    {"metadata_type": "inject_code", "name": "blk1", "body_includes": ["inj/one_other.h"]},
    {"metadata_type": "inject_code", "name": "blk2", "header_includes": ["inj/two.h"], "ctor_lines": ["m_two = 2;"], "link_libraries": ["TwoLib"]},
    {"metadata_type": "inject_code", "name": "blk3", "initialize_lines": ["init3();"], "instance_initialization": ["m_three(3)"]},
]
JOBS = {
    "j1": ["jobline_one = 1"],
    "j2": ["jobline_two = 2", "jobline_two_b = 22"],
    "j3": ["jobline_three = 3"],
}


def gen_job_md(rng, allow_broken: bool) -> List[Dict[str, Any]]:
    """a dependency-closed, acyclic set of blocks (names always carry the same script), or — for an intended failure in
    write_cpp_files on ATLAS — one that depends on a block that is never sent.  A block without dependencies may leave
    the `depends_on` key out; a block may be repeated (identical script) with a different `depends_on`: the
    dependencies are merged."""
    names = rng.sample(sorted(JOBS), rng.randint(1, 3))
    names.sort()
    out = []
    for i, n in enumerate(names):
        deps = [d for d in names[:i] if rng.random() < 0.5]
        blk = {"metadata_type": "add_job_script", "name": n, "script": list(JOBS[n])}
        if deps or rng.random() < 0.5:
            blk["depends_on"] = deps
        out.append(blk)
    if len(names) >= 2 and rng.random() < 0.5:
        # the last block once more: one copy without `depends_on`, one depending on an earlier block
        n, d = names[-1], rng.choice(names[:-1])
        out = [b for b in out if b["name"] != n]
        out.append({"metadata_type": "add_job_script", "name": n, "script": list(JOBS[n])})
        out.append({"metadata_type": "add_job_script", "name": n, "script": list(JOBS[n]), "depends_on": [d]})
    if allow_broken:
        out[-1]["depends_on"] = out[-1].get("depends_on", []) + ["never_sent"]
    rng.shuffle(out)
    return out


COLLS = {"atlas": [MD_MYJETS, MD_RECOMU_ATLAS], "cms_aod": [MD_MYMU_AOD], "cms_miniaod": [MD_MYMU_MINI]}
BAD_MD = [
    {"metadata_type": "no_such_metadata"},
    {"name": "missing its type"},
    {"metadata_type": "add_atlas_event_collection_info", "name": "X", "include_files": [], "container_type": "c", "contains_collection": False, "surprise": 1},
    {"metadata_type": "add_method_type_info", "type_string": "xAOD::Jet"},
]
XKINDS = ["docker", "other"]


def ext_md(rng, kind):
    return {"metadata_type": kind, ("image" if kind == "docker" else "val"): rng.choice(["A", "B", "img:1"])}


# =============================================================================== query families (generated, not listed)
# Besides the listed catalogue the generator draws queries from a small typed grammar: one collection of the backend,
# element-level expressions over methods the query declares for itself (return types from inside AND outside the three
# types the translator ranks), default-typed methods, constants, the documented math functions, C++ functions the query
# declares for itself (under fresh names and under the names of math functions), in six query shapes.  These are the
# parts of a translation that go through module-level tables other than the method-type registry: the ranking of
# arithmetic types (common/utils.py), the function mapping (common/cpp_functions.py), the C++ function finder.
FAM_ELEM = {"atlas": ("Jets", "AntiKt4", "xAOD::Jet"), "cms_aod": ("Muons", "muons", "reco::Muon"), "cms_miniaod": ("Muons", "slimmedMuons", "pat::Muon")}
FAM_RANKED = ["int", "float", "double"]
FAM_UNRANKED = ["short", "unsigned int", "unsigned long", "long", "long double"]
FAM_DEFAULT_METHODS = ["pt", "eta", "phi", "px", "py"]  # no registry entry: the translator assumes double (and says so)
FAM_METHODS_P = ["nA", "nB", "wA"]  # declared by the query itself
FAM_METHODS_H = ["hA", "hB", "hC"]  # the same, never used by a probe (for history queries expected to fail)
MATH1 = ["sin", "cos", "tan", "atan", "sinh", "tanh", "exp", "log", "log10", "sqrt", "cbrt", "erf", "ceil", "floor", "trunc", "round", "fabs", "abs"]
MATH2 = ["atan2", "hypot", "pow", "fmod", "fmax", "fmin", "copysign", "fdim"]
USER_FN_NAMES = ["MyF", "scale2", "combine"]
RANK = {"int": 0, "float": 1, "double": 2}


class _Fam:
    """one draw of a family query; keeps what the expression uses while it is built"""

    def __init__(self, rng, b, methods, types_pool, fn_bias, allow_userfn, userfn_names, plain=False):
        self.rng, self.b, self.plain = rng, b, plain
        self.coll, self.bank, self.elem = FAM_ELEM[b]
        self.decl: Dict[str, str] = {}  # method -> declared return type
        self.methods, self.types_pool = methods, types_pool
        self.fn_bias = list(fn_bias)
        self.allow_userfn, self.userfn_names = allow_userfn, userfn_names
        self.userfns: Dict[str, Dict[str, Any]] = {}
        self.calls: List[str] = []
        self.used: List[str] = []
        self.unranked_arith = False

    def leaf(self, v):
        rng = self.rng
        r = rng.random()
        if r < 0.5 and not self.plain:
            m = rng.choice(self.methods)
            if m not in self.decl:
                self.decl[m] = rng.choice(self.types_pool)
            if m not in self.used:
                self.used.append(m)
            return f"{v}.{m}()", self.decl[m]
        if r < 0.8:
            m = rng.choice(FAM_DEFAULT_METHODS)
            if m not in self.used:
                self.used.append(m)
            return f"{v}.{m}()", "double"
        c = rng.choice(["1", "2", "10", "0.5", "2.5"])
        return c, ("double" if "." in c else "int")

    def math_name(self, arity):
        pool = MATH1 if arity == 1 else MATH2
        biased = [f for f in self.fn_bias if f in pool]
        if biased and self.rng.random() < 0.6:
            return self.rng.choice(biased)
        return self.rng.choice(pool)

    def expr(self, v, depth):
        rng = self.rng
        if depth <= 0 or rng.random() < 0.25:
            return self.leaf(v)
        r = rng.random()
        if r < 0.45:
            (a, ta), (b, tb) = self.expr(v, depth - 1), self.expr(v, depth - 1)
            op = rng.choice(["+", "-", "*", "/"])
            if ta not in RANK or tb not in RANK:
                self.unranked_arith = True
                t = ta if ta not in RANK else tb
            else:
                t = "double" if op == "/" else (ta if RANK[ta] >= RANK[tb] else tb)
            return f"({a} {op} {b})", t
        if r < 0.75 or (r < 0.93 and not self.allow_userfn):
            arity = 1 if rng.random() < 0.6 else 2
            f = self.math_name(arity)
            args = [self.expr(v, depth - 1)[0] for _ in range(arity)]
            self.calls.append(f)
            return f"{f}({', '.join(args)})", "double"
        if r < 0.93:
            return self.userfn(v, depth)
        a, ta = self.expr(v, depth - 1)
        return f"(-{a})", ta

    def userfn(self, v, depth, force_bias=False):
        """a call of a C++ function the query declares for itself — under a fresh name or under the name of a math
        function (the names another query of the case calls are preferred)"""
        rng = self.rng
        arity = 1 if rng.random() < 0.5 else 2
        if force_bias and self.fn_bias:
            arity = 1 if rng.choice(self.fn_bias) in MATH1 else 2
        biased = [f for f in self.fn_bias if f in (MATH1 if arity == 1 else MATH2)]
        if biased and (force_bias or rng.random() < 0.6):
            f = rng.choice(biased)
        else:
            f = rng.choice(self.userfn_names + ([] if rng.random() < 0.5 else (MATH1 if arity == 1 else MATH2)))
        if f in self.userfns and len(self.userfns[f]["arguments"]) != arity:
            arity = len(self.userfns[f]["arguments"])
        if f not in self.userfns:
            params = ["x", "y"][:arity]
            body = " + ".join(params) if arity == 2 else "x * 2"
            self.userfns[f] = {"metadata_type": "add_cpp_function", "name": f, "include_files": [f"my/{f}.h"], "arguments": params, "code": [f"auto result = {body};"], "return_type": rng.choice(["double", "double", "int", "float"])}
        args = [self.expr(v, depth - 1)[0] for _ in range(arity)]
        self.calls.append(f)
        return f"{f}({', '.join(args)})", self.userfns[f]["return_type"]

    def top(self, v, depth, force_userfn):
        return self.userfn(v, depth, True) if force_userfn else self.expr(v, depth)

    def cond(self, v):
        a, _ = self.expr(v, 1)
        b, _ = self.leaf(v)
        return f"{a} {self.rng.choice(['>', '<', '>=', '!='])} {b}"


def gen_family_query(rng, b: str, expect_ok: Optional[bool] = None, methods=None, fn_bias=(), type_bias=(), allow_userfn=True, plain=False, force_userfn=False, decl: Optional[Dict[str, str]] = None, chain=False, shapes=None) -> Dict[str, Any]:
    """a catalogue-like entry {b, q, keys, needs, end, fam, calls, types}.  `end` is the ending expected on the library
    as it is (arithmetic on a type the translator does not rank is refused in write_cpp_files): it only steers the
    generator, the judge is the fresh interpreter.  `fn_bias` / `type_bias`: function names / return types another
    query of the same case uses (histories are drawn to touch what the probe touches).
    `plain`: no metadata at all (default-typed methods, constants, math functions).  `force_userfn`: the column is a
    call of a declared C++ function named like one of `fn_bias`.  `decl`: return types of (some of) the methods, fixed
    in advance; with `chain` the column is `m1() op m2() op ...` over exactly these methods in this order (a sibling of
    another query of the case: the same return types met in another order)."""
    fn_bias = [f for f in fn_bias if f in MATH1 or f in MATH2]
    force_userfn = force_userfn and bool(fn_bias) and not plain
    for _ in range(20):
        if expect_ok:
            pool = FAM_RANKED
        else:
            # two of the unranked types per query (so that two queries of a case meet on them), the other query's first
            two = rng.sample(FAM_UNRANKED, 2)
            pool = ([] if rng.random() < 0.5 else [rng.choice(FAM_RANKED)]) + two * 2 + [t for t in type_bias if t in FAM_UNRANKED] * 3
        g = _Fam(rng, b, methods or FAM_METHODS_P, pool, fn_bias, allow_userfn and not plain, USER_FN_NAMES, plain=plain)
        if decl:
            g.decl.update(decl)
        coll = f"e.{g.coll}('{g.bank}')"
        shape = rng.choice(shapes or ["flat", "flat", "where", "vector", "count", "dict", "sum"])
        depth = rng.choice([1, 1, 2, 2, 3])
        if chain and decl:
            x, t = "", ""
            for m, mt in decl.items():
                g.used.append(m)
                if x and (t not in RANK or mt not in RANK):
                    g.unranked_arith = True
                x, t = (f"({x} {rng.choice(['+', '-', '*'])} j.{m}())" if x else f"j.{m}()"), (mt if (not x or mt not in RANK or (t in RANK and RANK[mt] >= RANK[t])) else t)
            shape = "chain"
            q = f"Select(SelectMany(DS, lambda e: {coll}), lambda j: {x})" if rng.random() < 0.6 else f"Select(DS, lambda e: {coll}.Select(lambda j: {x}))"
        elif shape == "flat":
            q = f"Select(SelectMany(DS, lambda e: {coll}), lambda j: {g.top('j', depth, force_userfn)[0]})"
        elif shape == "where":
            q = f"Select(Where(SelectMany(DS, lambda e: {coll}), lambda j: {g.cond('j')}), lambda j: {g.top('j', depth, force_userfn)[0]})"
        elif shape == "vector":
            q = f"Select(DS, lambda e: {coll}.Select(lambda j: {g.top('j', depth, force_userfn)[0]}))"
        elif shape == "count":
            q = f"Select(DS, lambda e: {coll}.Where(lambda j: {g.cond('j')}).Count())"
        elif shape == "dict":
            q = f"Select(DS, lambda e: {{'a': {coll}.Select(lambda j: {g.top('j', depth, force_userfn)[0]}), 'b': {coll}.Select(lambda k: {g.expr('k', max(1, depth - 1))[0]})}})"
        else:
            x, t = g.expr("j", max(1, depth - 1))
            if t not in RANK:
                g.unranked_arith = True
            q = f"Select(DS, lambda e: {coll}.Select(lambda j: {x}).Sum())"
        end = "write" if g.unranked_arith else "ok"
        if expect_ok is not None and (end == "ok") != expect_ok:
            continue
        break
    needs = [{"metadata_type": "add_method_type_info", "type_string": g.elem, "method_name": m, "return_type": t} for m, t in g.decl.items()]
    needs += list(g.userfns.values())
    rng.shuffle(needs)
    return {"b": b, "q": q, "keys": [[g.elem, m] for m in g.used], "needs": needs, "end": end, "fam": shape, "calls": sorted(set(g.calls)), "types": sorted(set(g.decl.values())), "userfns": sorted(g.userfns)}


def op_text(op: Dict[str, Any]) -> str:
    """the query an operation (or probe) translates, as one text: a derived query with its inner query written out"""
    if op.get("inner"):
        return op["q"].replace("OBJ", op["inner"]["q"])
    return op["q"]


def op_md(op: Dict[str, Any]) -> List[Dict[str, Any]]:
    return list(op["inner"]["md"]) if op.get("inner") else list(op["md"])


def gen_derived(rng, b: str) -> Dict[str, Any]:
    """Queries DERIVED from one query object (`q.Where(..)`, `q.Select(..)` of an ObjectStream `q`): the AST of the
    derived query contains the AST object of `q` as a sub-tree.  Returns the inner query (catalogue-like entry) and a
    function drawing outer queries (text with the placeholder OBJ).  The inner query is a stream of objects (the
    collection, possibly filtered) or a stream of numbers drawn from the generated families in the shapes `flat` /
    `where` — with MetaData, Where and calls of math / declared functions inside it (all of which the library rewrote in
    place on the caller's object before fix 1c4553a)."""
    coll, bank, elem = FAM_ELEM[b]
    src = f"SelectMany(DS, lambda e: e.{coll}('{bank}'))"
    g = _Fam(rng, b, FAM_METHODS_P, FAM_RANKED, (), False, USER_FN_NAMES, plain=True)
    if rng.random() < 0.35:
        inner_q = src if rng.random() < 0.5 else f"Where({src}, lambda j: {g.cond('j')})"
        inner = {"b": b, "q": inner_q, "keys": [[elem, m] for m in g.used], "needs": [], "end": "write", "calls": []}

        def outer():
            x = g.expr("k", rng.choice([1, 2]))[0]
            if rng.random() < 0.5:
                return f"Select(OBJ, lambda k: {x})"
            return f"Select(Where(OBJ, lambda k: {g.cond('k')}), lambda k: {x})"
    else:
        inner = gen_family_query(rng, b, expect_ok=True if rng.random() < 0.85 else None, shapes=["flat", "where"])

        def outer():
            r = rng.random()
            c = rng.choice(["1", "2.5", "10"])
            if r < 0.35:
                return f"Where(OBJ, lambda x: x {rng.choice(['>', '<', '!='])} {c})"
            f = rng.choice(MATH1)
            if r < 0.7:
                return f"Select(OBJ, lambda x: {rng.choice([f'x * {c}', f'{f}(x)', f'{f}(x) + {c}', f'(-x)'])})"
            return f"Select(Where(OBJ, lambda x: x > {c}), lambda y: {rng.choice([f'y + {c}', f'{f}(y)'])})"

    return {"inner": {"obj": "P", "q": inner["q"], "md": list(inner["needs"])}, "entry": inner, "outer": outer, "g": g, "elem": elem}


# =============================================================================== generator
def gen_extras(rng, b: str, avoid_keys, avoid_tops, ok_intent: bool, allow_job=True, n_max=3) -> List[Dict[str, Any]]:
    md: List[Dict[str, Any]] = []
    for _ in range(rng.choice([0, 0, 1, 1, 2, n_max])):
        r = rng.random()
        if r < 0.4:
            keys = [k for k in TYPE_KEYS[b] if list(k) not in avoid_keys]
            if keys:
                md.append(gen_type_md(rng, keys))
        elif r < 0.55:
            e = rng.choice(ENUMS)
            if e["namespace"].split(".")[0] not in avoid_tops:
                md.append(e)
        elif r < 0.7:
            i = rng.choice(INJECTS)
            if not ok_intent or not any(x.get("metadata_type") == "inject_code" and x["name"] == i["name"] and x != i for x in md):
                md.append(i)
        elif r < 0.85:
            if allow_job and not any(x.get("metadata_type") == "add_job_script" for x in md):
                md.extend(gen_job_md(rng, False))
        elif r < 0.93:
            md.append(rng.choice(COLLS[b] + REDECL[b]))
        else:
            md.append(MD_MYF)
    return md


def gen_case(rng, tier: str) -> Dict[str, Any]:
    b = rng.choice(["atlas", "atlas", "cms_aod", "cms_miniaod"])
    # a quarter of the cases hand AST nodes of the probe to an executor once or more BEFORE the probe: the probe's own
    # AST object (a caller evaluating one query object again), or — `derived` — the object the probe is derived from
    # and other queries derived from it.  With or without MetaData.
    mode = rng.random()
    reuse = mode < 0.25
    derived = gen_derived(rng, b) if mode < 0.09 else None
    r = rng.random()
    if derived:
        q = derived["outer"]()
        inner = derived["entry"]
        text = q.replace("OBJ", inner["q"])
        pc = {"b": b, "q": text, "keys": [list(k) for k in inner["keys"]] + [[derived["elem"], m] for m in FAM_DEFAULT_METHODS if f".{m}()" in q], "needs": list(inner["needs"]),
              "end": "ok" if inner["end"] == "ok" or inner["q"].startswith(("SelectMany", "Where")) else inner["end"], "calls": sorted(set(derived["g"].calls) | set(inner.get("calls", []))), "types": inner.get("types", []), "outer": q}
    elif r < 0.45:
        if rng.random() < 0.6 or reuse:
            pc = gen_family_query(rng, b, expect_ok=True)
        elif rng.random() < 0.5:
            pc = gen_family_query(rng, b, expect_ok=False)
        else:
            # a column that is one arithmetic chain over two or three declared methods, two of them of unranked types
            ts = rng.sample(FAM_UNRANKED, 2) + ([rng.choice(FAM_RANKED + FAM_UNRANKED)] if rng.random() < 0.4 else [])
            rng.shuffle(ts)
            pc = gen_family_query(rng, b, decl=dict(zip(FAM_METHODS_P, ts)), chain=True)
    else:
        # (an object translated before must not define an enum below a name the probe resolves: that is the listed enum leak)
        ok_cat = [k for k, v in CATALOG.items() if v["b"] == b and not (reuse and any(m.get("metadata_type") == "define_enum" for m in v.get("needs", [])))]
        eligible = [k for k in ok_cat if (CATALOG[k].get("end", "ok") == "ok") == (rng.random() < 0.8)] or ok_cat
        pc = CATALOG[rng.choice(eligible)]
    K = [list(k) for k in pc["keys"]]
    N = expr_names(pc["q"])
    p_calls, p_types = list(pc.get("calls", [])), list(pc.get("types", []))
    probe_md = list(pc.get("needs", []))
    probe_x: Dict[str, str] = {}
    r = rng.random()
    if reuse:
        pass  # (the earlier translations of the object would have to register the kind too)
    elif r < 0.2:
        kind = rng.choice(XKINDS)
        probe_x = {kind: rng.choice(["img", "img2"])}
        if rng.random() < 0.7:
            probe_md.append(ext_md(rng, kind))
    elif r < 0.35:
        probe_md.append(ext_md(rng, rng.choice(XKINDS)))  # not registered: must be refused in both worlds
    if rng.random() < 0.5:
        probe_md = probe_md + gen_extras(rng, b, [], N if reuse else [], True, n_max=2)
    if rng.random() < 0.2 and not any(m.get("metadata_type") == "add_job_script" for m in probe_md):
        # one job-script block that depends on nothing and says so by leaving `depends_on` out
        n = rng.choice(sorted(JOBS))
        probe_md.append({"metadata_type": "add_job_script", "name": n, "script": list(JOBS[n])})
    if derived:
        derived["inner"]["md"] = list(probe_md)  # the metadata of a derived query is the inner query's
    n_sib: List[int] = []

    def sibling(eb):
        """a sibling of the probe: the probe's declared return types, on other methods, met in another order"""
        ts = list(p_types)
        rng.shuffle(ts)
        return gen_family_query(rng, eb, methods=FAM_METHODS_H, decl=dict(zip(FAM_METHODS_H, ts)), chain=rng.random() < 0.6, fn_bias=p_calls, type_bias=p_types, expect_ok=all(t in RANK for t in ts))

    def shared_op(e):
        """one earlier translation that shares AST nodes with the probe: the probe's own object, or (derived queries)
        the inner object alone / another query derived from it"""
        if derived:
            if rng.random() < 0.5:
                return {"op": "tr", "e": e, "q": derived["inner"]["q"], "md": list(derived["inner"]["md"]), "obj": "P"}
            return {"op": "tr", "e": e, "q": derived["outer"](), "md": [], "inner": dict(derived["inner"])}
        return {"op": "tr", "e": e, "q": pc["q"], "md": list(probe_md), "obj": "P"}

    on_existing = rng.random() < 0.55
    nmax = 8 if tier == "quick" else 14
    n = rng.randint(1, nmax)
    hist: List[Dict[str, Any]] = [{"op": "new", "b": b}] if (on_existing or rng.random() < 0.7) else []
    backs: List[str] = [o["b"] for o in hist]
    mixed = rng.random() < 0.45
    e0 = 0 if on_existing else None
    kinds_probe = {m["metadata_type"] for m in probe_md if m.get("metadata_type") in XKINDS}
    was_reset: Dict[int, bool] = {}  # executors on which a translation was meant to succeed
    while len(hist) < n:
        r = rng.random()
        if r < 0.15 or not backs:
            nb = rng.choice(BACKENDS) if mixed else b
            hist.append({"op": "new", "b": nb})
            backs.append(nb)
            continue
        e = rng.randrange(len(backs))
        if on_existing and rng.random() < 0.5:
            e = e0
        eb = backs[e]
        if r < 0.25:
            must_succeed = False
            if on_existing and e == e0:
                kinds = [k for k in XKINDS if k not in kinds_probe] or XKINDS
                kind = rng.choice(kinds)
                if kinds_probe and rng.random() < 0.5:
                    # the probe's own kind on the probe's own executor: benign iff a translation on it reaches
                    # reset() afterwards
                    kind, must_succeed = rng.choice(sorted(kinds_probe)), True
            else:
                # on any other executor — reset or never reset, created before or after — every kind is the executor's
                # own business: the kinds the probe's metadata uses are preferred
                kind = rng.choice(sorted(kinds_probe)) if kinds_probe and rng.random() < 0.6 else rng.choice(XKINDS)
            hist.append({"op": "addx", "e": e, "x": {kind: rng.choice(["img", "h1", "h2"])}})
            if must_succeed or (rng.random() < 0.6 and len(hist) < n):
                q = rng.choice([k for k, v in CATALOG.items() if v["b"] == eb and v.get("end", "ok") == "ok" and v.get("history", True)])
                own = (on_existing and e == e0 and kind in probe_x)
                md = list(CATALOG[q].get("needs", [])) + ([] if own else [ext_md(rng, kind)])
                md = [m for m in md if m.get("metadata_type") != "define_enum" or m["namespace"].split(".")[0] not in N]
                if len(md) == len(list(CATALOG[q].get("needs", []))) + (0 if own else 1):
                    hist.append({"op": "tr", "e": e, "q": CATALOG[q]["q"], "md": md})
                    was_reset[e] = True
                elif must_succeed:
                    hist.pop()
            continue
        same = on_existing and e == e0
        if reuse and eb == b and rng.random() < 0.3:
            hist.append(shared_op(e))
            continue
        # (a probe of the generated families meets more history queries of its kind)
        intent = rng.choices(["ok", "md", "transform", "finder", "wrong", "write", "fam"], [45, 9, 5, 5, 6, 12, 60 if "fam" in pc else 25])[0]
        if intent == "fam":
            # a query of the generated families, drawn to touch the function names and return types the probe uses
            okq = rng.random() < 0.6
            if len(p_types) >= 2 and rng.random() < 0.5:
                f = sibling(eb)
                okq = f["end"] == "ok"
                n_sib.append(1)
            else:
                f = gen_family_query(rng, eb, expect_ok=okq, methods=(FAM_METHODS_P + FAM_METHODS_H) if okq else FAM_METHODS_H, fn_bias=p_calls, type_bias=p_types, force_userfn=bool(p_calls) and rng.random() < 0.4)
            if okq:
                md = list(f["needs"]) + gen_extras(rng, eb, [], N, True)
                if K and rng.random() < 0.3:
                    ty, m = rng.choice(K)
                    md.append({"metadata_type": "add_method_type_info", "type_string": ty, "method_name": m, "return_type": rng.choice(RTYPES)})
                rng.shuffle(md)
                was_reset[e] = True
            else:
                md = list(f["needs"]) + gen_extras(rng, eb, K, N, False, allow_job=not same)
            hist.append({"op": "tr", "e": e, "q": f["q"], "md": md})
            continue
        if intent == "ok":
            q = rng.choice([k for k, v in CATALOG.items() if v["b"] == eb and v.get("end", "ok") == "ok" and v.get("history", True)])
            md = list(CATALOG[q].get("needs", []))
            # a successful translation may declare anything, in particular types on the probe's own keys
            extra = gen_extras(rng, eb, [], N, True)
            if rng.random() < 0.2 and not any(m.get("metadata_type") == "add_job_script" for m in extra):
                extra.extend(gen_job_md(rng, False))
            if rng.random() < 0.3:
                # re-declare a built-in collection / DeltaR, or declare MyJets / MyMu / MyF, for THIS query only
                extra.append(rng.choice(REDECL[eb] + COLLS[eb] + [MD_MYF]))
            if K and rng.random() < 0.5:
                ty, m = rng.choice(K)
                extra.append({"metadata_type": "add_method_type_info", "type_string": ty, "method_name": m, "return_type": rng.choice(RTYPES)})
            md = [m for m in md if m.get("metadata_type") != "define_enum" or m["namespace"].split(".")[0] not in N] + extra
            if any(m.get("metadata_type") == "define_enum" for m in CATALOG[q].get("needs", [])) and "xAOD" in N:
                continue
            rng.shuffle(md)
            was_reset[e] = True
        else:
            extra = gen_extras(rng, eb, K, N, False, allow_job=not (same and intent == "write"))
            if intent == "md":
                q = rng.choice([k for k, v in CATALOG.items() if v["b"] == eb and v.get("history", True)])
                bad = rng.choice(BAD_MD + [INJECTS[1]])
                pos = rng.randint(0, len(extra))
                md = extra[:pos] + ([INJECTS[0]] if bad is INJECTS[1] else []) + [bad] + extra[pos:]
            elif intent == "wrong":
                q = rng.choice([k for k, v in CATALOG.items() if v["b"] == eb and v.get("history", True)])
                other = rng.choice([x for x in BACKENDS if x != eb])
                md = extra + [rng.choice(COLLS[other])]
                rng.shuffle(md)
            else:
                cands = [k for k, v in CATALOG.items() if v["b"] == eb and v.get("end") == intent and v.get("history", True) and not any(x.get("metadata_type") == "define_enum" for x in v.get("needs", []))]
                if not cands:
                    if intent == "write" and eb == "atlas" and not same:
                        q = rng.choice([k for k, v in CATALOG.items() if v["b"] == eb and v.get("end", "ok") == "ok" and v.get("history", True) and not v.get("needs")])
                        md = extra + gen_job_md(rng, True)
                        hist.append({"op": "tr", "e": e, "q": CATALOG[q]["q"], "md": md})
                    continue
                q = rng.choice(cands)
                md = list(CATALOG[q].get("needs", [])) + extra
                if intent == "write" and eb == "atlas" and not same and rng.random() < 0.3:
                    md = [m for m in md if m.get("metadata_type") != "add_job_script"] + gen_job_md(rng, True)
        hist.append({"op": "tr", "e": e, "q": CATALOG[q]["q"], "md": md})
    if "fam" in pc and len(p_types) >= 2 and not n_sib and rng.random() < 0.7:
        # at least one sibling somewhere in the history (on any executor: the tables a return type goes through are global)
        if not backs:
            hist.append({"op": "new", "b": b})
            backs.append(b)
        e = rng.randrange(len(backs))
        f = sibling(backs[e])
        first = next(i for i, o in enumerate(hist) if o["op"] == "new" and sum(1 for o2 in hist[: i + 1] if o2["op"] == "new") == e + 1)
        hist.insert(rng.randint(first + 1, len(hist)), {"op": "tr", "e": e, "q": f["q"], "md": list(f["needs"])})
    unreg = sorted(k for k in kinds_probe if k not in probe_x)
    if unreg and rng.random() < 0.7 and not any(o["op"] == "addx" and o["e"] != e0 and set(o["x"]) & set(unreg) for o in hist):
        # a kind the probe's metadata uses without the caller registering it: some OTHER executor registers it, somewhere
        # in the history (never the probe's own executor)
        if not [i for i in range(len(backs)) if i != e0]:
            hist.append({"op": "new", "b": rng.choice(BACKENDS) if mixed else b})
            backs.append(hist[-1]["b"])
        e = rng.choice([i for i in range(len(backs)) if i != e0])
        first = next(i for i, o in enumerate(hist) if o["op"] == "new" and sum(1 for o2 in hist[: i + 1] if o2["op"] == "new") == e + 1)
        hist.insert(rng.randint(first + 1, len(hist)), {"op": "addx", "e": e, "x": {rng.choice(unreg): rng.choice(["img", "h1", "h2"])}})
    probe = {"b": b, "on": e0, "x": probe_x, "q": pc["q"], "md": probe_md}
    if reuse:
        if derived:
            probe.update({"q": pc["outer"], "md": [], "inner": dict(derived["inner"])})
        else:
            probe["obj"] = "P"
        if not any(o.get("obj") == "P" or o.get("inner") for o in hist):
            # at least one earlier translation of the object, on some executor of the probe's backend
            if b not in backs:
                hist.append({"op": "new", "b": b})
                backs.append(b)
            es = [i for i, x in enumerate(backs) if x == b]
            e = rng.choice(es)
            first = next(i for i, o in enumerate(hist) if o["op"] == "new" and sum(1 for o2 in hist[: i + 1] if o2["op"] == "new") == e + 1)
            hist.insert(rng.randint(first + 1, len(hist)), shared_op(e))
    return {"history": hist, "probe": probe}


# =============================================================================== running the real code
def _sub(mode: str, payload: Dict[str, Any]) -> Dict[str, Any]:
    env = dict(os.environ)
    p = subprocess.run([PY, str(HARNESS), mode], input=json.dumps(payload), capture_output=True, text=True, timeout=300, env=env)
    if p.returncode != 0:
        return {"crash": p.stderr[-1500:]}
    return json.loads(p.stdout)


_tls = threading.local()
_servers: List[subprocess.Popen] = []


def _server() -> subprocess.Popen:
    sv = getattr(_tls, "server", None)
    if sv is None or sv.poll() is not None:
        sv = subprocess.Popen([PY, str(HARNESS), "serve"], stdin=subprocess.PIPE, stdout=subprocess.PIPE, text=True, env=dict(os.environ))
        _tls.server = sv
        _servers.append(sv)
    return sv


def _close_servers():
    for sv in _servers:
        try:
            sv.stdin.close()
            sv.wait(timeout=5)
        except Exception:
            sv.kill()
    _servers.clear()


atexit.register(_close_servers)


def run_history(case: Dict[str, Any]) -> Dict[str, Any]:
    """the history (and probe) in ONE process of its own, started from the state of a new interpreter: a child
    forked from a server that has only imported the package (tools/c07_harness/impl.py `serve`)"""
    try:
        sv = _server()
        sv.stdin.write(json.dumps(case) + "\n")
        sv.stdin.flush()
        line = sv.stdout.readline()
        if line.strip():
            return json.loads(line)
    except Exception:
        pass
    return _sub("history", case)  # the server died: a plain subprocess


def run_fresh(probe: Dict[str, Any]) -> Dict[str, Any]:
    return _sub("fresh", {"probe": probe})


_pool: Optional[cf.ThreadPoolExecutor] = None


def pmap(fn, items, workers=12):
    """order-preserving parallel map on one persistent pool (each thread keeps its fork server)"""
    global _pool
    if not items:
        return []
    if _pool is None:
        _pool = cf.ThreadPoolExecutor(max_workers=workers)
    return list(_pool.map(fn, items))


# =============================================================================== conversion to the model's language
def _impl():
    sys.path.insert(0, str(HARNESS.parent))
    import impl  # noqa

    return impl


def q_model(expr: str, measured_keys, measured_names, declared=True) -> Dict[str, Any]:
    qid = BY_EXPR.get(expr, expr)
    keys = {tuple(k) for k in measured_keys}
    names = set(measured_names)
    if declared and qid in CATALOG:
        keys |= {tuple(k) for k in CATALOG[qid]["keys"]}
        names |= set(expr_names(expr))
    return {"id": qid, "keys": sorted(list(k) for k in keys), "names": sorted(names)}


STAGE_TO_TAG = {"ok": "ok", "write": "failWrite", "finder": "failFinder", "transform": "failTransform", "md": "ok", "wrong-backend": "ok"}


def res_model(out: Dict[str, Any]) -> Dict[str, Any]:
    return {"tag": STAGE_TO_TAG[out["stage"]], "payload": out.get("error", ""), "ticks": int(out.get("ticks", 0))}


def x_model(x: Dict[str, str]) -> List[List[str]]:
    return [[k, json.dumps([k, v])] for k, v in x.items()]


def history_model(case, outs) -> List[Dict[str, Any]]:
    """The model has no AST objects: a translation of an object that was handed to an executor before (or of a query
    that contains it) is the translation of the same text with the same MetaData (Model.lean `reuseProbe` is the identity
    since fix 1c4553a: apply_ast_transformations works on a copy)."""
    impl = _impl()
    res = []
    for op, out in zip(case["history"], outs):
        if op["op"] == "new":
            res.append({"o": "new", "b": op["b"]})
        elif op["op"] == "addx":
            res.append({"o": "addx", "e": op["e"], "x": x_model(op["x"])})
        else:
            md = op_md(op)
            res.append({"o": "tr", "e": op["e"], "q": q_model(op_text(op), out["keys"], out["names"], declared=False), "md": [impl.md_to_model(m) for m in md], "r": res_model(out)})
    return res


def op_label(op) -> Optional[str]:
    """label of the AST object that carries the operation's MetaData nodes (the whole query, or the inner query)"""
    return op["inner"].get("obj") if op.get("inner") else op.get("obj")


def probe_reused(case) -> bool:
    lab = op_label(case["probe"])
    return lab is not None and any(op_label(o) == lab for o in case["history"] if o["op"] == "tr")


def shares_nodes(case) -> str:
    p = case["probe"]
    if not probe_reused(case):
        return ""
    return " (derived from a query object translated before)" if p.get("inner") else " (AST object translated before)"


def probe_model(probe, out_after, out_fresh, reused: bool = False) -> Dict[str, Any]:
    impl = _impl()
    keys = list(out_after.get("keys", [])) + list((out_fresh or {}).get("keys", []))
    names = list(out_after.get("names", [])) + list((out_fresh or {}).get("names", []))
    return {"b": probe["b"], "x": x_model(probe.get("x", {})), "q": q_model(op_text(probe), keys, names), "md": [impl.md_to_model(m) for m in op_md(probe)], "r": res_model(out_after), "reused": reused}


def obs_of(out: Dict[str, Any]) -> Dict[str, Any]:
    kind = "ok" if out["stage"] == "ok" else f"{out['stage']}:{out['error']}"
    files = [[n, t.split("\n")] for n, t in sorted((out.get("files") or {}).items())]
    # what the library logged (WARNING and above) during the translation is part of what the caller is told: it is
    # compared like a file (so a guess remembered from an earlier query that silences a later query's warning shows)
    files.append(["<log>", list(out.get("log", []))])
    return {"kind": kind, "files": files, "found": list(out.get("found", []))}


def abs_state(st: Dict[str, Any]) -> Dict[str, Any]:
    """an observed state in the model's language (input of the one-step simulation)"""
    return {
        "reg": [list(r) for r in st["reg"]],
        "spaces": st["spaces"],
        "enums": st["enums"],
        "execs": [{"b": e["b"], "job": e["job"], "inject": e["inject"], "xmd": e["xmd"], "found": [[k, "@", it] for k, items in sorted(e["found"].items()) for it in items]} for e in st["execs"]],
        "counter": st["counter"],
    }


# Not compared, because no translation can read them (theorems inject_never_leaks, counter_never_read): the
# executor's `_inject_blocks` (replaced by every apply_ast_transformations before write_cpp_files reads it) and the
# value of the name counter.  A change of the code that only alters these is not a change of the property.
def components_impl(st: Dict[str, Any]) -> Dict[str, Any]:
    c = {"registry": sorted(map(list, st["reg"])), "namespaces+enums": [sorted(st["spaces"]), sorted(st["enums"])], "number of executors": len(st["execs"])}
    for n, e in enumerate(st["execs"]):
        c[f"executor {n} backend"] = e["b"]
        c[f"executor {n} job blocks"] = e["job"]
        c[f"executor {n} extended_md"] = sorted(e["xmd"])
        c[f"executor {n} found extended md"] = {k: v for k, v in sorted(e["found"].items()) if v}
    return c


def components_model(st: Dict[str, Any]) -> Dict[str, Any]:
    impl = _impl()
    c = {"registry": sorted(st["reg"]), "namespaces+enums": [sorted(st["spaces"]), sorted(st["enums"])], "number of executors": len(st["execs"])}
    for n, e in enumerate(st["execs"]):
        found: Dict[str, List[str]] = {}
        for kind, proto, fields in e["found"]:
            found.setdefault(kind, []).append(impl.expected_found_render(kind, proto, fields))
        c[f"executor {n} backend"] = e["b"]
        c[f"executor {n} job blocks"] = e["job"]
        c[f"executor {n} extended_md"] = sorted(e["xmd"])
        c[f"executor {n} found extended md"] = {k: v for k, v in sorted(found.items())}
    return c


def state_diff(asis, ideal, impl_st) -> Optional[str]:
    """None if every component of the observed state is what the model of the code as it is predicts, or what the
    repaired variant of the operation would give (see Driver.lean `idealStep`)"""
    a, d, i = components_model(asis), components_model(ideal), components_impl(impl_st)
    for k in i:
        if k not in a or (i[k] != a[k] and i[k] != d.get(k)):
            return f"{k}: model {a.get(k)} / implementation {i[k]}"
    for k in a:
        if k not in i:
            return f"{k}: model {a[k]} / implementation has none"
    return None


def outcome_matches(model_outcome: str, out: Dict[str, Any]) -> bool:
    if out.get("kind") != "tr":
        return model_outcome == out.get("kind")
    st = out["stage"]
    if st == "md":
        return model_outcome.startswith("md:")
    return model_outcome == st


def case_key(case) -> str:
    return json.dumps({"history": case["history"], "probe": case["probe"]}, sort_keys=True)


# =============================================================================== the check
def translate(ctx):
    """Tie T: the defaults tables of the three backends, from the constructors in the current source."""
    import vlib

    p = subprocess.run([PY, str(HARNESS), "defaults"], capture_output=True, text=True, timeout=120, env=dict(os.environ))
    names = {"atlas": "defaultsAtlas", "cms_aod": "defaultsCmsAod", "cms_miniaod": "defaultsCmsMiniaod"}
    src = ["/- GENERATED by tools/props/c07.py from the constructors of the three backends in /repo — do not edit. -/", "namespace FaxVerif.Generated.C07", ""]
    try:
        t = json.loads(p.stdout)
        for b, n in names.items():
            rows = ",\n  ".join(f"(({vlib.lean_str(r[0])}, {vlib.lean_str(r[1])}), {vlib.lean_str(r[2])})" for r in t[b])
            src.append(f"def {n} : List ((String × String) × String) := [\n  {rows}]\n")
    except Exception:
        # never crash, never silently pass: the table the driver reads is marked unrecognised, so every state
        # comparison after a constructor call disagrees and the run ends in the search
        ctx.broken.append({"kind": "translator", "what": "could not read the default method types of the backends", "stderr": p.stderr[-1500:]})
        for n in names.values():
            src.append(f'def {n} : List ((String × String) × String) := [(("unrecognised", "unrecognised"), {vlib.lean_str(p.stderr[-200:])})]\n')
    src.append("end FaxVerif.Generated.C07\n")
    vlib.write_if_changed(vlib.LEAN / "FaxVerif/Generated/C07Defaults.lean", "\n".join(src))


def evaluate(ctx, cases: List[Dict[str, Any]], stream: str, judge: bool = True, follow_impl: bool = True):
    """Run cases on the real code (cut to their benign prefix), compare states with the model, judge the probe.
    Returns the list of (case, verdict dict).

    follow_impl=True  (main stream): every operation is simulated from the state OBSERVED before it, and `benign` is
        evaluated there — a one-step simulation with the tolerance described in Driver.lean, so that a repaired leak
        (implementation cleaner than the model) is neither a disagreement nor a wrongly judged case.
    follow_impl=False (search): the model runs on its own from s₀, exactly as in the hypotheses of the theorems; the
        states are not compared, the fresh-interpreter oracle is the only judge."""
    runs = pmap(run_history, cases)
    fresh_cache: Dict[str, Dict[str, Any]] = {}

    def fresh_of(probe):
        k = json.dumps({**probe, "on": None}, sort_keys=True)
        return k

    need = {}
    for c in cases:
        need.setdefault(fresh_of(c["probe"]), c["probe"])
    keys = list(need)
    for k, r in zip(keys, pmap(run_fresh, [need[k] for k in keys])):
        fresh_cache[k] = r
    ctx.check_time()

    def requests(case, run):
        fr = fresh_cache[fresh_of(case["probe"])]
        req = {"op": "run", "history": history_model(case, run["ops"]), "probe": probe_model(case["probe"], run["probe"], fr, probe_reused(case)), "on": case["probe"].get("on")}
        if follow_impl:
            req["states"] = [abs_state(st) for st in run["states"]]
        return req

    for c, r in zip(cases, runs):
        if "crash" in r or "crash" in fresh_cache[fresh_of(c["probe"])]:
            raise RuntimeError("harness subprocess crashed: " + (r.get("crash") or fresh_cache[fresh_of(c["probe"])].get("crash")))
    ans = ctx.driver(DRIVER, [requests(c, r) for c, r in zip(cases, runs)])
    # cut candidate histories before their first operation outside the hypotheses, run those again
    redo = []
    for i, (c, r, a) in enumerate(zip(cases, runs, ans)):
        if "bad" in a:
            continue
        flags = [st["benignNew"] and st["benignOn"] for st in a["steps"]]
        if not all(flags):
            cut = flags.index(False)
            ctx.count("history-cut-to-benign-prefix")
            nc = {"history": c["history"][:cut], "probe": dict(c["probe"])}
            n_exec = sum(1 for o in nc["history"] if o["op"] == "new")
            if nc["probe"].get("on") is not None and nc["probe"]["on"] >= n_exec:
                nc["probe"]["on"] = None
            redo.append((i, nc))
    if redo:
        rr = pmap(run_history, [nc for _, nc in redo])
        for (i, nc), r in zip(redo, rr):
            if "crash" in r:
                raise RuntimeError("harness subprocess crashed: " + r["crash"])
            cases[i], runs[i] = nc, r
        ans2 = ctx.driver(DRIVER, [requests(cases[i], runs[i]) for i, _ in redo])
        for (i, _), a in zip(redo, ans2):
            ans[i] = a
    ctx.check_time()
    agree = ctx.driver(DRIVER, [{"op": "agree", "fresh": obs_of(fresh_cache[fresh_of(c["probe"])]), "after": obs_of(r["probe"])} for c, r in zip(cases, runs)])
    results = []
    for c, r, a, g in zip(cases, runs, ans, agree):
        fr = fresh_cache[fresh_of(c["probe"])]
        verdict = {"holds": None, "why": "", "benign": None, "clean": None}
        results.append((c, verdict))
        if "bad" in a or "bad" in g:
            continue
        hist = c["history"]
        n_tr = [o for o in r["ops"] if o.get("kind") == "tr"]
        ctx.count(f"stream:{stream}")
        ctx.count(f"history-length:{min(len(hist), 14):02d}")
        ctx.count("probe:" + ("existing-executor" if c["probe"].get("on") is not None else "new-executor"))
        ctx.count("probe-ending:" + r["probe"]["stage"])
        ctx.count(f"backends-in-history:{len({o['b'] for o in hist if o['op'] == 'new'})}")
        for o in n_tr:
            ctx.count("op-ending:" + o["stage"])
        for o in hist:
            ctx.count("op:" + o["op"])
            for m in o.get("md", []):
                ctx.count("md:" + str(m.get("metadata_type")))
            if o["op"] == "tr":
                ctx.count("op-query:" + ("catalogue" if o["q"] in BY_EXPR else "generated-family") + (" (shares AST nodes with the probe)" if op_label(o) else ""))
        ctx.count("probe-query:" + ("catalogue" if c["probe"]["q"] in BY_EXPR else "generated-family") + shares_nodes(c))
        # ---- the rest of the process state (everything at module / class level the model does not have) never changes
        for k, ist in enumerate(list(r["states"]) + [r["final"]]):
            if ist.get("frame"):
                ctx.disagreement("process-state-outside-the-model", {"history": hist[: k + 1], "probe": c["probe"] if k == len(hist) else None}, "no operation changes module or class level data other than the registries, the name counter and the constructor default", ist["frame"][:3])
                break
        reached = sum(1 for o in n_tr if o["stage"] == "ok")
        nontrivial = reached >= 1 and (len(n_tr) > reached or len({o["b"] for o in hist if o["op"] == "new"}) >= 2 or sum(1 for o in hist if o["op"] == "new") >= 2)
        ctx.case(case_key(c), nontrivial, {"history": hist, "probe": c["probe"], "probe_ending_after_history": obs_of(r["probe"])["kind"], "probe_ending_fresh": obs_of(fr)["kind"], "agree": g.get("holds")})
        all_benign = a["allBenign"]
        verdict.update({"holds": g.get("holds"), "why": g.get("why", ""), "benign": all_benign, "clean": a["clean"]})
        # ---- the tie: states after every operation, the model's own predictions
        for k, (op, out, st, ist) in enumerate(zip(hist, r["ops"], a["steps"], r["states"]) if follow_impl else []):
            if not outcome_matches(st["outcome"], out):
                ctx.disagreement("outcome-of-operation", {"history": hist[: k + 1]}, st["outcome"], {k2: out.get(k2) for k2 in ("stage", "error", "message")})
                break
            d = state_diff(st["asis"], st["ideal"], ist)
            if d is not None:
                ctx.disagreement("state-after-operation", {"history": hist[: k + 1], "operation": k}, d, "see model/implementation in the text")
                break
        else:
            if not follow_impl:
                pass
            elif not outcome_matches(a["probe"]["outcome"], r["probe"]):
                ctx.disagreement("outcome-of-probe", {"history": hist, "probe": c["probe"]}, a["probe"]["outcome"], {k2: r["probe"].get(k2) for k2 in ("stage", "error", "message")})
            else:
                d = state_diff(a["probe"]["asis"], a["probe"]["ideal"], r["final"])
                if d is not None:
                    ctx.disagreement("state-after-probe", {"history": hist, "probe": c["probe"]}, d, "see text")
            impl = _impl()
            mf = sorted(impl.expected_found_render(*f) for f in a["probe"]["found"])
            if follow_impl and mf != sorted(r["probe"].get("found", [])):
                ctx.disagreement("found-extended-md-of-probe", {"history": hist, "probe": c["probe"]}, mf, r["probe"].get("found"))
        # the footprint the model was told must cover what the translator really looked up
        qid = BY_EXPR.get(c["probe"]["q"])
        if qid is not None and c["probe"]["md"] == list(CATALOG[qid].get("needs", [])):
            declared = {tuple(k) for k in CATALOG[qid]["keys"]}
            measured = {tuple(k) for k in r["probe"].get("keys", [])} | {tuple(k) for k in fr.get("keys", [])}
            if not measured <= declared:
                ctx.disagreement("registry-footprint", {"probe": c["probe"]}, sorted(declared), sorted(measured))
        # ---- the property, judged on the implementation's own outputs
        if judge and all_benign:
            if not a["clean"] and follow_impl:
                # the theorem `benign_preserves_*` says this cannot happen for the model
                ctx.disagreement("benign-history-but-unclean-model-state", {"history": hist, "probe": c["probe"]}, "clean", "not clean")
            if not g.get("holds", False):
                ctx.violation(
                    key=case_key(c),
                    what="the probe query translates differently after this history than in a fresh interpreter: " + g.get("why", ""),
                    case={"history": hist, "probe": c["probe"]},
                    observed={"fresh": obs_of(fr)["kind"], "after_history": obs_of(r["probe"])["kind"], "first_difference": g.get("why")},
                    how=f"echo '<case>' | VERIF_REPO=... {PY} {HARNESS} history   vs   echo '{{\"probe\":<probe>}}' | {PY} {HARNESS} fresh ; or ./check C07 --replay <this file>",
                )
    return results


def canary(ctx):
    """the look-up recorder must see the translator's look-ups, otherwise footprints (and `benign`) are meaningless"""
    r = run_fresh({"b": "atlas", "on": None, "x": {}, "q": CATALOG["atlas.enum_red"]["q"], "md": [MD_COLOR]})
    if "crash" in r:
        raise RuntimeError("harness subprocess crashed: " + r["crash"])
    if ["xAOD::Jet", "color"] not in r.get("keys", []) or "xAOD" not in r.get("names", []):
        import vlib

        raise vlib.InternalError(f"look-up recorder is blind (keys {r.get('keys')}, names {r.get('names')}): the translator no longer goes through cpp_types.method_type_info / get_toplevel_ns as module attributes")


def known_stream(ctx):
    entries = ctx.known_entries("known") + ctx.known_entries("fixed")
    if not entries:
        return
    cases = [{"history": e["input"]["history"], "probe": e["input"]["probe"]} for e in entries]
    runs = pmap(run_history, cases)
    fresh = pmap(run_fresh, [c["probe"] for c in cases])
    for r in runs + fresh:
        if "crash" in r:
            raise RuntimeError("harness subprocess crashed: " + r["crash"])
    reqs = []
    for e, c, r, f in zip(entries, cases, runs, fresh):
        pm = probe_model(c["probe"], r["probe"], f, probe_reused(c))
        hm = history_model(c, r["ops"])
        reqs.append({"op": "agree", "fresh": obs_of(f), "after": obs_of(r["probe"])})
        reqs.append({"op": "run", "history": hm, "states": [abs_state(st) for st in r["states"]], "probe": pm, "on": c["probe"].get("on")})
        reqs.append({"op": "witness", "name": e["input"].get("witness", ""), "history": hm, "probe": pm, "on": c["probe"].get("on")})
    ans = ctx.driver(DRIVER, reqs)
    for i, (e, c, r, f) in enumerate(zip(entries, cases, runs, fresh)):
        g, a, w = ans[3 * i], ans[3 * i + 1], ans[3 * i + 2]
        if "bad" in g or "bad" in a or "bad" in w:
            continue
        ctx.count("stream:known-findings")
        if g.get("holds", False):
            if e["status"] == "known":
                # listed as known, but the input no longer fails on this tree (repaired): nothing to report; the
                # witness literal, if any, now belongs to a `*_repaired` theorem
                ctx.count("known-finding-no-longer-fails")
                ctx.notes.append("listed as `known` but no longer fails (flip to `fixed`): " + e["what"][:100])
            continue
        if e["status"] == "known" and e["input"].get("witness") and not w.get("match"):
            ctx.broken.append({"kind": "witness-drift", "finding": e["key"][:80], "theorem_witness": w.get("expected"), "replayed": w.get("got")})
        if not g.get("holds", False):
            if e["status"] == "known":
                if a.get("clean") and a.get("allBenign") and not e["input"].get("model_blind"):
                    # the implementation leaks where the model says nothing is left behind: the tie is broken
                    ctx.disagreement("known-finding-not-predicted-by-model", c, "clean", g.get("why"))
                ctx.violation(key=e["key"], what=e["what"], case=c, observed=g.get("why"))
            else:
                ctx.violation(key="regressed:" + e["key"], what="a finding recorded as fixed fails again: " + e["what"], case=c, observed=g.get("why"), how="./check C07 --replay <this file>")


def uname_stream(ctx):
    """tie of `uniqueName` (Model.lean) to cpp_vars.unique_name"""
    import func_adl_xAOD.common.cpp_vars as cvars

    cases = [(n, i, c) for n in ["x", "x1", "col1", "i_obj", "agg_7", ""] for i in [0, 1, 9, 10, 11, 99, 100, 12345] for c in (False, True)]
    got = []
    keep = cvars.unique_var_index
    if not isinstance(keep, int) or isinstance(keep, bool):
        # the model's counter is one natural number; the code's is something else now: the tie is broken (search decides)
        ctx.disagreement("unique_name-counter-is-one-int", {"counter": type(keep).__name__}, "int", repr(keep)[:200])
        return
    for n, i, c in cases:
        cvars.unique_var_index = i
        got.append(cvars.unique_name(n, is_class_var=c))
        if cvars.unique_var_index != i + 1:
            ctx.disagreement("unique_name-advances-by-one", {"name": n, "index": i}, i + 1, cvars.unique_var_index)
    cvars.unique_var_index = keep
    ans = ctx.driver(DRIVER, [{"op": "uname", "name": n, "idx": i, "cls": c} for n, i, c in cases])
    # a repaired unique_name (distinct (name, index, class-variable) -> distinct identifiers on the whole sample, which
    # contains the colliding pairs of the model) is what the property wants: not a disagreement
    injective = len(set(got)) == len(cases)
    for (n, i, c), g, a in zip(cases, got, ans):
        ctx.count("stream:unique_name")
        if "bad" not in a and a.get("name") != g and not injective:
            ctx.disagreement("unique_name", {"name": n, "index": i, "is_class_var": c}, a.get("name"), g)
    if injective:
        ctx.notes.append("cpp_vars.unique_name is injective on the sample: the listed name-counter collision is repaired (model `uniqueName` describes the old behaviour)")


def run(ctx):
    import vlib

    canary(ctx)
    uname_stream(ctx)
    known_stream(ctx)
    corpus = [{"history": c["history"], "probe": c["probe"]} for c in vlib.corpus_cases(ID)]
    if corpus:
        evaluate(ctx, corpus, "corpus")
    n = 240 if ctx.tier == "quick" else 3200
    chunk = 240
    done = 0
    while done < n:
        cases = [gen_case(ctx.rng, ctx.tier) for _ in range(min(chunk, n - done))]
        evaluate(ctx, cases, "random")
        done += len(cases)
        ctx.check_time()
    if ctx.violations:
        # minimise the first failing input (drop operations / metadata while it still fails inside the hypotheses)
        v = ctx.violations[0]
        try:
            c2, info = shrink(ctx, v["case"], {"why": v["observed"].get("first_difference") if isinstance(v["observed"], dict) else str(v["observed"])})
            if c2 is not v["case"]:
                v["unshrunk_case"] = v["case"]
                v["case"], v["key"] = c2, case_key(c2)
                v["what"] = "the probe query translates differently after this history than in a fresh interpreter: " + str(info.get("why"))
                v["observed"] = info
        except Exception as e:  # shrinking is best effort
            ctx.notes.append(f"shrink raised {type(e).__name__}: {e}")
    ctx.extra_cov["exhaustive"] = False
    ctx.extra_cov["inside_hypotheses"] = "every judged case: all operations benign for the probe (benignNew/benignOn evaluated by the Lean driver on the observed outcomes)"
    ctx.extra_cov["outside_hypotheses"] = "exercised only through the listed known findings (one literal history per leak class)"


# =============================================================================== search / replay
def fails(ctx, case) -> Optional[Dict[str, Any]]:
    r = run_history(case)
    f = run_fresh(case["probe"])
    if "crash" in r or "crash" in f:
        return None
    a, g = ctx.driver(DRIVER, [{"op": "run", "history": history_model(case, r["ops"]), "probe": probe_model(case["probe"], r["probe"], f, probe_reused(case)), "on": case["probe"].get("on")}, {"op": "agree", "fresh": obs_of(f), "after": obs_of(r["probe"])}])
    if "bad" in a or "bad" in g:
        return None
    if a["allBenign"] and not g["holds"]:
        return {"why": g["why"], "fresh": obs_of(f)["kind"], "after": obs_of(r["probe"])["kind"]}
    return None


def label_defs(case) -> Optional[Dict[str, str]]:
    """label -> the (query, metadata) the labelled AST object is built from; None if two operations disagree (then the
    case is not an input: the label would name two different objects)"""
    defs: Dict[str, str] = {}
    for o in [x for x in case["history"] if x["op"] == "tr"] + [case["probe"]]:
        for lab, q, md in ([(o["obj"], o["q"], o["md"])] if o.get("obj") and not o.get("inner") else []) + ([(o["inner"]["obj"], o["inner"]["q"], o["inner"]["md"])] if o.get("inner") else []):
            d = json.dumps([q, md], sort_keys=True)
            if defs.setdefault(lab, d) != d:
                return None
    return defs


def shrink(ctx, case, info):
    """drop operations (never a `new`, so executor numbers stay valid), then metadata dictionaries, while it still fails"""
    changed = True
    while changed:
        changed = False
        h = case["history"]
        cands = []
        for i, o in enumerate(h):
            if o["op"] != "new":
                cands.append({"history": h[:i] + h[i + 1 :], "probe": case["probe"]})
        for i, o in enumerate(h):
            for j in range(len(o.get("md", []))):
                cands.append({"history": h[:i] + [{**o, "md": o["md"][:j] + o["md"][j + 1 :]}] + h[i + 1 :], "probe": case["probe"]})
        for c in [c for c in cands if label_defs(c) is not None][:40]:
            x = fails(ctx, c)
            if x is not None:
                case, info, changed = c, x, True
                break
    return case, info


def counter_family() -> List[Dict[str, Any]]:
    cases = []
    for base in ("jet_pt", "x"):
        for k in range(0, 13):
            hist = [{"op": "new", "b": "atlas"}] + [{"op": "tr", "e": 0, "q": f"Select(DS, lambda e: {{'{base}': 1}})", "md": []} for _ in range(k)]
            probe = {"b": "atlas", "on": None, "x": {}, "q": f"Select(DS, lambda e: {{'{base}': 1, 'c2': 2, '{base}1': 3}})", "md": []}
            cases.append({"history": hist, "probe": probe, "witness": ""})
    return cases


def search(ctx, broken):
    """A larger sweep with the property (fresh interpreter vs after a benign history) as the only judge."""
    known = set(ctx._known)
    for rnd in range(9):
        # first a directed family derived from WHAT the name-counter tie says: k earlier uses of a column label, then a probe
        # that books that label next to the label extended by a digit (label first, so that the code as it stands — one
        # global counter — cannot make the two storage names coincide); then the random sweeps
        cases = counter_family() if rnd == 0 else [gen_case(ctx.rng, "thorough") for _ in range(160)]
        before = len(ctx.violations)
        res = evaluate(ctx, cases, "search", follow_impl=False)
        for c, v in res:
            if v["benign"] and v["holds"] is False and case_key(c) not in known:
                c2, info = shrink(ctx, c, {"why": v["why"]})
                return {"key": case_key(c2), "what": "the probe query translates differently after this history than in a fresh interpreter: " + info["why"], "case": c2, "observed": info}
        del ctx.violations[before:]
    return None


def replay(ctx, rep) -> int:
    case = rep["case"]
    r = run_history(case)
    f = run_fresh(case["probe"])
    g = ctx.driver(DRIVER, [{"op": "agree", "fresh": obs_of(f), "after": obs_of(r["probe"])}])[0]
    print("history:")
    for o, out in zip(case["history"], r["ops"]):
        print("  ", json.dumps(o), "->", out.get("stage", out.get("kind")), out.get("error", ""))
    print("probe:", json.dumps(case["probe"]))
    print("  fresh interpreter :", obs_of(f)["kind"], f.get("found"))
    print("  after the history :", obs_of(r["probe"])["kind"], r["probe"].get("found"))
    print("  agree (Lean agreeObs):", g)
    return 0 if g.get("holds") else 1


LEVEL_TEXT = (
    "Machine-checked proof (Lean 4), for every finite history of operations (new executor of any backend, "
    "add_extended_md, translate with any metadata, ending ok or failing at any of four stages) and every translator "
    "function: if every operation of the history is benign for the probe (decidable predicate benignNew/benignOn over "
    "the recorded outcomes) then the probe's result equals the result in a fresh process — on a new executor "
    "(history_indep_partial) and on an existing one (history_indep_on_partial); reset_restores / success_heals_partial "
    "show that ANY earlier state is repaired by one translation that reaches reset() except enum definitions; "
    "addXmd_invisible_to_new_executors: add_extended_md on any executor never reaches an executor created later (fix "
    "cfca57a); retranslation_indep_*_partial: the same for the caller's own AST object translated again, with its "
    "MetaData (fix 1c4553a); ten leak_counterexample_* theorems show each excluded class really breaks the statement in "
    "the model, and each is replayed on the real code as a listed finding. The model is tied to the code on every run by "
    "comparing the observable state after every operation of random histories and by regenerating the backends' default "
    "tables; the property itself is evaluated reference-free (fresh interpreter) on every benign history generated."
)
LEVEL_NOTE = (
    "Theorem: ∀ histories inside the hypotheses, ∀ translators that read the process state only through the modelled "
    "View. Sampled, not proved: that the real translator reads nothing else (checked by the fresh-interpreter oracle and "
    "recorded look-ups on every case). Excluded by hypothesis (all listed findings): failed translations that declared a "
    "method type the probe looks up, enum definitions below a name the probe resolves, translations/constructors of "
    "another backend whose defaults the probe looks up, add_extended_md on the probe's own executor, found extended "
    "metadata and job blocks left on the probe's own executor. Trusted: Lean kernel (axioms audited), harness, generators."
)
TECHNIQUE = "Lean 4 theorems over a hand model of the inter-query state + state-by-state correspondence check against the real executors + reference-free fresh-interpreter oracle"
DESIGN_REF = "DESIGN.md §4 C07"
