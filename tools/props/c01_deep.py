"""C01 extension — nesting of ARBITRARY DEPTH in the translator model.

Not a check of its own: `c01.py` hooks these in
    THEOREMS      += THEOREMS_DEEP
    LEAN_MODULES  += LEAN_MODULES_DEEP
    LEAN_SOURCES  += LEAN_SOURCES_DEEP
    SETUP_MODULES += SETUP_MODULES_DEEP         (what the driver `DRIVER_DEEP` imports)
    run(ctx): ... c01_deep.stream(ctx)

Lean side: `Gen/Deep.lean` (mutually inductive syntax `DE`/`DChain`/`DConds`/`DOpt`, typing, `toQuery`, `compDE`,
`compileD`), `Gen/DeepSem.lean` (the query side element-at-a-time), `Gen/DeepShape.lean` (shape of the fragments),
`Gen/DeepLoopCorrect.lean` (combinators over abstract fragments), `Gen/DeepExprCorrect.lean` (the mutual
structural induction), `Gen/DeepColCorrect.lean` (one event-level column end to end), `Gen/DeepRowsCorrect.lean` /
`Gen/DeepElemRowsCorrect.lean` (package level: event-level / element-level rows), `Gen/DeepJobCorrect.lean` (jobs), `C01/TheoremsDeep.lean` (property theorems), `Gen/DeepDriver.lean` (JSON-lines driver of the
text tie). Python side: `tools/gentie_deep.py`.
"""
from __future__ import annotations

import sys
from pathlib import Path
from typing import List

sys.path.insert(0, str(Path(__file__).resolve().parent.parent))

_T = "FaxVerif.C01."
THEOREMS_DEEP: List[str] = [
    _T + "deep_expr_correct_partial",
    _T + "deep_loop_is_fold",
    _T + "deep_accumulators_restart",
    _T + "deepColumn_correct_partial",
    _T + "deepRows_correct_partial",
    _T + "deepElemRows_correct_partial",
    _T + "deep_job_correct_partial",
    _T + "deep_job_split_partial",
    _T + "deep_job_prefix_independent_partial",
    _T + "deep_job_perm_partial",
    _T + "deep_depth_unbounded",
]
LEAN_MODULES_DEEP: List[str] = ["FaxVerif.C01.TheoremsDeep"]
LEAN_SOURCES_DEEP: List[str] = [
    "FaxVerif/Gen/Deep.lean",
    "FaxVerif/Gen/DeepSem.lean",
    "FaxVerif/Gen/DeepShape.lean",
    "FaxVerif/Gen/DeepLoopCorrect.lean",
    "FaxVerif/Gen/DeepExprCorrect.lean",
    "FaxVerif/Gen/DeepColCorrect.lean",
    "FaxVerif/Gen/DeepRowsCorrect.lean",
    "FaxVerif/Gen/DeepElemRowsCorrect.lean",
    "FaxVerif/Gen/DeepJobCorrect.lean",
    "FaxVerif/Gen/DeepDriver.lean",
    "FaxVerif/C01/TheoremsDeep.lean",
]
DRIVER_DEEP = "FaxVerif/Gen/DeepDriver.lean"
SETUP_MODULES_DEEP: List[str] = ["FaxVerif.Gen.Deep"]

N_QUICK, N_THOROUGH = 72, 480


def stream(ctx, n=None):
    """text tie of Gen.compileD (nesting depth 1..4, conditions / Selects with loops of their own) with the real
    translator, three backends; plus the executed model against its own denotation on 2 events per query"""
    import gentie_deep

    if n is None:
        n = N_QUICK if getattr(ctx, "tier", "quick") == "quick" else N_THOROUGH
    agree, total, first = gentie_deep.run_stream(ctx, n)
    if first is None:
        return
    case = {"backend": first.get("backend"), "source": first.get("source"), "dq": first.get("dq"), "first_difference": first.get("first_difference")}
    if first.get("kind") == "refused":
        ctx.violation(key=f"deep|{first.get('backend')}|{first.get('source')}", what=first.get("what"), case=case, observed=first.get("what"))
    elif first.get("kind") == "model-instance":
        ctx.disagreement("Gen.compileD executed vs denote (model instance)", case, first.get("exec") or first.get("job"), first.get("denote") or first.get("want"))
    else:
        ctx.disagreement("Gen.compileD vs translator (arbitrary-depth nesting, text modulo renaming)", case, first.get("model_body") or first.get("what"), first.get("impl_body") or first.get("what"))
