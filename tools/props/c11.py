"""C11 — injected C++ functions are applied hygienically at every call site.

Model: lean/FaxVerif/C11/Model.lean (hand model of cpp_ast.py as it is now: _replace_whole_words,
build_CPPCodeValue, cpp_ast_finder, process_ast_node).
Tie: T — the built-in injected functions (DeltaR, getAttribute*, isNonnull) are re-extracted from the source on
every run into lean/FaxVerif/Generated/C11Builtins.lean and the hypotheses of the theorems are re-proved for
them; K — model and real code on the same inputs, at unit level (_replace_whole_words, build_CPPCodeValue,
cpp_ast_finder) and through the whole pipeline (metadata add_cpp_function -> generated query.cxx / Analyzer.cc).
Oracle: the decidable Specs (SubstSpec, BuildAccepts, SitesOk/NoPendingFull, PipeSpec, RegistrationSpec) evaluated by the Lean
driver on what the implementation produced.
Extension round (lean/FaxVerif/C11/ExtModel.lean, ExtTheorems.lean; tools/c11_lib/gen2.py): specifications carry the optional key
`instance_object` independently of `method_object` (directed family optional keys x style x arity, at unit level and through the
pipeline); call sites whose receiver is an Aggregate-lambda parameter standing for j.m1().m2() with formals named like those
methods (`recv` cases: the receiver's text contains formal names — receiver and arguments must be ONE substitution); the table
registered by apply_ast_transformations observed entry by entry (`register` cases) and one query per subset of the declared functions.
Meaning of the built-ins' own code (tools/c11_lib/builtin_exec.py, both tiers): the code lines probed out of the source are
compiled with g++ against stand-in ROOT headers and mock objects; DeltaR is judged on an angle grid by the Lean clause
Angle.DeltaRGridSpec (lean/FaxVerif/C11/Angle.lean: exact integer wrap, proved canonical / equal to ROOT's Phi_mpi_pi
loops / symmetric in the argument order / periodic), generated queries over the built-ins by the meaning of the column.
"""
from __future__ import annotations

import ast
import json
import re
from typing import Any, Dict, List, Optional, Tuple

import vlib
from c11_lib import builtin_exec, gen, gen2, impl

ID = "C11"
OWN_LEANCHECKER = True  # this module runs leanchecker itself in the thorough tier
LEAN_MODULES = ["FaxVerif.C11.ExtTheorems", "FaxVerif.C11.Theorems"]  # ExtTheorems imports Theorems: one import for the axiom audit
LEAN_SOURCES = ["FaxVerif/C11", "FaxVerif/Generated/C11Builtins.lean"]
DRIVER = "FaxVerif/C11/Driver.lean"
_T = "FaxVerif.C11."
THEOREMS = [_T + n for n in [
    "tokenise_spec", "tokenise_is_unique", "subst_sim", "only_whole_words", "occurrence_replaced", "gap_untouched",
    "identity_no_param", "order_irrelevant", "first_binding_wins", "no_capture", "seq_capture_counterexample",
    "nonword_name_counterexample", "arity", "call_style", "build_accepts_iff", "nonnull_style_counterexample",
    "finder_rejects_iff", "finder_rejects_full_partial", "call_sites_found_partial", "receiver_not_name_counterexample", "receiver_bound",
    "result_visible", "includes_added", "pipeline_sound_partial", "query_sound_partial",
    "unique_name_injective_partial", "fresh_counterexample", "builtins_satisfy_hypotheses", "builtins_signatures", "nonnull_is_modelled",
    "wrap_is_canonical", "root_phi_mpi_pi_is_wrap", "deltaR_builtin_meaning", "deltaR_order_irrelevant", "deltaR_periodic",
    "deltaR_azimuth_bounded", "fmod_wrap_characterised", "fmod_wrap_counterexample",
    # extension round (ExtTheorems.lean): validation with any subset of the optional keys, receiver + arguments as one
    # substitution, registration of the declared functions under their names
    "spec_call_accepted_iff", "instance_object_irrelevant", "no_placeholder_left", "unbound_receiver_counterexample",
    "subst_receiver_simultaneous", "two_pass_receiver_counterexample", "registered_get", "registered_agrees_with_mkTable",
    "callback_is_own_spec", "finder_registered", "call_site_uses_own_spec", "late_binding_counterexample",
]]
RULE = (
    "streams. optional keys (directed, every run): for each back end and each subset of the optional keys of a specification "
    "(none / instance_object / method_object / both) x call style (method / function) x arity (declared / surplus / missing) one "
    "build case and one query through the pipeline, the template mentioning the method-object word. register: 1-6 declared functions "
    "(a name declared twice, a built-in's name re-declared), the method_names table apply_ast_transformations hands to cpp_ast_finder "
    "observed at the point of use and every entry of interest (declared names, built-ins, an undeclared name) recovered by probing its "
    "callback; query-subsets: three declared functions (two with the same formals), one query per non-empty subset calling exactly "
    "that subset. query-recv: call sites whose receiver is the parameter of an Aggregate lambda standing for j.m1().m2() (chains of "
    "1-2 methods declared by add_method_type_info), the methods named like formals / the method-object word of the called "
    "specifications (measured: the receiver's C++ text contains a placeholder of the called method in more than half of the cases), "
    "call trees nested to depth 2, the three back ends. subst: template lines built from parameter names, longer words containing them, member accesses, "
    "string literals and operators, with replacement lists of 1-5 bindings (receiver first, argument texts that mention "
    "other parameters, backslashes, empty text, duplicate names), exhaustive for all lines of <=5 (quick) / <=6 (thorough) "
    "characters over {a,b,+,space} x 6 binding lists, random beyond; 12% of the random lines carry non-ASCII characters on "
    "which Python's \\w and the identifier class agree. build: random specifications x call style x arity. find: random "
    "expression trees (depth<=4) over 1-4 table names with nested/repeated call sites. query: add_cpp_function metadata "
    "(1-4 generated specifications, functions and methods, value and collection results over double/float/int/bool and over "
    "object types by value, pointer and const pointer — Trk, Trk*, const Trk*, xAOD::TrackParticle*, const xAOD::TrackParticle* — "
    "consumed by Count(), by summing the elements' pt() or by .pt() so that the declared variable type and the ./-> access are "
    "observed) plus the built-ins, a tuple of "
    "1-4 columns each a tree of injected calls nested to depth 3, run through apply_ast_transformations + write_cpp_files "
    "on the ATLAS (80%) and both CMS back ends. builtin-exec (one g++ compile per run, both tiers): the code lines of every built-in "
    "as probed out of the source, wrapped as the translator injects them and compiled with their own include files against stand-in "
    "ROOT headers — DeltaR on the grid eta = e/8, phi = k*pi/16 for ALL 65x65 pairs (k1, k2) of azimuths in [-2pi, 2pi] (every pair in "
    "both argument orders, on either side of the seam phi = +-pi, both range conventions), random pseudorapidities, judged by the Lean "
    "clause DeltaRGridSpec; getAttributeFloat / getAttributeVectorFloat / isNonnull on generated mock objects — plus generated queries over "
    "the built-ins (DeltaR with argument trees over j.pt()/eta()/phi()/m(), constants, negations, sums and differences, nested DeltaR to "
    "depth 2, getAttributeFloat as an argument; getAttributeVectorFloat consumed by Count()/Sum(); isNonnull(j.globalTrack()) on CMS) "
    "translated by the real pipeline, the loop body compiled against 6-10 mock objects per query whose values are drawn around the seam "
    "(grid angles, pi - 10^-n, +-3.0/3.1/3.14, uniform in [-2pi, 2pi]) and compared with the meaning of the column. "
    "Non-trivial: subst - a parameter occurs in the line (as a word or inside "
    "one); build/find/query - at least one call site of an injected function; builtin-exec - every case. Distinct = distinct input."
)
TRUSTED_BASE = [
    "hand model of cpp_ast.py (Model.lean) and of the registration in executor.apply_ast_transformations (ExtModel.lean: dict copy, comprehension, update) tied to the code by the correspondence streams of this run; the built-in specifications by re-extraction (Generated/C11Builtins.lean)",
    "observation of the registered table: cpp_ast.cpp_ast_finder is wrapped (in the harness process only) while apply_ast_transformations runs and each callback is classified by its behaviour on probe calls of 0..6 arguments in both styles (tools/c11_lib/impl.py: registered_table / probe_handler); if the class is no longer reached through the module attribute the stream reports 'unobservable' and judges nothing",
    "the harness tools/props/c11.py + tools/c11_lib (generators; parser of the loop body of the generated C++ into declarations / plain blocks / column assignments; renaming of declared names by first occurrence; measurement of the C++ text of injection-free argument expressions by translating them alone)",
    "Python's classification of the non-ASCII characters of a case (re \\w, str.isidentifier) is passed to the model as data; on ASCII both are [A-Za-z0-9_]",
    "C++ semantics of the injected block (scoping of a braced block, visibility of the enclosing declaration) is not modelled; thorough tier compiles executable specifications with g++ and compares values",
    "meaning of the built-ins' code: g++ 12 and libm; the stand-in headers TVector2.h / TMath.h of tools/c11_lib/builtin_exec.py (Phi_mpi_pi written as in ROOT's TVector2.cxx; its output on the grid is checked against Lean's Angle.phiMpiPi = wrap on every run) and the mock objects (pt/eta/phi/m, getAttribute<T>, globalTrack().isNonnull()); Float arithmetic of the final formula in DeltaRGridSpec (the wrapped azimuth difference is an exact integer); the Python reference (math.hypot, math.remainder) for the generated queries",
]
ASSUMPTIONS = [
    "parameter names, the method-object word and function names are identifiers; code lines contain no newline and are not a lone brace",
    "the regex class \\w and the identifier class agree on the characters next to a parameter occurrence (true on ASCII; the listed finding shows a combining mark where they differ)",
    "argument expressions without injected calls are rendered by the translator independently of where they occur (their text is measured once per run)",
    "user-supplied C++ is side-effect free as far as the values compared in the thorough tier are concerned",
    "DeltaR(eta1, phi1, eta2, phi2) means sqrt((eta1-eta2)^2 + w^2) with w the azimuth difference phi1-phi2 taken on the circle (|w| <= pi), for azimuths in any range convention; values are compared with relative/absolute tolerance 1e-9 (the function is continuous, also across the seam)",
]
LEVEL_TEXT = (
    "Machine-checked proof (Lean 4), for every line, every replacement list whose names are words (of ANY word-character class), "
    "every argument text: the combined-regex re.sub algorithm equals the simultaneous whole-word token map (only whole words, every "
    "whole word, own argument, inserted text never rescanned, text outside words untouched, identity without parameters, independence "
    "of binding order, first binding wins); for every specification and call: accepted iff declared arity and style, receiver bound; "
    "for every expression tree: refused iff a recognised call site is refused, every call site found (receivers that are plain "
    "names); for every tree of injected calls, any nesting and repetition: blocks in evaluation order, each the substituted template "
    "plus final assignment to a variable declared in the enclosing block with the declared type, includes present, variables "
    "pairwise distinct (function names not ending in a digit). The model is tied to the code on every run by differential "
    "execution at unit level and through the full pipeline, and the decidable Specs are evaluated on the implementation's output. "
    "Meaning of the built-in DeltaR (exact, on angle grids of any resolution): ROOT's Phi_mpi_pi loops compute the canonical representative "
    "in [-h, h) for every angle, hence the built-in code computes the distance with the azimuth difference on the circle, which is "
    "independent of the argument order and of whole turns; the truncating-remainder formula is characterised (one turn off for every "
    "difference below -pi). That clause is tied to the code by compiling the code lines of the source on every run (g++), not proved of the C++ text."
)
LEVEL_NOTE = (
    "Trusted: Lean kernel (axioms audited); agreement model/code is checked by execution, not proved; the harness's parser of the "
    "generated C++. Partial: method-style calls on non-Name receivers, digit-ending function names, non-word parameter names, "
    "method-style isNonnull are excluded from the theorems by decidable hypotheses, each with a proved counterexample and a listed finding."
)
TECHNIQUE = "Lean 4 theorems over a hand model + regenerated built-in tables + correspondence check (differential execution, unit level and full pipeline) + decidable Spec evaluated on the implementation's output"
DESIGN_REF = "DESIGN.md §4 C11"

GEN_FILE = vlib.LEAN / "FaxVerif" / "Generated" / "C11Builtins.lean"

# ---------------------------------------------------------------------------------------------- translator (tie T)

_TABLES: Optional[Dict[str, List[List[Any]]]] = None


def tables() -> Dict[str, List[List[Any]]]:
    global _TABLES
    if _TABLES is None:
        with impl.quiet():
            _TABLES = impl.builtin_tables()
    return _TABLES


def _ls(s: str) -> str:
    return vlib.lean_str(s) + ".toList"


def _lopt(s: Optional[str]) -> str:
    return "none" if s is None else f"(some {_ls(s)})"


def _lean_spec(s: Dict[str, Any]) -> str:
    return ("{ name := %s, includes := %s, args := %s, code := %s, result := %s, retType := %s, isCollection := %s, methodObject := %s }" % (
        _ls(s["name"]), vlib.lean_list(_ls(x) for x in s["includes"]), vlib.lean_list(_ls(x) for x in s["args"]),
        vlib.lean_list(_ls(x) for x in s["code"]), _ls(s["result"]), _ls(s["retType"]),
        "true" if s["isCollection"] else "false", _lopt(s["methodObject"])))


def _lean_cv(c: Dict[str, Any]) -> str:
    inst = "none" if c["instance"] is None else f"(some ({_ls(c['instance'][0])}, {_ls(c['instance'][1])}))"
    return ("{ varPrefix := %s, includes := %s, args := %s, code := %s, result := %s, retType := %s, isCollection := %s, instance_ := %s }" % (
        _ls(c["varPrefix"]), vlib.lean_list(_ls(x) for x in c["includes"]), vlib.lean_list(_ls(x) for x in c["args"]),
        vlib.lean_list(_ls(x) for x in c["code"]), _ls(c["result"]), _ls(c["retType"]),
        "true" if c["isCollection"] else "false", inst))


def _lean_handler(h: Any) -> str:
    if h == "refuse":
        return "Handler.refuse"
    if isinstance(h, dict) and "spec" in h:
        return f"Handler.spec {_lean_spec(h['spec'])}"
    if isinstance(h, dict) and "arityonly" in h:
        return "Handler.nonnull"
    return "unrecognised " + vlib.lean_str(json.dumps(h))


def translate(ctx):
    t = tables()
    out = ["/- GENERATED by tools/props/c11.py from the source of /repo on every run: the built-in injected functions",
           "   (behaviour of each table entry probed with function-style / method-style calls of 0..6 arguments). -/",
           "import FaxVerif.C11.Model", "namespace FaxVerif.C11.Gen", "open FaxVerif.C11", ""]
    nn = []
    for be in ("atlas", "cms_aod", "cms_miniaod"):
        rows = ", ".join(f"({_ls(k)}, {_lean_handler(h)})" for k, h in t[be])
        out.append(f"def {be}Builtins : Table := [{rows}]")
        for k, h in t[be]:
            if isinstance(h, dict) and "arityonly" in h:
                nn.append(_lean_cv(h["arityonly"]))
    out.append("/-- what the arity-only handlers (`isNonnull`) inject, per back end -/")
    out.append("def arityOnlyValues : List CodeValue := " + vlib.lean_list(nn))
    out += ["", "end FaxVerif.C11.Gen", ""]
    vlib.write_if_changed(GEN_FILE, "\n".join(out))


# ---------------------------------------------------------------------------------------------- conversions

# documented: value or collection (README: getAttributeFloat / getAttributeVectorFloat); the expectation the Spec is
# evaluated with uses the documented kind, everything else of a built-in comes from the source
DOCUMENTED_COLLECTION = {"DeltaR": False, "getAttributeFloat": False, "getAttributeVectorFloat": True}


def _documented(k: str, h: Any) -> Any:
    if isinstance(h, dict) and "spec" in h and k in DOCUMENTED_COLLECTION:
        return {"spec": {**h["spec"], "isCollection": DOCUMENTED_COLLECTION[k]}}
    return h


def driver_table(backend: str) -> List[List[Any]]:
    out = []
    for k, h in tables()[backend]:
        h = _documented(k, h)
        if isinstance(h, dict) and "arityonly" in h:
            out.append([k, "nonnull"])
        elif h == "refuse" or (isinstance(h, dict) and "spec" in h):
            out.append([k, h])
        # an unrecognised entry is left out here: the generated Lean file already fails to build
    return out


def gen_table(backend: str) -> List[List[Any]]:
    return [[k, ("nonnull" if isinstance(h, dict) and "arityonly" in h else _documented(k, h))] for k, h in tables()[backend]
            if h == "refuse" or (isinstance(h, dict) and ("spec" in h or "arityonly" in h))]


_LEAF_TEXT: Dict[Any, Dict[str, str]] = {}
J = "@J@"


def chain_of(case: Dict[str, Any]) -> Tuple[str, ...]:
    return tuple(case["recv"]["chain"]) if case.get("recv") else ()


def leaf_texts(backend: str, chain: Tuple[str, ...] = ()) -> Dict[str, str]:
    """C++ text the translator itself emits for each injection-free argument expression, measured by translating
    them alone as columns; the loop variable is replaced by a placeholder.  With a receiver chain the expressions are
    measured where the call sites will stand: as terms of the Aggregate lambda whose parameter `j` stands for
    `j0.m1().m2()…` (so `j` itself is the receiver's text)."""
    if chain:
        return _chain_leaf_texts(backend, chain)
    if backend in _LEAF_TEXT:
        return _LEAF_TEXT[backend]
    leaves = [l for l in (gen.ATLAS_LEAVES if backend == "atlas" else gen.CMS_LEAVES) if l != "j"]
    srcs = [(l + ".pt()" if l == "j.globalTrack()" else l) for l in leaves]
    r = impl.translate_query(backend, [], "lambda j: (" + ", ".join(srcs) + ")")
    if "text" not in r:
        raise vlib.InternalError(f"cannot measure leaf texts on {backend}: {r}")
    b = impl.parse_body(r["text"], r["marker"])
    if len(b["cols"]) != len(leaves):
        raise vlib.InternalError(f"leaf measurement on {backend}: {len(b['cols'])} columns for {len(leaves)} leaves")
    out = {"j": J}
    for l, t in zip(leaves, b["cols"]):
        t = re.sub(r"\b%s\b" % re.escape(b["loop_var"]), J, t)
        if l == "j.globalTrack()":
            for suf in ("->pt()", ".pt()"):
                if t.endswith(suf):
                    t = t[: -len(suf)]
                    break
            else:
                raise vlib.InternalError("cannot isolate the text of j.globalTrack(): " + t)
        out[l] = t
    _LEAF_TEXT[backend] = out
    return out


def _chain_leaf_texts(backend: str, chain: Tuple[str, ...]) -> Dict[str, str]:
    key = (backend, chain)
    if key in _LEAF_TEXT:
        return _LEAF_TEXT[key]
    leaves = [l for l in gen2.RECV_LEAVES if l != "j"]
    r = impl.translate_query(backend, [], "lambda acc, j: acc + " + " + ".join(leaves), recv_chain=list(chain))
    if "text" not in r:
        raise vlib.InternalError(f"cannot measure leaf texts on {backend} behind the receiver chain {chain}: {r}")
    try:
        b = impl.parse_body(r["text"], r["marker"])
        terms = impl.agg_columns(b)
    except Exception as e:
        raise vlib.InternalError(f"leaf measurement on {backend} behind {chain}: {type(e).__name__}: {e}")
    if len(terms) != len(leaves):
        raise vlib.InternalError(f"leaf measurement on {backend} behind {chain}: {len(terms)} terms for {len(leaves)} leaves")
    out = {}
    for l, t in zip(leaves, terms):
        out[l] = re.sub(r"\b%s\b" % re.escape(b["loop_var"]), J, t)
    t = out["j.pt()"]
    for suf in ("->pt()", ".pt()"):
        if t.endswith(suf):
            out["j"] = t[: -len(suf)]
            break
    else:
        raise vlib.InternalError(f"cannot isolate the receiver's text behind {chain}: {t}")
    _LEAF_TEXT[key] = out
    return out


def py_to_expr(n: ast.AST) -> Dict[str, Any]:
    if isinstance(n, ast.Name):
        return {"name": n.id}
    if isinstance(n, ast.Constant):
        return {"const": repr(n.value)}
    if isinstance(n, ast.UnaryOp):
        return {"const": ast.unparse(n)}
    if isinstance(n, ast.Attribute):
        return {"attr": [py_to_expr(n.value), n.attr]}
    if isinstance(n, ast.BinOp):
        return {"binop": [{ast.Add: "+", ast.Mult: "*", ast.Sub: "-"}[type(n.op)], py_to_expr(n.left), py_to_expr(n.right)]}
    if isinstance(n, ast.Call):
        return {"call": [py_to_expr(n.func), [py_to_expr(a) for a in n.args]]}
    raise ValueError(ast.dump(n))


def tree_src(t: Dict[str, Any]) -> str:
    if "leaf" in t:
        return t["leaf"]
    if "str" in t:
        return '"' + t["str"] + '"'
    args = ", ".join(tree_src(a) for a in t["args"])
    return f"j.{t['f']}({args})" if t["style"] == "meth" else f"{t['f']}({args})"


def tree_expr(t: Dict[str, Any], texts: Dict[str, str], loop_var: str, names: set) -> Dict[str, Any]:
    if "str" in t:
        return {"opaque": '"' + t["str"] + '"'}
    if "leaf" in t:
        src = t["leaf"]
        if src == "j":
            return {"name": "j"}
        tree = ast.parse(src, mode="eval").body
        used = {n.attr for n in ast.walk(tree) if isinstance(n, ast.Attribute)} | {n.id for n in ast.walk(tree) if isinstance(n, ast.Name)}
        if used & names:
            return py_to_expr(tree)  # a method of the object has the name of an injected function: the finder must see it
        return {"opaque": texts[src].replace(J, loop_var)}
    args = [tree_expr(a, texts, loop_var, names) for a in t["args"]]
    f = {"attr": [{"name": "j"}, t["f"]]} if t["style"] == "meth" else {"name": t["f"]}
    return {"call": [f, args]}


def in_force(case: Dict[str, Any]) -> Dict[str, Any]:
    tab: Dict[str, Any] = {k: h for k, h in gen_table(case["backend"])}
    # extract_metadata yields the MetaData calls outermost first, the table is filled in that order with later
    # entries overriding: of two specifications with one name the one attached FIRST is in force
    for s in reversed(case["specs"]):
        tab[s["name"]] = {"spec": s}
    return tab


def is_object_type(ty: str) -> bool:
    return ty not in gen.TYPES


def query_case(rng, be, table):
    """gen.query_case, minus the cases in which the harness's own accessor `.pt()` (used to consume an object-valued
    result) would collide with an injected FUNCTION of the case that is called `pt` — that style mismatch would be
    the harness's, not the translator's."""
    for _ in range(50):
        c = gen.query_case(rng, be, table)
        names = {s["name"] for s in c.get("specs", [])}
        if not ("pt" in names and any(is_object_type(s["retType"]) for s in c.get("specs", []))):
            return c
    return c


def wrap_of(t: Dict[str, Any], tab: Dict[str, Any]) -> Optional[str]:
    """How the column is consumed so that it can be written to the tree: a collection is counted (or, for a
    collection of objects, the pt() of its elements summed), an object-valued result has its pt() taken."""
    h = tab.get(t.get("f"))
    if not (isinstance(h, dict) and "spec" in h):
        return None
    sp = h["spec"]
    if sp["isCollection"]:
        return "sum" if (is_object_type(sp["retType"]) and t.get("wrap") == "sum") else "count"
    return "pt" if is_object_type(sp["retType"]) else None


WRAP_SRC = {None: "", "count": ".Count()", "sum": ".Select(lambda t: t.pt()).Sum()", "pt": ".pt()"}


def count_sites(t: Dict[str, Any]) -> int:
    return 0 if "f" not in t else 1 + sum(count_sites(a) for a in t["args"])


def select_src(case: Dict[str, Any]) -> str:
    tab = in_force(case)
    cols = [tree_src(c) + WRAP_SRC[wrap_of(c, tab)] for c in case["cols"]]
    if case.get("recv"):  # the call sites are the terms the Aggregate lambda adds up; its parameter j is the receiver
        return "lambda acc, j: acc + " + " + ".join(cols)
    return "lambda j: " + (cols[0] if len(cols) == 1 else "(" + ", ".join(cols) + ")")


def observe_query(case: Dict[str, Any]) -> Tuple[Dict[str, Any], str]:
    """Run the real pipeline; returns (observation in driver JSON, loop variable)."""
    if case.get("reset_counter") is not None:  # a listed finding that needs a particular value of the global name counter
        import func_adl_xAOD.common.cpp_vars as cpp_vars

        cpp_vars.unique_var_index = int(case["reset_counter"])
    r = impl.translate_query(case["backend"], case["specs"], select_src(case), case.get("second_select"), case.get("first_stage"),
                             recv_chain=list(chain_of(case)) or None)
    if "text" not in r:
        return {"err": r["err"], "msg": r.get("msg", "")}, "i_obj0"
    try:
        b = impl.parse_body(r["text"], r["marker"])
        if case.get("recv"):
            b["cols"] = impl.agg_columns(b)
    except Exception as e:  # the generated text has a shape the parser does not know: report, do not guess
        return {"unparsed": f"{type(e).__name__}: {e}"}, "i_obj0"
    tab = in_force(case)
    cols, k, access = list(b["cols"]), 0, []
    for i, c in enumerate(case["cols"]):
        w = wrap_of(c, tab)
        if w is None or i >= len(cols):
            continue
        ty = tab[c["f"]]["spec"]["retType"]
        if w in ("count", "sum"):
            if k < len(b["loops"]):
                lp = b["loops"][k]
                cols[i] = lp["coll"]  # the collection the loop iterates: the result variable must be it
                if w == "sum":
                    m = re.search(r"\b%s(->|\.)pt\(\)" % re.escape(lp["var"]), " ".join(lp["body"]))
                    access.append({"ty": ty, "op": m.group(1) if m else "?", "where": f"element of the collection returned by {c['f']}"})
            k += 1
        else:
            m = re.fullmatch(r"(\w+)(->|\.)pt\(\)", cols[i])
            if m:
                cols[i] = m.group(1)
            access.append({"ty": ty, "op": m.group(2) if m else "?", "where": f"result of {c['f']}"})
    obs = {"decls": [d[:2] for d in b["decls"] if len(d) == 2], "blocks": b["blocks"], "cols": cols,
           "includes": b["includes"], "bad": b["bad"], "access": access}
    return obs, b["loop_var"]


def query_request(case: Dict[str, Any], obs: Optional[Dict[str, Any]], loop_var: str) -> Dict[str, Any]:
    tab = in_force(case)
    texts = leaf_texts(case["backend"], chain_of(case))
    cols = [tree_expr(c, texts, loop_var, set(tab)) for c in case["cols"]]
    allt = [json.dumps(case, ensure_ascii=False)]
    re_w, id_w = impl.word_classes(allt)
    req = {"op": "query", "reW": re_w, "idW": id_w, "builtins": driver_table(case["backend"]), "specs": list(reversed(case["specs"])),
           "env": [["j", texts["j"].replace(J, loop_var)]], "cols": cols, "start": 2}
    if obs is not None and "unparsed" not in obs:
        req["obs"] = {k: v for k, v in obs.items() if k not in ("bad", "msg", "access")}
    return req


def canon_body(b: Dict[str, Any], loop_var: str) -> Dict[str, Any]:
    """rename the declared names (whole tokens, in declaration order) and the loop variable"""
    names = [loop_var] + [d[1] for d in b["decls"]]
    ren = {n: f"v{i}" for i, n in reversed(list(enumerate(names)))}
    if not ren:
        return b
    pat = re.compile("|".join(r"\b%s\b" % re.escape(n) for n in sorted(ren, key=len, reverse=True)))

    def rn(s: str) -> str:
        return pat.sub(lambda m: ren[m.group(0)], s)

    return {"decls": [[d[0], rn(d[1])] for d in b["decls"]],
            "blocks": [{"lines": [rn(l) for l in k["lines"]], "lhs": rn(k["lhs"]), "rhs": rn(k["rhs"])} for k in b["blocks"]],
            "cols": [rn(c) for c in b["cols"]]}


# ---------------------------------------------------------------------------------------------- one case -> verdicts

HOW = {
    "subst": "from func_adl_xAOD.common.cpp_ast import _replace_whole_words; _replace_whole_words(case['line'], case['repl'])",
    "build": "build_CPPCodeValue(CPPCodeSpecification(**case['spec']), ast.Call(func=case['func'], args=case['args']))  (tools/c11_lib/impl.py: build)",
    "find": "cpp_ast_finder(table).visit(expr)  (tools/c11_lib/impl.py: find)",
    "register": "dataset.MetaData(add_cpp_function ...)* -> executor.apply_ast_transformations; the method_names table it hands to cpp_ast_finder, each entry probed with function-/method-style calls of 0..6 arguments  (tools/c11_lib/impl.py: registered_table)",
    "query": "dataset.MetaData(add_cpp_function ...)*.SelectMany(e -> collection).Select(<select>) through apply_ast_transformations + write_cpp_files  (tools/c11_lib/impl.py: translate_query; ./check C11 --replay <this file>)",
}


def key_of(case: Dict[str, Any]) -> str:
    return case["kind"] + ":" + json.dumps({k: v for k, v in case.items() if k != "kind"}, sort_keys=True, ensure_ascii=False)


def run_impl(case: Dict[str, Any]) -> Dict[str, Any]:
    k = case["kind"]
    if k == "subst":
        return impl.replace_whole_words(case["line"], case["repl"])
    if k == "build":
        return impl.build(case["spec"], case["func"], case["args"])
    if k == "find":
        return impl.find(case["table"], case["expr"])
    if k == "query":
        obs, lv = observe_query(case)
        return {"obs": obs, "loop_var": lv}
    if k == "register":
        return impl.registered_table(case["backend"], case["specs"], case["names"])
    raise ValueError(k)


def requests_for(case: Dict[str, Any], r: Dict[str, Any]) -> List[Dict[str, Any]]:
    k = case["kind"]
    if k == "subst":
        re_w, id_w = impl.word_classes([case["line"]] + [x for p in case["repl"] for x in p])
        q = {"op": "subst", "reW": re_w, "idW": id_w, "repl": case["repl"], "line": case["line"]}
        if "ok" in r:
            q["out"] = r["ok"]
        return [q]
    if k == "build":
        q = {"op": "build", "spec": case["spec"], "func": case["func"], "args": case["args"]}
        q["obs"] = {"ok": r["ok"]} if "ok" in r else {"err": r["err"]}
        return [q]
    if k == "find":
        qs = [{"op": "find", "table": case["table"], "expr": case["expr"]}]
        if "ok" in r:
            qs.append({"op": "find", "table": case["table"], "expr": r["ok"]})  # NoPendingFull of what the code returned
        return qs
    if k == "register":
        obs = [[n, _driver_handler(h)] for n, h in r.get("ok", [])]
        # `cpp_functions` lists the metadata outermost first: the specification attached LAST comes first
        return [{"op": "register", "builtins": driver_table(case["backend"]), "specs": list(reversed(case["specs"])), "obs": obs}]
    if k == "query":
        return [query_request(case, r["obs"], r["loop_var"])] + [
            {"op": "access", "ty": a["ty"], "opr": a["op"]} for a in r["obs"].get("access", [])]
    raise ValueError(k)


def _driver_handler(h: Any) -> Any:
    """a probed table entry in the driver's vocabulary (an entry the probe cannot classify is passed as a specification
    nobody declared, so that it can only equal the model's entry if the model's is unrecognisable too)"""
    if h is None or h == "refuse":
        return h
    if isinstance(h, dict) and "arityonly" in h:
        return "nonnull"
    if isinstance(h, dict) and "spec" in h:
        return h
    return {"spec": {"name": "<unrecognised>", "includes": [], "args": [], "code": [json.dumps(h)], "result": "", "retType": "",
                     "isCollection": False, "methodObject": None}}


def judge(case: Dict[str, Any], r: Dict[str, Any], ans: List[Dict[str, Any]]) -> Tuple[Optional[str], Optional[Tuple[Any, Any]]]:
    """-> (why the Spec fails on the implementation's output | None, (model, impl) if they disagree | None)"""
    if any("bad" in a for a in ans):
        return None, None
    k = case["kind"]
    a = ans[0]
    if k == "subst":
        if "err" in r:
            return f"_replace_whole_words raised {r['err']}", (a["model"], r)
        why = None if a["holds"] else f"the line is not the simultaneous whole-word substitution: expected {a['sim']!r}, got {r['ok']!r}"
        return why, (None if a["model"] == r["ok"] else (a["model"], r["ok"]))
    if k == "build":
        why = None
        if not a["holds"]:
            why = ("accepted although arity/call style do not match the specification" if ("ok" in r and not a["accepts"]) else
                   f"refused ({r.get('err')}) although arity and call style match" if ("err" in r and a["accepts"]) else
                   f"wrong exception class {r.get('err')}" if "err" in r else
                   "the accepted call does not carry the specification (arguments, code, result, includes, type of the result variable, receiver binding)")
        if why is not None and "ok" in r and "ok" in a and r["ok"].get("declType") != a.get("declType"):
            why = (f"the result variable is declared with type '{r['ok'].get('declType')}', the declared return type "
                   f"('{case['spec']['retType']}', collection={case['spec']['isCollection']}) requires '{a.get('declType')}'")
        if "ok" in a:
            m = dict(a["ok"], declType=a.get("declType"))
            i = {x: r["ok"].get(x) for x in m} if "ok" in r else r
            dis = None if m == i else (m, i)
        else:
            dis = None if r.get("err") == a.get("cls") else (a, r)
        return why, dis
    if k == "find":
        why = None
        if "ok" in r and not a["sitesOk"]:
            why = "translated although a recognised call site has the wrong arity or call style"
        elif "err" in r and a["sitesOk"]:
            why = f"raised {r['err']} although every recognised call site is acceptable"
        elif "ok" in r and a["receiverPlain"] and not ans[1].get("inputNoPendingFull", True):
            why = "a call of an injected function is left in the expression"
        if "ok" in a:
            dis = None if r.get("ok") is not None and strip_decl(a["ok"]) == strip_decl(r["ok"]) else (a.get("ok"), r)
        else:
            dis = None if r.get("err") == a.get("cls") else (a, r)
        return why, dis
    if k == "register":
        if "unobservable" in r:
            return None, None
        if "err" in r:
            return f"declaring the functions raised {r['err']}: {r.get('msg', '')}", None
        if a["holds"]:
            return None, None
        model, seen = dict((n, h) for n, h in a["model"]), dict((n, h) for n, h in r["ok"])
        n = a["wrong"][0]
        return (f"the callback registered under '{n}' is not built from the specification declared (last) under that name: "
                f"probing it shows {json.dumps(seen.get(n), ensure_ascii=False)[:400]}, declared is "
                f"{json.dumps(model.get(n), ensure_ascii=False)[:400]}"), None
    if k == "query":
        obs = r["obs"]
        if "unparsed" in obs:
            return "the generated loop body could not be read: " + obs["unparsed"], None
        if obs.get("bad"):
            return obs["bad"][0], None
        why = None if a["holds"] else a["why"]
        for acc, aa in zip(obs.get("access", []), ans[1:]):
            if why is None and not aa["holds"]:
                why = f"{acc['where']} (declared type '{acc['ty']}') is accessed with '{acc['op']}', the declared type requires '{aa['want']}'"
        if "ok" in a:
            if "err" in obs:
                dis = (a["ok"], obs)
            else:
                m, i = canon_body(a["ok"], r["loop_var"]), canon_body(obs, r["loop_var"])
                dis = None if m == i and set(a["ok"]["includes"]) <= set(obs["includes"]) else (m, i)
        else:
            dis = None if obs.get("err") == a.get("cls") else (a.get("cls"), obs)
        return why, dis
    raise ValueError(k)


def strip_decl(e: Any) -> Any:
    if isinstance(e, dict):
        return {k: strip_decl(v) for k, v in e.items() if k != "declType"}
    if isinstance(e, list):
        return [strip_decl(x) for x in e]
    return e


def nontrivial(case: Dict[str, Any]) -> bool:
    k = case["kind"]
    if k == "subst":
        return any(p[0] and p[0] in case["line"] for p in case["repl"])
    if k == "build":
        return True
    if k == "find":
        return any(json.dumps(case["expr"]).count('"%s"' % n) for n, _ in case["table"])
    if k == "register":
        return len(case["specs"]) >= 1
    return sum(count_sites(c) for c in case["cols"]) >= 1


def excluded(case: Dict[str, Any], a: Dict[str, Any]) -> Optional[str]:
    """a generated case that fell into a defect exclusion (never fed to the main stream)"""
    if case["kind"] == "query" and not (a.get("wf", True) and a.get("prefixOk", True) and a.get("receiverPlain", True)):
        return "outside-hypotheses"
    return None


def evaluate(ctx, cases: List[Tuple[str, Dict[str, Any]]], report: bool = True) -> List[Tuple[Dict[str, Any], Dict[str, Any], Optional[str]]]:
    """Run cases on the real code, the model and the Spec; record evidence; returns the failing ones."""
    res = [run_impl(c) for _, c in cases]
    ctx.check_time()
    reqs, spans = [], []
    for (_, c), r in zip(cases, res):
        q = requests_for(c, r)
        spans.append((len(reqs), len(q)))
        reqs.extend(q)
    ans = ctx.driver(DRIVER, reqs)
    failing = []
    for (stream, c), r, (o, n) in zip(cases, res, spans):
        a = ans[o:o + n]
        why, dis = judge(c, r, a)
        if report:
            ctx.count(f"stream:{stream}")
            note_distribution(ctx, c, r, a[0] if a else {})
            ctx.case(key_of(c), nontrivial(c), {"case": c, "implementation": brief(r)})
        if why is not None:
            failing.append((c, r, why))
            if report:
                if not ctx.violations and key_of(c) not in ctx._known:  # the first concrete failing input is minimised
                    small = shrink(ctx, c)
                    if small is not c:
                        again = evaluate(ctx, [("shrunk", small)], report=False)
                        if again:
                            c, r, why = again[0]
                ctx.violation(key=key_of(c), what=why, case=c, observed=brief(r), how=HOW[c["kind"]])
        if dis is not None and report:
            ctx.disagreement(c["kind"], c, dis[0], dis[1])
    return failing


def brief(r: Dict[str, Any]) -> Any:
    s = json.dumps(r, ensure_ascii=False, default=str)
    return r if len(s) < 4000 else s[:4000] + "…"


def note_distribution(ctx, c, r, a):
    k = c["kind"]
    if k == "subst":
        ctx.count("subst:bindings:%d" % min(len(c["repl"]), 5))
        ctx.count("subst:" + ("changed" if r.get("ok") != c["line"] else "unchanged"))
        if any(ord(ch) >= 128 for ch in c["line"] + "".join(x for p in c["repl"] for x in p)):
            ctx.count("subst:non-ascii")
    elif k == "build":
        ctx.count("build:" + ("accepted" if "ok" in r else r["err"]))
    elif k == "find":
        ctx.count("find:" + ("ok" if "ok" in r else r["err"]))
    elif k == "register":
        ctx.count("register:" + ("observed" if "ok" in r else "unobservable" if "unobservable" in r else r["err"]))
        ctx.count("register:declared:%d" % len(c["specs"]))
        if len({s["name"] for s in c["specs"]}) < len(c["specs"]):
            ctx.count("register:a-name-declared-twice")
    else:
        obs = r["obs"]
        ctx.count(f"query:{c['backend']}")
        if c.get("recv"):
            ctx.count("query:receiver-chain:%d" % len(c["recv"]["chain"]))
            words = set(re.findall(r"\w+", leaf_texts(c["backend"], chain_of(c))["j"]))
            tab_ = in_force(c)
            hit = any(words & (set(h["spec"]["args"]) | {h["spec"]["methodObject"]}) for h in tab_.values()
                      if isinstance(h, dict) and "spec" in h and any(t.get("f") == h["spec"]["name"] and t.get("style") == "meth"
                                                                      for col in c["cols"] for t in subtrees(col)))
            ctx.count("query:receiver-text-contains-a-placeholder-of-the-called-method:" + ("yes" if hit else "no"))
        ctx.count("query:" + ("translated" if "err" not in obs else obs["err"]))
        ctx.count("query:sites:%d" % min(sum(count_sites(x) for x in c["cols"]), 8))
        depth = max((_depth(x) for x in c["cols"]), default=0)
        ctx.count("query:nesting:%d" % depth)
        tab = in_force(c)
        for col in c["cols"]:
            for t in subtrees(col):
                h = tab.get(t.get("f"))
                if isinstance(h, dict) and "spec" in h:
                    sp = h["spec"]
                    kind = ("collection of " if sp["isCollection"] else "") + (
                        "value" if not is_object_type(sp["retType"]) else "const pointer" if sp["retType"].startswith("const ") else
                        "pointer" if sp["retType"].endswith("*") else "object")
                    ctx.count("query:result:" + kind)
        for acc in obs.get("access", []):
            ctx.count("query:access:" + acc["op"])
        if not (a.get("wf", True) and a.get("prefixOk", True)):
            ctx.count("query:outside-hypotheses")


def _depth(t) -> int:
    return 0 if "f" not in t else 1 + max((_depth(a) for a in t["args"]), default=0)


# ---------------------------------------------------------------------------------------------- streams

def findings_stream(ctx):
    entries = ctx.known_entries("known") + ctx.known_entries("fixed")
    cases, owner = [], []
    for e in entries:
        for c in (e["input"]["cases"] if "cases" in e["input"] else [e["input"]]):
            cases.append(("finding", c))
            owner.append(e)
    bad = evaluate(ctx, cases, report=False)
    failing = {id(c): (r, why) for c, r, why in bad}
    done = set()
    for (_, c), e in zip(cases, owner):
        ctx.count("findings:%s-replayed" % e["status"])
        if id(c) not in failing or e["key"] in done:
            continue
        done.add(e["key"])
        r, why = failing[id(c)]
        if e["status"] == "known":
            ctx.violation(key=e["key"], what=why, case=c, observed=brief(r), how=HOW[c["kind"]])
        else:
            ctx.violation(key="regressed:" + e["key"], what="the replayed input of a repaired defect fails the Spec again: " + why +
                          "   [the repaired defect was: " + e["what"] + "]", case=c, observed=brief(r), how=HOW[c["kind"]])


def generated_cases(ctx):
    from vlib import corpus_cases

    rng = ctx.rng
    quick = ctx.tier == "quick"
    for c in corpus_cases(ID):
        if c.get("kind") not in ("builtin", "bquery"):  # those go to builtin_exec.run
            yield "corpus", c
    # directed families (extension round): optional keys x style x arity; one query per subset of the declared functions
    yield from gen2.optkeys_cases(rng, ["atlas", "cms_aod", "cms_miniaod"])
    for be in (["atlas"] if quick else ["atlas", "cms_aod", "cms_miniaod"]):
        for c in gen2.subset_cases(rng, be):
            yield "query-subsets", c
    for c in gen.subst_exhaustive(5 if quick else 6):
        yield "subst-exhaustive", c
    for _ in range(6000 if quick else 60000):
        yield "subst", gen.subst_case(rng)
    for _ in range(1500 if quick else 15000):
        yield "build", gen.build_case(rng)
    for _ in range(1500 if quick else 15000):
        yield "find", gen.find_case(rng)
    for _ in range(500 if quick else 7000):
        be = rng.choice(["atlas"] * 8 + ["cms_aod", "cms_miniaod"])
        yield "query", query_case(rng, be, gen_table(be))
    for _ in range(150 if quick else 1000):  # the table apply_ast_transformations registers, entry by entry
        be = rng.choice(["atlas"] * 4 + ["cms_aod", "cms_miniaod"])
        yield "register", gen2.register_case(rng, be, [k for k, _ in driver_table(be)])
    for _ in range(130 if quick else 1000):  # receivers that are lambda parameters standing for j.m1().m2()…
        be = rng.choice(["atlas"] * 6 + ["cms_aod", "cms_miniaod"])
        yield "query-recv", gen2.recv_query_case(rng, be)


def run(ctx):
    usable = set()
    for be in impl.BACKENDS:
        try:
            leaf_texts(be)
            usable.add(be)
        except vlib.InternalError as e:
            # not even a query without injected calls translates: the pipeline streams cannot run; the unit
            # streams still judge the code and the search looks for a failing input
            ctx.broken.append({"kind": "pipeline-unusable", "backend": be, "detail": str(e)})
    if len(usable) == len(impl.BACKENDS):
        findings_stream(ctx)
    cases = [(s, c) for s, c in generated_cases(ctx) if c["kind"] != "query" or c["backend"] in usable]
    # generated cases that fall into a defect exclusion are decided first and dropped from the main stream
    step = 4000
    for i in range(0, len(cases), step):
        chunk = cases[i:i + step]
        qs = [(s, c) for s, c in chunk if c["kind"] == "query"]
        keep = set()
        if qs:
            pre = ctx.driver(DRIVER, [query_request(c, None, "i_obj0") for _, c in qs])
            for (s, c), a in zip(qs, pre):
                if "bad" in a or (a.get("wf", True) and a.get("prefixOk", True) and a.get("receiverPlain", True) and a.get("styleStrict", True)):
                    keep.add(id(c))
                else:
                    ctx.count("query:generated-inside-a-defect-exclusion(dropped)")
        evaluate(ctx, [(s, c) for s, c in chunk if c["kind"] != "query" or id(c) in keep])
        ctx.check_time()
    # what the supplied code of the built-ins computes (one g++ compile; tools/c11_lib/builtin_exec.py)
    extra = [c for c in vlib.corpus_cases(ID) if c.get("kind") in ("builtin", "bquery") and c["backend"] in usable]
    import time

    t_b = time.time()
    builtin_exec.run(ctx, tables(), 40 if ctx.tier == "quick" else 200, backends=sorted(usable), extra=extra)
    ctx.notes.append("builtin-exec stream: %.1f s of %.1f s" % (time.time() - t_b, time.time() - ctx.t0))
    ctx.check_time()
    if ctx.tier == "thorough":
        from c11_lib import exec_oracle

        exec_oracle.run(ctx)
        # independent re-check of the compiled proofs by the external kernel checker
        rc, out, err = vlib.sh(["lake", "env", "leanchecker"] + LEAN_MODULES, cwd=vlib.LEAN, timeout=1200)
        ctx.notes.append("leanchecker %s: rc=%d" % (" ".join(LEAN_MODULES), rc))
        if rc != 0:
            ctx.broken.append({"kind": "leanchecker", "output": (out + err)[-1500:]})
    ctx.extra_cov["exhaustive"] = False
    ctx.extra_cov["exhaustive_part"] = "all template lines of <=%d characters over {a,b,+,space} x 6 replacement lists" % (5 if ctx.tier == "quick" else 6)
    ctx.extra_cov["outside_hypotheses"] = (
        "excluded from the theorems and from the generators, exercised through the listed findings only: method-style call of an injected "
        "function on a receiver that is not a plain name; function names ending in a digit (freshness clause only); parameter names that are "
        "not words of the regex class; method-style call of the built-in isNonnull")


# ---------------------------------------------------------------------------------------------- search / shrink / replay

def shrink(ctx, case: Dict[str, Any]) -> Dict[str, Any]:
    def fails(c) -> bool:
        try:
            return bool(evaluate(ctx, [("shrink", c)], report=False))
        except Exception:
            return False

    changed = True
    while changed:
        changed = False
        for cand in shrink_candidates(case):
            if fails(cand):
                case, changed = cand, True
                break
    return case


def shrink_candidates(c: Dict[str, Any]):
    k = c["kind"]
    if k == "subst":
        for i in range(len(c["repl"])):
            if len(c["repl"]) > 1:
                yield {**c, "repl": c["repl"][:i] + c["repl"][i + 1:]}
        n = len(c["line"])
        for size in (n // 2, n // 4, 1):
            if size >= 1:
                for i in range(0, n, size):
                    yield {**c, "line": c["line"][:i] + c["line"][i + size:]}
    elif k == "register":
        for i in range(len(c["specs"])):
            if len(c["specs"]) > 1:
                yield {**c, "specs": c["specs"][:i] + c["specs"][i + 1:]}
        for i, s in enumerate(c["specs"]):
            if len(s["code"]) > 1:
                yield {**c, "specs": c["specs"][:i] + [{**s, "code": s["code"][-1:]}] + c["specs"][i + 1:]}
    elif k == "query":
        for i in range(len(c["cols"])):
            if len(c["cols"]) > 1:
                yield {**c, "cols": c["cols"][:i] + c["cols"][i + 1:]}
        for i, col in enumerate(c["cols"]):
            for sub in subtrees(col):
                if sub is not col and "f" in sub:
                    yield {**c, "cols": c["cols"][:i] + [sub] + c["cols"][i + 1:]}
        for i, s in enumerate(c["specs"]):
            if len(s["code"]) > 1:
                for j in range(len(s["code"]) - 1):
                    yield {**c, "specs": c["specs"][:i] + [{**s, "code": s["code"][:j] + s["code"][j + 1:]}] + c["specs"][i + 1:]}
            if s["includes"]:
                yield {**c, "specs": c["specs"][:i] + [{**s, "includes": []}] + c["specs"][i + 1:]}
        used = {t["f"] for col in c["cols"] for t in subtrees(col) if "f" in t}
        for i, s in enumerate(c["specs"]):
            if s["name"] not in used:
                yield {**c, "specs": c["specs"][:i] + c["specs"][i + 1:]}


def subtrees(t):
    yield t
    for a in t.get("args", []):
        yield from subtrees(a)


def search(ctx, broken):
    """larger sweep, the Spec evaluated on the implementation's output is the only judge"""
    rng = ctx.rng
    cases = [("search", c) for c in gen.subst_exhaustive(5)]
    cases += [("search", gen.subst_case(rng)) for _ in range(20000)]
    cases += [("search", gen.build_case(rng)) for _ in range(4000)]
    cases += [("search", gen.find_case(rng)) for _ in range(4000)]
    usable = [be for be in impl.BACKENDS if be in _LEAF_TEXT]
    if usable:
        cases += [("search", c) for _, c in gen2.optkeys_cases(rng, usable)]
        for _ in range(1500):
            be = rng.choice(usable)
            cases.append(("search", query_case(rng, be, gen_table(be))))
        for _ in range(500):
            cases.append(("search", gen2.recv_query_case(rng, rng.choice(usable))))
        for be in usable:
            cases += [("search", c) for c in gen2.subset_cases(rng, be)]
            cases += [("search", gen2.register_case(rng, be, [k for k, _ in driver_table(be)])) for _ in range(100)]
        for e in ctx.known_entries("fixed"):
            for c in (e["input"]["cases"] if "cases" in e["input"] else [e["input"]]):
                cases.insert(0, ("search", c))
    best = None
    for i in range(0, len(cases), 4000):
        bad = evaluate(ctx, cases[i:i + 4000], report=False)
        for c, r, why in bad:
            size = len(json.dumps(c))
            if best is None or size < best[0]:
                best = (size, c, r, why)
        if best is not None:
            break
    if best is None:
        return None
    c = shrink(ctx, best[1])
    bad = evaluate(ctx, [("search", c)], report=False)
    c, r, why = bad[0] if bad else (best[1], best[2], best[3])
    return {"key": key_of(c), "what": why, "case": c, "observed": brief(r), "replay_how": HOW[c["kind"]]}


def replay(ctx, rep) -> int:
    case = rep["case"]
    if case.get("kind") in ("builtin", "bquery"):
        return builtin_exec.replay(ctx, tables(), case)
    r = run_impl(case)
    a = ctx.driver(DRIVER, requests_for(case, r))
    why, dis = judge(case, r, a)
    if case["kind"] == "query":
        print("select:", select_src(case))
    print("implementation:", json.dumps(r, ensure_ascii=False, default=str)[:6000])
    print("driver:", json.dumps(a, ensure_ascii=False)[:6000])
    print("spec:", "HOLDS" if why is None else "FAILS: " + why)
    return 0 if why is None else 1
