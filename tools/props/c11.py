"""C11 — injected C++ functions are applied hygienically at every call site.

Model: lean/FaxVerif/C11/Model.lean (hand model of cpp_ast.py as it is now: _replace_whole_words,
build_CPPCodeValue, cpp_ast_finder, process_ast_node).
Tie: T — the built-in injected functions (DeltaR, getAttribute*, isNonnull) are re-extracted from the source on
every run into lean/FaxVerif/Generated/C11Builtins.lean and the hypotheses of the theorems are re-proved for
them; K — model and real code on the same inputs, at unit level (_replace_whole_words, build_CPPCodeValue,
cpp_ast_finder) and through the whole pipeline (metadata add_cpp_function -> generated query.cxx / Analyzer.cc).
Oracle: the decidable Specs (SubstSpec, BuildAccepts, SitesOk/NoPendingFull, PipeSpec) evaluated by the Lean
driver on what the implementation produced.
"""
from __future__ import annotations

import ast
import json
import re
from typing import Any, Dict, List, Optional, Tuple

import vlib
from c11_lib import gen, impl

ID = "C11"
LEAN_MODULES = ["FaxVerif.C11.Theorems"]
LEAN_SOURCES = ["FaxVerif/C11", "FaxVerif/Generated/C11Builtins.lean"]
DRIVER = "FaxVerif/C11/Driver.lean"
_T = "FaxVerif.C11."
THEOREMS = [_T + n for n in [
    "tokenise_spec", "tokenise_is_unique", "subst_sim", "only_whole_words", "occurrence_replaced", "gap_untouched",
    "identity_no_param", "order_irrelevant", "first_binding_wins", "no_capture", "seq_capture_counterexample",
    "nonword_name_counterexample", "arity", "call_style", "build_accepts_iff", "nonnull_style_counterexample",
    "finder_rejects_iff", "call_sites_found_partial", "receiver_not_name_counterexample", "receiver_bound",
    "result_visible", "includes_added", "pipeline_sound_partial", "query_sound_partial",
    "unique_name_injective_partial", "fresh_counterexample", "builtins_satisfy_hypotheses", "nonnull_is_modelled",
]]
RULE = (
    "four streams. subst: template lines built from parameter names, longer words containing them, member accesses, "
    "string literals and operators, with replacement lists of 1-5 bindings (receiver first, argument texts that mention "
    "other parameters, backslashes, empty text, duplicate names), exhaustive for all lines of <=5 (quick) / <=6 (thorough) "
    "characters over {a,b,+,space} x 6 binding lists, random beyond; 12% of the random lines carry non-ASCII characters on "
    "which Python's \\w and the identifier class agree. build: random specifications x call style x arity. find: random "
    "expression trees (depth<=4) over 1-4 table names with nested/repeated call sites. query: add_cpp_function metadata "
    "(1-4 generated specifications, functions and methods, value and collection results) plus the built-ins, a tuple of "
    "1-4 columns each a tree of injected calls nested to depth 3, run through apply_ast_transformations + write_cpp_files "
    "on the ATLAS (80%) and both CMS back ends. Non-trivial: subst - a parameter occurs in the line (as a word or inside "
    "one); build/find/query - at least one call site of an injected function. Distinct = distinct input."
)
TRUSTED_BASE = [
    "hand model of cpp_ast.py (Model.lean) tied to the code by the correspondence streams of this run; the built-in specifications by re-extraction (Generated/C11Builtins.lean)",
    "the harness tools/props/c11.py + tools/c11_lib (generators; parser of the loop body of the generated C++ into declarations / plain blocks / column assignments; renaming of declared names by first occurrence; measurement of the C++ text of injection-free argument expressions by translating them alone)",
    "Python's classification of the non-ASCII characters of a case (re \\w, str.isidentifier) is passed to the model as data; on ASCII both are [A-Za-z0-9_]",
    "C++ semantics of the injected block (scoping of a braced block, visibility of the enclosing declaration) is not modelled; thorough tier compiles executable specifications with g++ and compares values",
]
ASSUMPTIONS = [
    "parameter names, the method-object word and function names are identifiers; code lines contain no newline and are not a lone brace",
    "the regex class \\w and the identifier class agree on the characters next to a parameter occurrence (true on ASCII; the listed finding shows a combining mark where they differ)",
    "argument expressions without injected calls are rendered by the translator independently of where they occur (their text is measured once per run)",
    "user-supplied C++ is side-effect free as far as the values compared in the thorough tier are concerned",
]
LEVEL_TEXT = (
    "Machine-checked proof (Lean 4), for every line, every replacement list whose names are words (of ANY word-character class), "
    "every argument text: the combined-regex re.sub algorithm equals the simultaneous whole-word token map (only whole words, every "
    "whole word, own argument, inserted text never rescanned, text outside words untouched, identity without parameters, independence "
    "of binding order, first binding wins); for every specification and call: accepted iff declared arity and style, receiver bound; "
    "for every expression tree: refused iff a recognised call site is refused, every call site found (receivers that are plain "
    "names); for every tree of injected calls, any nesting and repetition: blocks in evaluation order, each the substituted template "
    "plus final assignment to a variable declared in the enclosing block with the declared type, includes present, variables "
    "pairwise distinct (function names not ending in a digit). The model is tied to the code on every run by differential "
    "execution at unit level and through the full pipeline, and the decidable Specs are evaluated on the implementation's output."
)
LEVEL_NOTE = (
    "Trusted: Lean kernel (axioms audited); agreement model/code is checked by execution, not proved; the harness's parser of the "
    "generated C++. Partial: method-style calls on non-Name receivers, digit-ending function names, non-word parameter names, "
    "method-style isNonnull are excluded from the theorems by decidable hypotheses, each with a proved counterexample and a listed finding."
)
TECHNIQUE = "Lean 4 theorems over a hand model + regenerated built-in tables + correspondence check (differential execution, unit level and full pipeline) + decidable Spec evaluated on the implementation's output"
DESIGN_REF = "DESIGN.md §4 C11"

GEN_FILE = vlib.LEAN / "FaxVerif" / "Generated" / "C11Builtins.lean"

# ---------------------------------------------------------------------------------------------- translator (tie T)

_TABLES: Optional[Dict[str, List[List[Any]]]] = None


def tables() -> Dict[str, List[List[Any]]]:
    global _TABLES
    if _TABLES is None:
        with impl.quiet():
            _TABLES = impl.builtin_tables()
    return _TABLES


def _ls(s: str) -> str:
    return vlib.lean_str(s) + ".toList"


def _lopt(s: Optional[str]) -> str:
    return "none" if s is None else f"(some {_ls(s)})"


def _lean_spec(s: Dict[str, Any]) -> str:
    return ("{ name := %s, includes := %s, args := %s, code := %s, result := %s, retType := %s, isCollection := %s, methodObject := %s }" % (
        _ls(s["name"]), vlib.lean_list(_ls(x) for x in s["includes"]), vlib.lean_list(_ls(x) for x in s["args"]),
        vlib.lean_list(_ls(x) for x in s["code"]), _ls(s["result"]), _ls(s["retType"]),
        "true" if s["isCollection"] else "false", _lopt(s["methodObject"])))


def _lean_cv(c: Dict[str, Any]) -> str:
    inst = "none" if c["instance"] is None else f"(some ({_ls(c['instance'][0])}, {_ls(c['instance'][1])}))"
    return ("{ varPrefix := %s, includes := %s, args := %s, code := %s, result := %s, retType := %s, isCollection := %s, instance_ := %s }" % (
        _ls(c["varPrefix"]), vlib.lean_list(_ls(x) for x in c["includes"]), vlib.lean_list(_ls(x) for x in c["args"]),
        vlib.lean_list(_ls(x) for x in c["code"]), _ls(c["result"]), _ls(c["retType"]),
        "true" if c["isCollection"] else "false", inst))


def _lean_handler(h: Any) -> str:
    if h == "refuse":
        return "Handler.refuse"
    if isinstance(h, dict) and "spec" in h:
        return f"Handler.spec {_lean_spec(h['spec'])}"
    if isinstance(h, dict) and "arityonly" in h:
        return "Handler.nonnull"
    return "unrecognised " + vlib.lean_str(json.dumps(h))


def translate(ctx):
    t = tables()
    out = ["/- GENERATED by tools/props/c11.py from the source of /repo on every run: the built-in injected functions",
           "   (behaviour of each table entry probed with function-style / method-style calls of 0..6 arguments). -/",
           "import FaxVerif.C11.Model", "namespace FaxVerif.C11.Gen", "open FaxVerif.C11", ""]
    nn = []
    for be in ("atlas", "cms_aod", "cms_miniaod"):
        rows = ", ".join(f"({_ls(k)}, {_lean_handler(h)})" for k, h in t[be])
        out.append(f"def {be}Builtins : Table := [{rows}]")
        for k, h in t[be]:
            if isinstance(h, dict) and "arityonly" in h:
                nn.append(_lean_cv(h["arityonly"]))
    out.append("/-- what the arity-only handlers (`isNonnull`) inject, per back end -/")
    out.append("def arityOnlyValues : List CodeValue := " + vlib.lean_list(nn))
    out += ["", "end FaxVerif.C11.Gen", ""]
    vlib.write_if_changed(GEN_FILE, "\n".join(out))


# ---------------------------------------------------------------------------------------------- conversions

def driver_table(backend: str) -> List[List[Any]]:
    out = []
    for k, h in tables()[backend]:
        if isinstance(h, dict) and "arityonly" in h:
            out.append([k, "nonnull"])
        elif h == "refuse" or (isinstance(h, dict) and "spec" in h):
            out.append([k, h])
        # an unrecognised entry is left out here: the generated Lean file already fails to build
    return out


def gen_table(backend: str) -> List[List[Any]]:
    return [[k, ("nonnull" if isinstance(h, dict) and "arityonly" in h else h)] for k, h in tables()[backend]
            if h == "refuse" or (isinstance(h, dict) and ("spec" in h or "arityonly" in h))]


_LEAF_TEXT: Dict[str, Dict[str, str]] = {}
J = "@J@"


def leaf_texts(backend: str) -> Dict[str, str]:
    """C++ text the translator itself emits for each injection-free argument expression, measured by translating
    them alone as columns; the loop variable is replaced by a placeholder."""
    if backend in _LEAF_TEXT:
        return _LEAF_TEXT[backend]
    leaves = [l for l in (gen.ATLAS_LEAVES if backend == "atlas" else gen.CMS_LEAVES) if l != "j"]
    srcs = [(l + ".pt()" if l == "j.globalTrack()" else l) for l in leaves]
    r = impl.translate_query(backend, [], "lambda j: (" + ", ".join(srcs) + ")")
    if "text" not in r:
        raise vlib.InternalError(f"cannot measure leaf texts on {backend}: {r}")
    b = impl.parse_body(r["text"], r["marker"])
    if len(b["cols"]) != len(leaves):
        raise vlib.InternalError(f"leaf measurement on {backend}: {len(b['cols'])} columns for {len(leaves)} leaves")
    out = {"j": J}
    for l, t in zip(leaves, b["cols"]):
        t = re.sub(r"\b%s\b" % re.escape(b["loop_var"]), J, t)
        if l == "j.globalTrack()":
            for suf in ("->pt()", ".pt()"):
                if t.endswith(suf):
                    t = t[: -len(suf)]
                    break
            else:
                raise vlib.InternalError("cannot isolate the text of j.globalTrack(): " + t)
        out[l] = t
    _LEAF_TEXT[backend] = out
    return out


def py_to_expr(n: ast.AST) -> Dict[str, Any]:
    if isinstance(n, ast.Name):
        return {"name": n.id}
    if isinstance(n, ast.Constant):
        return {"const": repr(n.value)}
    if isinstance(n, ast.UnaryOp):
        return {"const": ast.unparse(n)}
    if isinstance(n, ast.Attribute):
        return {"attr": [py_to_expr(n.value), n.attr]}
    if isinstance(n, ast.BinOp):
        return {"binop": [{ast.Add: "+", ast.Mult: "*", ast.Sub: "-"}[type(n.op)], py_to_expr(n.left), py_to_expr(n.right)]}
    if isinstance(n, ast.Call):
        return {"call": [py_to_expr(n.func), [py_to_expr(a) for a in n.args]]}
    raise ValueError(ast.dump(n))


def tree_src(t: Dict[str, Any]) -> str:
    if "leaf" in t:
        return t["leaf"]
    if "str" in t:
        return '"' + t["str"] + '"'
    args = ", ".join(tree_src(a) for a in t["args"])
    return f"j.{t['f']}({args})" if t["style"] == "meth" else f"{t['f']}({args})"


def tree_expr(t: Dict[str, Any], texts: Dict[str, str], loop_var: str, names: set) -> Dict[str, Any]:
    if "str" in t:
        return {"opaque": '"' + t["str"] + '"'}
    if "leaf" in t:
        src = t["leaf"]
        if src == "j":
            return {"name": "j"}
        tree = ast.parse(src, mode="eval").body
        used = {n.attr for n in ast.walk(tree) if isinstance(n, ast.Attribute)} | {n.id for n in ast.walk(tree) if isinstance(n, ast.Name)}
        if used & names:
            return py_to_expr(tree)  # a method of the object has the name of an injected function: the finder must see it
        return {"opaque": texts[src].replace(J, loop_var)}
    args = [tree_expr(a, texts, loop_var, names) for a in t["args"]]
    f = {"attr": [{"name": "j"}, t["f"]]} if t["style"] == "meth" else {"name": t["f"]}
    return {"call": [f, args]}


def in_force(case: Dict[str, Any]) -> Dict[str, Any]:
    tab: Dict[str, Any] = {k: h for k, h in gen_table(case["backend"])}
    for s in case["specs"]:
        tab[s["name"]] = {"spec": s}
    return tab


def is_collection_root(t: Dict[str, Any], tab: Dict[str, Any]) -> bool:
    h = tab.get(t.get("f"))
    return isinstance(h, dict) and "spec" in h and bool(h["spec"]["isCollection"])


def count_sites(t: Dict[str, Any]) -> int:
    return 0 if "f" not in t else 1 + sum(count_sites(a) for a in t["args"])


def select_src(case: Dict[str, Any]) -> str:
    tab = in_force(case)
    cols = [tree_src(c) + (".Count()" if is_collection_root(c, tab) else "") for c in case["cols"]]
    return "lambda j: " + (cols[0] if len(cols) == 1 else "(" + ", ".join(cols) + ")")


def observe_query(case: Dict[str, Any]) -> Tuple[Dict[str, Any], str]:
    """Run the real pipeline; returns (observation in driver JSON, loop variable)."""
    r = impl.translate_query(case["backend"], case["specs"], select_src(case), case.get("second_select"), case.get("first_stage"))
    if "text" not in r:
        return {"err": r["err"], "msg": r.get("msg", "")}, "i_obj0"
    try:
        b = impl.parse_body(r["text"], r["marker"])
    except Exception as e:  # the generated text has a shape the parser does not know: report, do not guess
        return {"unparsed": f"{type(e).__name__}: {e}"}, "i_obj0"
    tab = in_force(case)
    cols, k = list(b["cols"]), 0
    for i, c in enumerate(case["cols"]):
        if is_collection_root(c, tab) and i < len(cols):
            if k < len(b["loops"]):
                cols[i] = b["loops"][k]["coll"]  # the collection the Count() loop iterates: the result variable must be it
            k += 1
    obs = {"decls": [d[:2] for d in b["decls"] if len(d) == 2], "blocks": b["blocks"], "cols": cols,
           "includes": b["includes"], "bad": b["bad"]}
    return obs, b["loop_var"]


def query_request(case: Dict[str, Any], obs: Optional[Dict[str, Any]], loop_var: str) -> Dict[str, Any]:
    tab = in_force(case)
    texts = leaf_texts(case["backend"])
    cols = [tree_expr(c, texts, loop_var, set(tab)) for c in case["cols"]]
    allt = [json.dumps(case, ensure_ascii=False)]
    re_w, id_w = impl.word_classes(allt)
    req = {"op": "query", "reW": re_w, "idW": id_w, "builtins": driver_table(case["backend"]), "specs": case["specs"],
           "env": [["j", loop_var]], "cols": cols, "start": 2}
    if obs is not None and "unparsed" not in obs:
        req["obs"] = {k: v for k, v in obs.items() if k not in ("bad", "msg")}
    return req


def canon_body(b: Dict[str, Any], loop_var: str) -> Dict[str, Any]:
    """rename the declared names (whole tokens, in declaration order) and the loop variable"""
    names = [loop_var] + [d[1] for d in b["decls"]]
    ren = {n: f"v{i}" for i, n in reversed(list(enumerate(names)))}
    if not ren:
        return b
    pat = re.compile("|".join(r"\b%s\b" % re.escape(n) for n in sorted(ren, key=len, reverse=True)))

    def rn(s: str) -> str:
        return pat.sub(lambda m: ren[m.group(0)], s)

    return {"decls": [[d[0], rn(d[1])] for d in b["decls"]],
            "blocks": [{"lines": [rn(l) for l in k["lines"]], "lhs": rn(k["lhs"]), "rhs": rn(k["rhs"])} for k in b["blocks"]],
            "cols": [rn(c) for c in b["cols"]]}
