"""C15 — job-script blocks are emitted once each in dependency order.

Model: lean/FaxVerif/C15/Model.lean (hand model of generate_script_block).
Tie: K — the real function and the model on the same block lists (exhaustive small + random).
Spec oracle on the implementation's output: `SpecOk` evaluated by the Lean driver.
"""
from __future__ import annotations

import itertools
import signal
from typing import Any, Dict, List

ID = "C15"
LEAN_MODULES = ["FaxVerif.C15.All"]
LEAN_SOURCES = ["FaxVerif/C15", "FaxVerif/Generated/C15Template.lean"]
DRIVER = "FaxVerif/C15/Driver.lean"
THEOREMS = [
    "FaxVerif.C15.sound",
    "FaxVerif.C15.fuel_never",
    "FaxVerif.C15.error_justified",
    "FaxVerif.C15.complete",
    "FaxVerif.C15.merge",
    # determinism / stability of the emitted order (OrderTheorems.lean)
    "FaxVerif.C15.order_fifo",
    "FaxVerif.C15.order_unique",
    "FaxVerif.C15.canonical",
    "FaxVerif.C15.order_congr",
    "FaxVerif.C15.set_arrival_invariant",
    "FaxVerif.C15.dup_invariant",
    "FaxVerif.C15.deps_invariant",
    "FaxVerif.C15.deps_perm_invariant",
    "FaxVerif.C15.sorted_fixed",
    "FaxVerif.C15.idempotent",
    "FaxVerif.C15.refusal_kind_iff",
    "FaxVerif.C15.perm_refusal_invariant",
    "FaxVerif.C15.perm_ok",
    "FaxVerif.C15.arrival_order_matters_counterexample",
    "FaxVerif.C15.dup_before_first_counterexample",
    "FaxVerif.C15.not_kahn_counterexample",
    # exact refusal condition (RefusalTheorems.lean)
    "FaxVerif.C15.cyclic_iff_hasCycle",
    "FaxVerif.C15.refused_iff",
    "FaxVerif.C15.accepted_iff",
    "FaxVerif.C15.self_dep_refused",
    "FaxVerif.C15.hasCycle_iff_list",
    "FaxVerif.C15.cycle_refused",
    "FaxVerif.C15.cycle_kind",
    # executor-level path and rendering (ExecTheorems.lean)
    "FaxVerif.C15.template_shape",
    "FaxVerif.C15.template_separators",
    "FaxVerif.C15.render_exact",
    "FaxVerif.C15.exec_sound",
    "FaxVerif.C15.exec_refused_iff",
    "FaxVerif.C15.template_never",
    "FaxVerif.C15.exec_bad_metadata",
    "FaxVerif.C15.exec_conflict",
    "FaxVerif.C15.exec_union",
    "FaxVerif.C15.session_ok",
    "FaxVerif.C15.session_refused_keeps_blocks",
]
RULE = (
    "block lists over names {a,b,c,(d,e,f)} with dependency lists drawn from the names plus one never-sent name, "
    "scripts from a pool containing empty, one-line, two-line and shared lines; exhaustive for <=2 blocks (quick) / "
    "<=3 blocks over a reduced alphabet (thorough), random up to 12 blocks beyond. A case is non-trivial when it has "
    ">=2 blocks and at least one dependency edge or one repeated name; distinct = distinct block list. Metamorphic stream: "
    "random lists re-sent in the emitted order, with a copy inserted after a first copy, with depends_on lists shuffled / "
    "entries repeated, with later copies moved, fully shuffled. Executor stream: sessions of 1-3 translations on one ATLAS "
    "executor, each of 1-2 queries whose trees carry MetaData calls around the dataset, around the query and inside the "
    "lambda body (add_job_script with depends_on present or left out, inject_code items in between, rarely an unknown "
    "metadata type)."
)
TRUSTED_BASE = [
    "hand model of generate_script_block (Model.lean) tied to the code by the correspondence stream of this run",
    "the harness tools/props/c15.py (generators, canonicalisation: result lines or exception class)",
    "end-to-end stream: the real ATLAS pipeline (process_metadata, executor accumulation, generate_script_block, jinja) on the same block lists, judged by the Spec on the lines it inserts into ATestRun_eljob.py",
    "translator of ATestRun_eljob.py into Generated/C15Template.lean (tokens of jinja2's own lexer under the Environment defaults the executor uses)",
    "hand model of the executor path (ModelExec.lean: extract_metadata order, process_metadata, accumulation, write/reset) tied to the code by the executor stream of this run",
]
ASSUMPTIONS = [
    "Python dicts iterate in insertion order (language guarantee since 3.7)",
    "block names, script lines and dependencies are strings",
]

def template_items(src: str):
    """ATestRun_eljob.py as a list of items, from the tokens of jinja2's own lexer under the Environment defaults the
    executor uses (`jinja2.Environment(loader=...)`). Anything that is not plain text, a filter-free `{% for v in seq %}`
    ... `{% endfor %}` at top level or a filter-free `{{ v }}` inside it becomes an explicit `unrecognised` item."""
    import jinja2

    toks = [t for t in jinja2.Environment().lex(src) if t[1] != "whitespace"]
    items, body, loop = [], None, None
    i = 0

    def tag(i, end):
        j = i + 1
        inner = []
        while j < len(toks) and toks[j][1] != end:
            inner.append(toks[j])
            j += 1
        return inner, j + 1

    def show(open_, inner, close):
        return open_ + " " + " ".join(str(t[2]) for t in inner) + " " + close

    while i < len(toks):
        _, typ, val = toks[i]
        if typ == "data":
            (items if body is None else body).append(("text", val))
            i += 1
        elif typ == "block_begin":
            inner, i = tag(i, "block_end")
            kinds = [(t[1], t[2]) for t in inner]
            plain = val == "{%" or val == "{%-"
            if (body is None and len(kinds) == 4 and kinds[0] == ("name", "for") and kinds[1][0] == "name"
                    and kinds[2] == ("name", "in") and kinds[3][0] == "name"):
                loop, body = (kinds[1][1], kinds[3][1]), []
            elif body is not None and kinds == [("name", "endfor")]:
                items.append(("forEach", loop[0], loop[1], body))
                loop, body = None, None
            else:
                (items if body is None else body).append(("unrecognised", show("{%", inner, "%}")))
        elif typ == "variable_begin":
            inner, i = tag(i, "variable_end")
            kinds = [(t[1], t[2]) for t in inner]
            if body is not None and len(kinds) == 1 and kinds[0][0] == "name":
                body.append(("var", kinds[0][1]))
            else:
                (items if body is None else body).append(("unrecognised", show("{{", inner, "}}")))
        else:
            (items if body is None else body).append(("unrecognised", f"{typ}:{val}"))
            i += 1
    if body is not None:  # a loop that is never closed
        items.append(("unrecognised", "{% for " + loop[0] + " in " + loop[1] + " %} without endfor"))
        items.extend(("unrecognised", "loop-body:" + repr(b)) for b in body)
    return items


def template_lean(items) -> str:
    from vlib import lean_str

    def b(x):
        return f".{x[0]} {lean_str(x[1])}"

    def t(x):
        if x[0] == "forEach":
            return f".forEach {lean_str(x[1])} {lean_str(x[2])} [" + ", ".join(b(y) for y in x[3]) + "]"
        return f".{x[0]} {lean_str(x[1])}"

    return (
        "/- generated by tools/props/c15.py from func_adl_xAOD/template/atlas/r21/ATestRun_eljob.py (tokens of jinja2's\n"
        "   lexer) on every run - do not edit -/\n"
        "import FaxVerif.C15.Tmpl\n"
        "namespace FaxVerif.C15.Gen\n"
        "open FaxVerif.C15\n\n"
        "def eljobItems : List TItem := [\n  " + ",\n  ".join(t(x) for x in items) + "\n]\n\n"
        "end FaxVerif.C15.Gen\n"
    )


def translate(ctx):
    """Tie T: regenerate Generated/C15Template.lean from the template's source."""
    import vlib

    src = (vlib.REPO / "func_adl_xAOD/template/atlas/r21/ATestRun_eljob.py").read_text()
    try:
        items = template_items(src)
    except Exception as e:  # a template jinja2 itself cannot tokenise
        items = [("unrecognised", f"lexer: {type(e).__name__}: {e}")]
    vlib.write_if_changed(vlib.LEAN / "FaxVerif/Generated/C15Template.lean", template_lean(items))


NAMES = ["a", "b", "c"]
SCRIPTS = [[], ["l1"], ["l1", "l2"], ["l3"]]


class _Limits:
    """The implementation under test runs in this process: bound its time (5 s alarm) and its address space (a runaway
    dependency list is reported as MemoryError / Timeout — an outcome the specification never allows — instead of taking
    the machine down). The limits are in force only while the implementation runs (the Lean driver is started outside)."""

    def __enter__(self):
        import resource

        self.res = resource
        self.old_as = resource.getrlimit(resource.RLIMIT_AS)
        cap = 6 * 1024 ** 3
        hard = self.old_as[1]
        resource.setrlimit(resource.RLIMIT_AS, (cap if hard == resource.RLIM_INFINITY else min(cap, hard), hard))

        def on_alarm(signum, frame):
            raise TimeoutError("the implementation did not return within 5 s")

        self.old_sig = signal.signal(signal.SIGALRM, on_alarm)
        signal.alarm(5)
        return self

    def __exit__(self, *exc):
        signal.alarm(0)
        signal.signal(signal.SIGALRM, self.old_sig)
        self.res.setrlimit(self.res.RLIMIT_AS, self.old_as)
        return False


def _omit_parity(blocks, i) -> bool:
    """deterministic coin per (case, position): True = send an explicit empty list, False = leave the field out"""
    import zlib
    return zlib.crc32(repr((blocks, i)).encode()) % 2 == 0


def impl(blocks: List[Dict[str, Any]]) -> Dict[str, Any]:
    from func_adl_xAOD.common.meta_data import JobScriptSpecification, generate_script_block

    specs = [JobScriptSpecification(name=b["name"], script=list(b["script"]), depends_on=list(b["deps"])) for b in blocks]

    try:
        with _Limits():
            return {"ok": list(generate_script_block(specs))}
    except TimeoutError:
        return {"err": "Timeout"}
    except MemoryError:
        return {"err": "MemoryError"}
    except Exception as e:
        return {"err": type(e).__name__}


def impl_e2e(blocks: List[Dict[str, Any]]) -> Dict[str, Any]:
    """The same blocks sent as add_job_script metadata on an ATLAS query, through the real pipeline
    (process_metadata, the executor's accumulation, generate_script_block, jinja rendering)."""
    import pipeline as P

    src = "ds0"
    for i, b in reversed(list(enumerate(blocks))):  # extract_metadata hands the OUTERMOST MetaData call over first
        md = {"metadata_type": "add_job_script", "name": b["name"], "script": list(b["script"]), "depends_on": list(b["deps"])}
        # a block without dependencies is sent the way users send it half the time: with the key left out, so that the
        # metadata default is what the algorithm sees, not a fresh list made here
        if not b["deps"] and not _omit_parity(blocks, i):
            del md["depends_on"]
        src = f"MetaData({src}, {md!r})"
    src = f"Select({src}, lambda e: e.Jets('AntiKt4EMTopoJets').Count())"
    try:
        with _Limits():
            r = P.translate_functional("atlas", src)
    except TimeoutError:
        return {"err": "Timeout"}
    except MemoryError:
        return {"err": "MemoryError"}
    if not r["ok"]:
        return {"err": r["error"]}
    lines = r["job_option_additions"]
    rendered = r["files"]["ATestRun_eljob.py"].split("\n")
    try:
        a = rendered.index("job.sampleHandler(sh)")
        z = rendered.index("# Create the algorithm's configuration.")
        region = [l for l in rendered[a + 1 : z] if l.strip() != ""]
    except ValueError:
        region = None
    return {"ok": list(lines), "region": region}


def canon_model(m: Dict[str, Any]) -> Dict[str, Any]:
    if "ok" in m:
        return {"ok": m["ok"]}
    if m.get("err") in ("conflict", "missing", "cycle"):
        return {"err": "ValueError"}
    return m


def dep_lists(pool: List[str], maxlen: int):
    yield []
    for k in range(1, maxlen + 1):
        for c in itertools.product(pool, repeat=k):
            if list(c) == sorted(c):  # order inside a dependency list does not matter to the algorithm: keep sorted ones
                yield list(c)


def exhaustive(nblocks: int, names: List[str], scripts, deppool, maxdeps: int):
    one = [{"name": n, "script": s, "deps": d} for n in names for s in scripts for d in dep_lists(deppool, maxdeps)]
    for k in range(0, nblocks + 1):
        for combo in itertools.product(one, repeat=k):
            yield list(combo)


def random_case(rng) -> List[Dict[str, Any]]:
    nn = rng.randint(1, 6)
    names = ["a", "b", "c", "d", "e", "f"][:nn]
    style = rng.random()
    script_of = {n: [f"{n}{i}" for i in range(rng.choice([0, 1, 1, 2, 3]))] for n in names}
    if rng.random() < 0.3:  # shared lines between different blocks
        script_of[rng.choice(names)] = ["shared"]
        script_of[rng.choice(names)] = ["shared"]
    order = names[:]
    rng.shuffle(order)
    rank = {n: i for i, n in enumerate(order)}
    blocks = []
    # one block per name (so that a dependency is normally on a block that was sent), then repeats
    which = names[:] + [rng.choice(names) for _ in range(rng.choice([0, 0, 1, 2, 3, 6]))]
    if rng.random() < 0.1:
        which = [rng.choice(names) for _ in range(rng.randint(1, 12))]
    rng.shuffle(which)
    for n in which:
        if style < 0.7:  # acyclic by construction: only depend on lower rank
            pool = [m for m in names if rank[m] < rank[n]]
        else:
            pool = names
        deps = [rng.choice(pool) for _ in range(rng.choice([0, 0, 1, 1, 2, 3]))] if pool else []
        if rng.random() < 0.03:
            deps.append("zz_not_sent")
        script = list(script_of[n])
        if rng.random() < 0.02:
            script = script + ["different"]
        blocks.append({"name": n, "script": script, "deps": deps})
    return blocks


def nontrivial(blocks) -> bool:
    if len(blocks) < 2:
        return False
    ns = [b["name"] for b in blocks]
    return any(b["deps"] for b in blocks) or len(set(ns)) < len(ns)


def cases(ctx):
    from vlib import corpus_cases

    for c in corpus_cases(ID):
        yield "corpus", c["blocks"]
    if ctx.tier == "quick":
        for b in exhaustive(2, NAMES, SCRIPTS, NAMES + ["z"], 2):
            yield "exhaustive", b
        nrand = 6000
    else:
        for b in exhaustive(2, NAMES, SCRIPTS, NAMES + ["z"], 2):
            yield "exhaustive", b
        for b in exhaustive(3, NAMES, [[], ["l1"], ["l3", "l4"]], NAMES, 1):
            yield "exhaustive3", b
        for b in exhaustive(4, ["a", "b"], [["l1"], ["l3"]], ["a", "b"], 1):
            yield "exhaustive4", b
        nrand = 60000
    for _ in range(nrand):
        yield "random", random_case(ctx.rng)


def run(ctx):
    batch, meta = [], []
    for stream, blocks in cases(ctx):
        meta.append((stream, blocks, impl(blocks)))
    ctx.check_time()
    reqs = []
    for stream, blocks, r in meta:
        reqs.append({"op": "gen", "blocks": blocks})
        reqs.append({"op": "spec", "blocks": blocks, "result": r})
    ans = ctx.driver(DRIVER, reqs)
    for i, (stream, blocks, r) in enumerate(meta):
        m, s = ans[2 * i], ans[2 * i + 1]
        ctx.count(f"stream:{stream}")
        ctx.count("impl:" + ("ok" if "ok" in r else r["err"]))
        if "err" in m:
            ctx.count("model-error:" + str(m["err"]))
        ctx.count(f"blocks:{min(len(blocks), 9)}")
        ctx.case(blocks, nontrivial(blocks), {"blocks": blocks, "implementation": r, "model": m})
        if "bad" in m or "bad" in s:
            continue  # driver failure already recorded as a broken obligation
        # the Spec, evaluated on what the implementation returned
        if not s.get("holds", False):
            ctx.violation(
                key="gen:" + repr(blocks),
                what=f"generate_script_block violates the block-order specification: {s.get('why')}",
                case={"blocks": blocks},
                observed=r,
                how="from func_adl_xAOD.common.meta_data import *; generate_script_block([JobScriptSpecification(name, script, depends_on) ...]) with the blocks of `case`",
            )
        # the tie: model and implementation agree
        if canon_model(m) != r:
            ctx.disagreement("generate_script_block", {"blocks": blocks}, canon_model(m), r)
        # executable twins of the specification-level notions of the order / refusal theorems, on the same input
        if "ok" in m and m.get("fifo") != m.get("order"):
            ctx.disagreement("model order vs the FIFO work list of SpecOrder.lean (theorem order_fifo)", {"blocks": blocks}, m.get("order"), m.get("fifo"))
        if ("ok" in m and m.get("cycle")) or (m.get("err") == "cycle" and not m.get("cycle")):
            ctx.disagreement("model refusal vs closed-walk search (theorem refused_iff)", {"blocks": blocks}, m.get("err", "ok"), m.get("cycle"))
    ctx.check_time()
    run_metamorphic(ctx)
    ctx.check_time()
    run_exec(ctx)
    ctx.check_time()
    run_e2e(ctx)
    ctx.extra_cov["exhaustive"] = False
    ctx.extra_cov["exhaustive_part"] = "all block lists of <=2 blocks over 3 names x 4 scripts x dependency lists of <=2 entries from 4 names" + (
        "; <=3 blocks and <=4 blocks over reduced alphabets" if ctx.tier == "thorough" else ""
    )


def run_e2e(ctx):
    """End-to-end stream: the Spec on what the real pipeline inserts into ATestRun_eljob.py."""
    n = 250 if ctx.tier == "quick" else 3000
    meta = []
    for _ in range(n):
        b = random_case(ctx.rng)
        # script lines that survive a rendering round trip unchanged (no blank lines)
        meta.append((b, impl_e2e(b)))
    reqs = []
    for b, r in meta:
        reqs.append({"op": "gen", "blocks": b})
        reqs.append({"op": "spec", "blocks": b, "result": {"ok": r["ok"]} if "ok" in r else r})
    ans = ctx.driver(DRIVER, reqs)
    for i, (b, r) in enumerate(meta):
        m, s = ans[2 * i], ans[2 * i + 1]
        ctx.count("stream:end-to-end")
        ctx.count("e2e:" + ("ok" if "ok" in r else r["err"]))
        ctx.case(("e2e", b), nontrivial(b), {"blocks": b, "pipeline": r})
        if "bad" in m or "bad" in s:
            continue
        if not s.get("holds", False):
            ctx.violation(
                key="e2e:" + repr(b),
                what=f"the job-option lines the ATLAS pipeline inserts violate the block-order specification: {s.get('why')}",
                case={"blocks": b, "via": "MetaData add_job_script on an ATLAS query"},
                observed=r,
                how="attach the blocks (last block innermost) as add_job_script MetaData to Select(ds, lambda e: e.Jets(..).Count()) and translate with atlas_xaod_executor; look at job_option_additions / ATestRun_eljob.py",
            )
            continue
        if "ok" in r and r.get("region") is not None and r["region"] != r["ok"]:
            ctx.violation(
                key="e2e-render:" + repr(b),
                what="the lines rendered into ATestRun_eljob.py differ from the generated script (dropped, duplicated or reordered by the template)",
                case={"blocks": b},
                observed=r,
            )
        if ("ok" in canon_model(m)) != ("ok" in r):
            ctx.disagreement("pipeline accepts/refuses vs model", {"blocks": b}, canon_model(m), r)



# ---------------------------------------------------------------------------------------------------------------
# metamorphic stream: the invariance / stability theorems, instantiated on the real generate_script_block
# ---------------------------------------------------------------------------------------------------------------

def _variants(rng, b, order):
    """(kind, variant, relation) - relation 'same': identical result; 'perm': same acceptance, same multiset of lines"""
    out = []
    if b:
        i = rng.randrange(len(b))
        j = rng.randint(i + 1, len(b))
        out.append(("dup_invariant", b[:j] + [dict(b[i])] + b[j:], "same"))
    v = []
    for blk in b:
        d = list(blk["deps"])
        rng.shuffle(d)
        if d and rng.random() < 0.4:
            d.insert(rng.randrange(len(d) + 1), rng.choice(d))
        v.append({**blk, "deps": d})
    out.append(("deps_invariant", v, "same"))
    first, later = [], []
    seen = set()
    for blk in b:
        (later if blk["name"] in seen else first).append(blk)
        seen.add(blk["name"])
    v = list(first)
    for blk in later:
        k = next(i for i, x in enumerate(v) if x["name"] == blk["name"])
        v.insert(rng.randint(k + 1, len(v)), blk)
    out.append(("set_arrival_invariant", v, "same"))
    v = list(b)
    rng.shuffle(v)
    out.append(("perm_refusal_invariant/perm_ok", v, "perm"))
    if order is not None:
        canon = []
        for n in order:
            same = [x for x in b if x["name"] == n]
            canon.append({"name": n, "script": list(same[0]["script"]), "deps": [d for x in same for d in x["deps"]]})
        out.append(("idempotent", canon, "same"))
    return out


def run_metamorphic(ctx):
    n = 1200 if ctx.tier == "quick" else 15000
    bases = [random_case(ctx.rng) for _ in range(n)]
    res = [impl(b) for b in bases]
    ans = ctx.driver(DRIVER, [{"op": "gen", "blocks": b} for b in bases])
    for b, r, m in zip(bases, res, ans):
        if "bad" in m:
            continue
        order = m.get("order") if "ok" in r and "ok" in m else None
        for kind, v, rel in _variants(ctx.rng, b, order):
            rv = impl(v)
            ctx.count("stream:metamorphic")
            ctx.count("metamorphic:" + kind)
            ctx.case(("meta", kind, b, v), nontrivial(b), None)
            if rel == "same":
                good = rv == r
            else:
                good = ("ok" in rv) == ("ok" in r) and rv.get("err") == r.get("err") and sorted(rv.get("ok", [])) == sorted(r.get("ok", []))
            if not good:
                ctx.disagreement(f"metamorphic:{kind} (a theorem about the model that the implementation no longer follows)", {"blocks": b, "variant": v}, r, rv)


# ---------------------------------------------------------------------------------------------------------------
# executor stream: sessions on one real ATLAS executor against ModelExec.lean
# ---------------------------------------------------------------------------------------------------------------

_TAIL = ".Jets('AntiKt4EMTopoJets').Count()"


def _split(rng, items, k):
    cuts = sorted(rng.randint(0, len(items)) for _ in range(k - 1))
    parts, a = [], 0
    for c in cuts + [len(items)]:
        parts.append(items[a:c])
        a = c
    return parts


def _wrap_json(mds, inner):
    for md in reversed(mds):
        inner = {"md": md["json"], "src": inner}
    return inner


def _wrap_src(mds, inner):
    for md in reversed(mds):
        inner = f"MetaData({inner}, {md['py']!r})"
    return inner


def random_session(rng):
    counter = [0]

    def md_of(b):
        py = {"metadata_type": "add_job_script", "name": b["name"], "script": list(b["script"]), "depends_on": list(b["deps"])}
        js = {"name": b["name"], "script": list(b["script"]), "deps": list(b["deps"])}
        if not b["deps"] and rng.random() < 0.5:
            del py["depends_on"]
            js["deps"] = None
        return {"py": py, "json": js, "block": b}

    def other():
        counter[0] += 1
        k = counter[0]
        return {"py": {"metadata_type": "inject_code", "name": f"c15blk{k}", "body_includes": [f"c15inc{k}.h"]}, "json": "other", "block": None}

    def items_of(blocks):
        items = []
        for b in blocks:
            items.append(md_of(b))
            if rng.random() < 0.15:
                items.append(other())
        return items

    ntr = rng.choice([1, 1, 2, 2, 3])
    if rng.random() < 0.25:  # one list of blocks cut into translations: dependencies dangle across the cuts
        parts = _split(rng, items_of(random_case(rng)), ntr)
    else:  # every translation has its own list (a refused one leaves its blocks on the executor)
        parts = [items_of(random_case(rng)) for _ in range(ntr)]
    session = []
    for tr_items in parts:
        if rng.random() < 0.03:
            tr_items = list(tr_items)
            tr_items.insert(rng.randint(0, len(tr_items)), {"py": {"metadata_type": "zz_unknown_c15"}, "json": "bad", "block": None})
        nq = rng.choice([1, 1, 1, 2])
        queries = []
        for q_items in _split(rng, tr_items, nq):
            outer, chain, body = _split(rng, q_items, 3)
            js = _wrap_json(outer, {"call": [_wrap_json(chain, "ds"), {"call": [_wrap_json(body, "ds")]}]})
            src = _wrap_src(outer, f"Select({_wrap_src(chain, 'ds0')}, lambda e: {_wrap_src(body, 'e')}{_TAIL})")
            queries.append({"json": js, "src": src, "mds": outer + chain + body})
        session.append(queries)
    return session


def impl_session(session):
    import pathlib
    import shutil
    import tempfile

    import pipeline as P

    exe = P.make_executor("atlas")
    results = []
    for queries in session:
        out = pathlib.Path(tempfile.mkdtemp(prefix="vp_c15_"))
        try:
            with _Limits():
                a2 = None
                for q in queries:
                    a2 = exe.apply_ast_transformations(P.query_ast_functional("atlas", q["src"]))
                exe.write_cpp_files(a2, out)
            results.append({"ok": list(exe.recorded_info["job_option_additions"]), "text": (out / "ATestRun_eljob.py").read_text()})
        except TimeoutError:
            results.append({"err": "Timeout"})
        except MemoryError:
            results.append({"err": "MemoryError"})
        except Exception as e:
            results.append({"err": type(e).__name__})
        finally:
            shutil.rmtree(out, ignore_errors=True)
    return results


def _nonblank(text):
    return [l for l in text.split("\n") if l.strip() != ""]


def _region(text):
    rendered = text.split("\n")
    try:
        a = rendered.index("job.sampleHandler(sh)")
        z = rendered.index("# Create the algorithm's configuration.")
        return [l for l in rendered[a + 1 : z] if l.strip() != ""]
    except ValueError:
        return None


def run_exec(ctx):
    n = 150 if ctx.tier == "quick" else 2000
    sessions = [random_session(ctx.rng) for _ in range(n)]
    real = [impl_session(s) for s in sessions]
    ans = ctx.driver(DRIVER, [{"op": "exec", "session": [[q["json"] for q in tr] for tr in s]} for s in sessions])
    spec_reqs, spec_at = [], []
    for si, (s, rr, a) in enumerate(zip(sessions, real, ans)):
        ctx.count("stream:executor")
        ctx.count(f"exec:translations:{len(s)}")
        shown = [[q["src"] for q in tr] for tr in s]
        ctx.case(("exec", shown), sum(len(q["mds"]) for tr in s for q in tr) >= 2, {"session": shown, "executor": [{k: v for k, v in r.items() if k != "text"} for r in rr]})
        if "bad" in a:
            continue
        mm = a["results"]
        fresh = True  # the executor is empty before this translation
        for ti, (tr, r, m) in enumerate(zip(s, rr, mm)):
            ctx.count("exec:" + ("ok" if "ok" in r else r["err"]))
            if "err" in m:
                ctx.count("exec-model-error:" + m["err"])
            mds = [md for q in tr for md in q["mds"]]
            has_bad = any(md["json"] == "bad" for md in mds)
            if fresh and not has_bad:
                blocks = [md["block"] for md in mds if md["block"] is not None]
                spec_reqs.append({"op": "spec", "blocks": blocks, "result": {"ok": r["ok"]} if "ok" in r else r})
                spec_at.append((shown, ti, blocks, r))
            if "ok" in r:
                reg = _region(r["text"])
                if reg is not None and reg != r["ok"]:
                    ctx.violation(
                        key="exec-render:" + repr(shown[: ti + 1]),
                        what="the lines rendered into ATestRun_eljob.py differ from the generated script (dropped, duplicated or reordered by the template)",
                        case={"session": shown[: ti + 1]},
                        observed={"ok": r["ok"], "region": reg},
                    )
            cm = {"err": "ValueError"} if m.get("err") in ("metadata", "conflict", "missing", "cycle") else m
            if ("ok" in cm) != ("ok" in r) or cm.get("err") != r.get("err") or cm.get("ok") != r.get("ok"):
                ctx.disagreement("executor session vs ModelExec.lean", {"session": shown, "translation": ti}, {k: v for k, v in cm.items() if k != "text"}, {k: v for k, v in r.items() if k != "text"})
            elif "ok" in r and cm["text"] != r["text"]:
                if _nonblank(cm["text"]) == _nonblank(r["text"]):
                    ctx.count("exec:render-differs-in-blank-lines-only")
                else:
                    ctx.disagreement("rendered ATestRun_eljob.py vs render_exact", {"session": shown, "translation": ti}, _nonblank(cm["text"]), _nonblank(r["text"]))
            elif "ok" in r:
                ctx.count("exec:rendered-file-identical")
            fresh = "ok" in r  # reset() only after a successful write
    sp = ctx.driver(DRIVER, spec_reqs)
    for (shown, ti, blocks, r), sres in zip(spec_at, sp):
        if "bad" in sres:
            continue
        if not sres.get("holds", False):
            ctx.violation(
                key="exec:" + repr(shown[: ti + 1]),
                what=f"the job-option lines of a translation with several MetaData calls violate the block-order specification: {sres.get('why')}",
                case={"session": shown[: ti + 1], "blocks": blocks, "via": "apply_ast_transformations per query, then write_cpp_files, on one atlas_xaod_executor"},
                observed={k: v for k, v in r.items() if k != "text"},
                how="queries of `session` (func_adl call trees over ds0) translated in order on one executor",
            )


def search(ctx, broken):
    """Run a larger random sweep with the Spec as the only judge."""
    meta = []
    for _ in range(20000):
        b = random_case(ctx.rng)
        meta.append((b, impl(b)))
    ans = ctx.driver(DRIVER, [{"op": "spec", "blocks": b, "result": r} for b, r in meta])
    best = None
    for (b, r), s in zip(meta, ans):
        if "bad" in s:
            return None
        if not s.get("holds", False):
            if best is None or len(b) < len(best[0]):
                best = (b, r, s)
    if best is None:
        return None
    b, r, s = shrink(ctx, *best)
    return {"key": "gen:" + repr(b), "what": s.get("why"), "case": {"blocks": b}, "observed": r}


def shrink(ctx, b, r, s):
    """Structural deletion: drop blocks, then dependencies, then script lines, while the Spec still fails."""
    changed = True
    while changed:
        changed = False
        cands = []
        for i in range(len(b)):
            cands.append(b[:i] + b[i + 1 :])
        for i, blk in enumerate(b):
            for j in range(len(blk["deps"])):
                cands.append(b[:i] + [{**blk, "deps": blk["deps"][:j] + blk["deps"][j + 1 :]}] + b[i + 1 :])
        if not cands:
            break
        rs = [impl(c) for c in cands]
        ans = ctx.driver(DRIVER, [{"op": "spec", "blocks": c, "result": x} for c, x in zip(cands, rs)])
        for c, x, a in zip(cands, rs, ans):
            if "bad" not in a and not a.get("holds", False):
                b, r, s = c, x, a
                changed = True
                break
    return b, r, s


def replay(ctx, rep) -> int:
    case = rep["case"]
    if "session" in case:  # executor stream: the queries again, in order, on one fresh executor
        rr = impl_session([[{"src": q} for q in tr] for tr in case["session"]])
        r = rr[-1]
        print("executor returned:", [{k: v for k, v in x.items() if k != "text"} for x in rr])
        bad = 0
        if "ok" in r and _region(r["text"]) is not None and _region(r["text"]) != r["ok"]:
            print("rendered region:", _region(r["text"]))
            bad = 1
        if "blocks" in case:
            s = ctx.driver(DRIVER, [{"op": "spec", "blocks": case["blocks"], "result": {"ok": r["ok"]} if "ok" in r else r}])[0]
            print("spec:", s)
            bad = bad or (0 if s.get("holds") else 1)
        return bad
    blocks = case["blocks"]
    if "via" in case:  # end-to-end stream
        r = impl_e2e(blocks)
        if "ok" in r and r.get("region") is not None and r["region"] != r["ok"]:
            print("pipeline returned:", r)
            return 1
        r = {"ok": r["ok"]} if "ok" in r else r
    else:
        r = impl(blocks)
    s = ctx.driver(DRIVER, [{"op": "spec", "blocks": blocks, "result": r}])[0]
    print("implementation returned:", r)
    print("spec:", s)
    return 0 if s.get("holds") else 1


LEVEL_TEXT = (
    "Machine-checked proof (Lean 4, 39 theorems) about a hand model of generate_script_block and of the executor path "
    "around it, for every finite list of blocks / every query tree: soundness of the emitted order (each distinct block "
    "once, contiguous, after all its dependencies incl. those of repeated blocks); exact refusal condition (refused iff "
    "conflict, dangling dependency or a dependency cycle of any length among the sent blocks - refused_iff, with the kind "
    "of error - refusal_kind_iff); termination; WHICH order is emitted (order_fifo / order_unique: the FIFO work list over "
    "the arrival order; not_kahn_counterexample); determinism (order_congr: only arrival order of names, scripts and "
    "dependency SETS matter), invariance under repeated identical blocks, under permutation / repetition inside depends_on "
    "lists, under permutations that keep the arrival order of names; stability (sorted_fixed) and idempotence; permutation "
    "of arrival: refusal and its kind invariant, emitted blocks the same, order in general different (counterexample "
    "theorems). Executor level: blocks of all MetaData calls of all queries of a translation are merged as one list "
    "(exec_sound, exec_refused_iff, exec_conflict, exec_union), the executor is empty after a successful write and keeps "
    "its blocks after a refused one (session_*), and the rendered ATestRun_eljob.py is exactly text / separator-line-"
    "separator per script line / text (render_exact, over the template regenerated as Lean data from its source on every "
    "run: template_shape, template_separators). The models are tied to the code on every run by running both on an "
    "exhaustive small space plus random lists (generate_script_block), on random multi-query sessions of one real "
    "atlas_xaod_executor (lines and whole rendered file compared) and by instantiating the invariance theorems on the real "
    "function; the decidable Spec is evaluated directly on the implementation's outputs in all streams."
)
LEVEL_NOTE = (
    "Trusted: Lean kernel (axioms audited: propext, Classical.choice, Quot.sound only); the hand models' agreement with "
    "the Python is checked by differential execution, not proved; the translator of the template (jinja2's lexer); harness "
    "and generators; Python dict order. Error payloads (message texts) are outside the statements: invariance theorems "
    "are about the emitted order, the text and the KIND of refusal. Only the jinja2 fragment the template uses is "
    "modelled (text, one filter-free for loop, filter-free variable); anything else makes template_shape fail to build. "
    "The other slots of the package are covered under C14."
)
TECHNIQUE = "Lean 4 theorems over hand models (script generator, executor path, template as generated data) + correspondence checks (differential execution, metamorphic instances of the theorems) against the real code"
DESIGN_REF = "DESIGN.md §4 C15"
