"""C15 — job-script blocks are emitted once each in dependency order.

Model: lean/FaxVerif/C15/Model.lean (hand model of generate_script_block).
Tie: K — the real function and the model on the same block lists (exhaustive small + random).
Spec oracle on the implementation's output: `SpecOk` evaluated by the Lean driver.
"""
from __future__ import annotations

import itertools
import signal
from typing import Any, Dict, List

ID = "C15"
LEAN_MODULES = ["FaxVerif.C15.Theorems"]
LEAN_SOURCES = ["FaxVerif/C15"]
DRIVER = "FaxVerif/C15/Driver.lean"
THEOREMS = [
    "FaxVerif.C15.sound",
    "FaxVerif.C15.fuel_never",
    "FaxVerif.C15.error_justified",
    "FaxVerif.C15.complete",
    "FaxVerif.C15.merge",
]
RULE = (
    "block lists over names {a,b,c,(d,e,f)} with dependency lists drawn from the names plus one never-sent name, "
    "scripts from a pool containing empty, one-line, two-line and shared lines; exhaustive for <=2 blocks (quick) / "
    "<=3 blocks over a reduced alphabet (thorough), random up to 12 blocks beyond. A case is non-trivial when it has "
    ">=2 blocks and at least one dependency edge or one repeated name; distinct = distinct block list."
)
TRUSTED_BASE = [
    "hand model of generate_script_block (Model.lean) tied to the code by the correspondence stream of this run",
    "the harness tools/props/c15.py (generators, canonicalisation: result lines or exception class)",
    "end-to-end stream: the real ATLAS pipeline (process_metadata, executor accumulation, generate_script_block, jinja) on the same block lists, judged by the Spec on the lines it inserts into ATestRun_eljob.py",
]
ASSUMPTIONS = [
    "Python dicts iterate in insertion order (language guarantee since 3.7)",
    "block names, script lines and dependencies are strings",
]

NAMES = ["a", "b", "c"]
SCRIPTS = [[], ["l1"], ["l1", "l2"], ["l3"]]


class _Limits:
    """The implementation under test runs in this process: bound its time (5 s alarm) and its address space (a runaway
    dependency list is reported as MemoryError / Timeout — an outcome the specification never allows — instead of taking
    the machine down). The limits are in force only while the implementation runs (the Lean driver is started outside)."""

    def __enter__(self):
        import resource

        self.res = resource
        self.old_as = resource.getrlimit(resource.RLIMIT_AS)
        cap = 6 * 1024 ** 3
        hard = self.old_as[1]
        resource.setrlimit(resource.RLIMIT_AS, (cap if hard == resource.RLIM_INFINITY else min(cap, hard), hard))

        def on_alarm(signum, frame):
            raise TimeoutError("the implementation did not return within 5 s")

        self.old_sig = signal.signal(signal.SIGALRM, on_alarm)
        signal.alarm(5)
        return self

    def __exit__(self, *exc):
        signal.alarm(0)
        signal.signal(signal.SIGALRM, self.old_sig)
        self.res.setrlimit(self.res.RLIMIT_AS, self.old_as)
        return False


def _omit_parity(blocks, i) -> bool:
    """deterministic coin per (case, position): True = send an explicit empty list, False = leave the field out"""
    import zlib
    return zlib.crc32(repr((blocks, i)).encode()) % 2 == 0


def impl(blocks: List[Dict[str, Any]]) -> Dict[str, Any]:
    from func_adl_xAOD.common.meta_data import JobScriptSpecification, generate_script_block

    specs = [JobScriptSpecification(name=b["name"], script=list(b["script"]), depends_on=list(b["deps"])) for b in blocks]

    try:
        with _Limits():
            return {"ok": list(generate_script_block(specs))}
    except TimeoutError:
        return {"err": "Timeout"}
    except MemoryError:
        return {"err": "MemoryError"}
    except Exception as e:
        return {"err": type(e).__name__}


def impl_e2e(blocks: List[Dict[str, Any]]) -> Dict[str, Any]:
    """The same blocks sent as add_job_script metadata on an ATLAS query, through the real pipeline
    (process_metadata, the executor's accumulation, generate_script_block, jinja rendering)."""
    import pipeline as P

    src = "ds0"
    for i, b in reversed(list(enumerate(blocks))):  # extract_metadata hands the OUTERMOST MetaData call over first
        md = {"metadata_type": "add_job_script", "name": b["name"], "script": list(b["script"]), "depends_on": list(b["deps"])}
        # a block without dependencies is sent the way users send it half the time: with the key left out, so that the
        # metadata default is what the algorithm sees, not a fresh list made here
        if not b["deps"] and not _omit_parity(blocks, i):
            del md["depends_on"]
        src = f"MetaData({src}, {md!r})"
    src = f"Select({src}, lambda e: e.Jets('AntiKt4EMTopoJets').Count())"
    try:
        with _Limits():
            r = P.translate_functional("atlas", src)
    except TimeoutError:
        return {"err": "Timeout"}
    except MemoryError:
        return {"err": "MemoryError"}
    if not r["ok"]:
        return {"err": r["error"]}
    lines = r["job_option_additions"]
    rendered = r["files"]["ATestRun_eljob.py"].split("\n")
    try:
        a = rendered.index("job.sampleHandler(sh)")
        z = rendered.index("# Create the algorithm's configuration.")
        region = [l for l in rendered[a + 1 : z] if l.strip() != ""]
    except ValueError:
        region = None
    return {"ok": list(lines), "region": region}


def canon_model(m: Dict[str, Any]) -> Dict[str, Any]:
    if "ok" in m:
        return {"ok": m["ok"]}
    if m.get("err") in ("conflict", "missing", "cycle"):
        return {"err": "ValueError"}
    return m


def dep_lists(pool: List[str], maxlen: int):
    yield []
    for k in range(1, maxlen + 1):
        for c in itertools.product(pool, repeat=k):
            if list(c) == sorted(c):  # order inside a dependency list does not matter to the algorithm: keep sorted ones
                yield list(c)


def exhaustive(nblocks: int, names: List[str], scripts, deppool, maxdeps: int):
    one = [{"name": n, "script": s, "deps": d} for n in names for s in scripts for d in dep_lists(deppool, maxdeps)]
    for k in range(0, nblocks + 1):
        for combo in itertools.product(one, repeat=k):
            yield list(combo)


def random_case(rng) -> List[Dict[str, Any]]:
    nn = rng.randint(1, 6)
    names = ["a", "b", "c", "d", "e", "f"][:nn]
    style = rng.random()
    script_of = {n: [f"{n}{i}" for i in range(rng.choice([0, 1, 1, 2, 3]))] for n in names}
    if rng.random() < 0.3:  # shared lines between different blocks
        script_of[rng.choice(names)] = ["shared"]
        script_of[rng.choice(names)] = ["shared"]
    order = names[:]
    rng.shuffle(order)
    rank = {n: i for i, n in enumerate(order)}
    blocks = []
    # one block per name (so that a dependency is normally on a block that was sent), then repeats
    which = names[:] + [rng.choice(names) for _ in range(rng.choice([0, 0, 1, 2, 3, 6]))]
    if rng.random() < 0.1:
        which = [rng.choice(names) for _ in range(rng.randint(1, 12))]
    rng.shuffle(which)
    for n in which:
        if style < 0.7:  # acyclic by construction: only depend on lower rank
            pool = [m for m in names if rank[m] < rank[n]]
        else:
            pool = names
        deps = [rng.choice(pool) for _ in range(rng.choice([0, 0, 1, 1, 2, 3]))] if pool else []
        if rng.random() < 0.03:
            deps.append("zz_not_sent")
        script = list(script_of[n])
        if rng.random() < 0.02:
            script = script + ["different"]
        blocks.append({"name": n, "script": script, "deps": deps})
    return blocks


def nontrivial(blocks) -> bool:
    if len(blocks) < 2:
        return False
    ns = [b["name"] for b in blocks]
    return any(b["deps"] for b in blocks) or len(set(ns)) < len(ns)


def cases(ctx):
    from vlib import corpus_cases

    for c in corpus_cases(ID):
        yield "corpus", c["blocks"]
    if ctx.tier == "quick":
        for b in exhaustive(2, NAMES, SCRIPTS, NAMES + ["z"], 2):
            yield "exhaustive", b
        nrand = 6000
    else:
        for b in exhaustive(2, NAMES, SCRIPTS, NAMES + ["z"], 2):
            yield "exhaustive", b
        for b in exhaustive(3, NAMES, [[], ["l1"], ["l3", "l4"]], NAMES, 1):
            yield "exhaustive3", b
        for b in exhaustive(4, ["a", "b"], [["l1"], ["l3"]], ["a", "b"], 1):
            yield "exhaustive4", b
        nrand = 60000
    for _ in range(nrand):
        yield "random", random_case(ctx.rng)


def run(ctx):
    batch, meta = [], []
    for stream, blocks in cases(ctx):
        meta.append((stream, blocks, impl(blocks)))
    ctx.check_time()
    reqs = []
    for stream, blocks, r in meta:
        reqs.append({"op": "gen", "blocks": blocks})
        reqs.append({"op": "spec", "blocks": blocks, "result": r})
    ans = ctx.driver(DRIVER, reqs)
    for i, (stream, blocks, r) in enumerate(meta):
        m, s = ans[2 * i], ans[2 * i + 1]
        ctx.count(f"stream:{stream}")
        ctx.count("impl:" + ("ok" if "ok" in r else r["err"]))
        if "err" in m:
            ctx.count("model-error:" + str(m["err"]))
        ctx.count(f"blocks:{min(len(blocks), 9)}")
        ctx.case(blocks, nontrivial(blocks), {"blocks": blocks, "implementation": r, "model": m})
        if "bad" in m or "bad" in s:
            continue  # driver failure already recorded as a broken obligation
        # the Spec, evaluated on what the implementation returned
        if not s.get("holds", False):
            ctx.violation(
                key="gen:" + repr(blocks),
                what=f"generate_script_block violates the block-order specification: {s.get('why')}",
                case={"blocks": blocks},
                observed=r,
                how="from func_adl_xAOD.common.meta_data import *; generate_script_block([JobScriptSpecification(name, script, depends_on) ...]) with the blocks of `case`",
            )
        # the tie: model and implementation agree
        if canon_model(m) != r:
            ctx.disagreement("generate_script_block", {"blocks": blocks}, canon_model(m), r)
    run_e2e(ctx)
    ctx.extra_cov["exhaustive"] = False
    ctx.extra_cov["exhaustive_part"] = "all block lists of <=2 blocks over 3 names x 4 scripts x dependency lists of <=2 entries from 4 names" + (
        "; <=3 blocks and <=4 blocks over reduced alphabets" if ctx.tier == "thorough" else ""
    )


def run_e2e(ctx):
    """End-to-end stream: the Spec on what the real pipeline inserts into ATestRun_eljob.py."""
    n = 250 if ctx.tier == "quick" else 3000
    meta = []
    for _ in range(n):
        b = random_case(ctx.rng)
        # script lines that survive a rendering round trip unchanged (no blank lines)
        meta.append((b, impl_e2e(b)))
    reqs = []
    for b, r in meta:
        reqs.append({"op": "gen", "blocks": b})
        reqs.append({"op": "spec", "blocks": b, "result": {"ok": r["ok"]} if "ok" in r else r})
    ans = ctx.driver(DRIVER, reqs)
    for i, (b, r) in enumerate(meta):
        m, s = ans[2 * i], ans[2 * i + 1]
        ctx.count("stream:end-to-end")
        ctx.count("e2e:" + ("ok" if "ok" in r else r["err"]))
        ctx.case(("e2e", b), nontrivial(b), {"blocks": b, "pipeline": r})
        if "bad" in m or "bad" in s:
            continue
        if not s.get("holds", False):
            ctx.violation(
                key="e2e:" + repr(b),
                what=f"the job-option lines the ATLAS pipeline inserts violate the block-order specification: {s.get('why')}",
                case={"blocks": b, "via": "MetaData add_job_script on an ATLAS query"},
                observed=r,
                how="attach the blocks (last block innermost) as add_job_script MetaData to Select(ds, lambda e: e.Jets(..).Count()) and translate with atlas_xaod_executor; look at job_option_additions / ATestRun_eljob.py",
            )
            continue
        if "ok" in r and r.get("region") is not None and r["region"] != r["ok"]:
            ctx.violation(
                key="e2e-render:" + repr(b),
                what="the lines rendered into ATestRun_eljob.py differ from the generated script (dropped, duplicated or reordered by the template)",
                case={"blocks": b},
                observed=r,
            )
        if ("ok" in canon_model(m)) != ("ok" in r):
            ctx.disagreement("pipeline accepts/refuses vs model", {"blocks": b}, canon_model(m), r)


def search(ctx, broken):
    """Run a larger random sweep with the Spec as the only judge."""
    meta = []
    for _ in range(20000):
        b = random_case(ctx.rng)
        meta.append((b, impl(b)))
    ans = ctx.driver(DRIVER, [{"op": "spec", "blocks": b, "result": r} for b, r in meta])
    best = None
    for (b, r), s in zip(meta, ans):
        if "bad" in s:
            return None
        if not s.get("holds", False):
            if best is None or len(b) < len(best[0]):
                best = (b, r, s)
    if best is None:
        return None
    b, r, s = shrink(ctx, *best)
    return {"key": "gen:" + repr(b), "what": s.get("why"), "case": {"blocks": b}, "observed": r}


def shrink(ctx, b, r, s):
    """Structural deletion: drop blocks, then dependencies, then script lines, while the Spec still fails."""
    changed = True
    while changed:
        changed = False
        cands = []
        for i in range(len(b)):
            cands.append(b[:i] + b[i + 1 :])
        for i, blk in enumerate(b):
            for j in range(len(blk["deps"])):
                cands.append(b[:i] + [{**blk, "deps": blk["deps"][:j] + blk["deps"][j + 1 :]}] + b[i + 1 :])
        if not cands:
            break
        rs = [impl(c) for c in cands]
        ans = ctx.driver(DRIVER, [{"op": "spec", "blocks": c, "result": x} for c, x in zip(cands, rs)])
        for c, x, a in zip(cands, rs, ans):
            if "bad" not in a and not a.get("holds", False):
                b, r, s = c, x, a
                changed = True
                break
    return b, r, s


def replay(ctx, rep) -> int:
    blocks = rep["case"]["blocks"]
    r = impl(blocks)
    s = ctx.driver(DRIVER, [{"op": "spec", "blocks": blocks, "result": r}])[0]
    print("implementation returned:", r)
    print("spec:", s)
    return 0 if s.get("holds") else 1

LEVEL_TEXT = (
    "Machine-checked proof (Lean 4) about a hand model of generate_script_block, for every finite list of blocks: "
    "soundness of the emitted order (each distinct block once, contiguous, after all its dependencies incl. those of "
    "repeated blocks), exact characterisation of the refusals (conflict / missing / cycle, nothing else), termination. "
    "The model is tied to the code on every run by running both on an exhaustive small space plus random lists; the "
    "decidable Spec is also evaluated directly on the implementation's outputs."
)
LEVEL_NOTE = (
    "Trusted: Lean kernel (axioms audited: propext, Classical.choice, Quot.sound only); the hand model's agreement with "
    "the Python is checked by differential execution, not proved; harness and generators; Python dict order. "
    "The insertion of the lines into ATestRun_eljob.py is covered under C14."
)
TECHNIQUE = "Lean 4 theorems over a hand model + correspondence check (differential execution) against generate_script_block"
DESIGN_REF = "DESIGN.md §4 C15"
