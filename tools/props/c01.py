"""C01 — the generated job computes exactly the rows and values the query denotes.

Theorems: lean/FaxVerif/C01/Theorems.lean (compiler correctness of the translator model
`Gen.compile` on the fragment F0-lite, for all queries of the fragment x all events).
Ties, each run:
  (1) text: `Gen.compile` vs the real translator on generated fragment queries, three backends,
      modulo a bijective renaming of declared identifiers;
  (2) meaning: the implementation's own emitted program, parsed and executed by the Lean semantics,
      vs the Lean denotation of the user-level query, on generated events — for the larger
      generated language (nesting, First, and/or, if-else, 2-D columns …).
"""
from __future__ import annotations

import json
import sys

import cgroup
import gentie
import pipeline as P
import qgen
from cgroup import Case
from cprop import CompilerProp

ID = "C01"
LEAN_MODULES = ["FaxVerif.C01.Theorems", "FaxVerif.C01.TheoremsMiniAod", "FaxVerif.C01.TheoremsLazy", "FaxVerif.C01.TheoremsNested", "FaxVerif.C01.TheoremsCapture"]
LEAN_SOURCES = ["FaxVerif/C01", "FaxVerif/Gen", "FaxVerif/Cpp", "FaxVerif/Linq"]
DRIVER = cgroup.DRIVER
SETUP_MODULES = cgroup.DRIVER_IMPORTS + ["FaxVerif.Gen.Lazy", "FaxVerif.Gen.Nested", "FaxVerif.Gen.Capture"]  # what the drivers import
THEOREMS = [
    "FaxVerif.C01.captured_expr_correct",
    "FaxVerif.C01.captured_loop_is_fold",
    "FaxVerif.C01.captured_aggregate_correct",
    "FaxVerif.C01.captured_retrieval_per_outer_element",
    "FaxVerif.C01.captureEventRows_correct_partial",
    "FaxVerif.C01.captured_twoD_column_correct_partial",
    "FaxVerif.C01.capture_token_table",
    "FaxVerif.C01.capture_job_correct_partial",
    "FaxVerif.C01.capture_job_split",
    "FaxVerif.C01.capture_job_prefix_independent",
    "FaxVerif.C01.capture_job_perm",
    "FaxVerif.C01.capture_outer_only_select_counterexample",
    "FaxVerif.Gen.celem_correct",
    "FaxVerif.Gen.cchainList_elems",
    "FaxVerif.Gen.compXE_correct",
    "FaxVerif.Gen.pushColT_correct",
    "FaxVerif.C01.inner_loop_is_fold",
    "FaxVerif.C01.inner_aggregate_correct",
    "FaxVerif.C01.nestedRows_correct_partial",
    "FaxVerif.C01.nestedEventRows_correct_partial",
    "FaxVerif.C01.twoD_column_correct_partial",
    "FaxVerif.Gen.compNE_correct",
    "FaxVerif.Gen.innerLoop_correct",
    "FaxVerif.Gen.pushCol_correct",
    "FaxVerif.C01.lazy_expr_correct",
    "FaxVerif.C01.lazy_expr_block_correct",
    "FaxVerif.C01.elemRowsL_correct_partial",
    "FaxVerif.C01.elemRowsL_correct_miniaod_partial",
    "FaxVerif.Gen.le_sound",
    "FaxVerif.Gen.andLowerL_correct",
    "FaxVerif.C01.eventRows_correct_miniaod_partial",
    "FaxVerif.C01.elemRows_correct_miniaod_partial",
    "FaxVerif.C01.miniaod_token_table",
    "FaxVerif.C01.backendOK_cmsMiniAod",
    "FaxVerif.C01.pure_expr_correct",
    "FaxVerif.C01.eventRows_correct_partial",
    "FaxVerif.C01.elemRows_correct_partial",
    "FaxVerif.C01.scalar_correct_partial",
    "FaxVerif.C01.loop_is_fold",
    "FaxVerif.Gen.andLower_correct",
    "FaxVerif.Gen.elem_correct",
    "FaxVerif.Gen.chainList_elems",
    "FaxVerif.Gen.count_correct",
    "FaxVerif.Gen.sum_correct",
    "FaxVerif.Gen.compCol_correct",
    "FaxVerif.Gen.compCols_correct",
    "FaxVerif.Gen.exec_decls",
    "FaxVerif.C01.backendOK_atlas",
    "FaxVerif.C01.backendOK_cmsAod",
]

# extensions built beside this module (general Aggregate; nesting of arbitrary depth): their theorems, modules, streams
from props import c01_agg  # noqa: E402
from props import c01_deep  # noqa: E402

THEOREMS += c01_agg.THEOREMS_AGG + c01_deep.THEOREMS_DEEP
LEAN_MODULES += c01_agg.LEAN_MODULES_AGG + c01_deep.LEAN_MODULES_DEEP
SETUP_MODULES += c01_agg.SETUP_MODULES_AGG + c01_deep.SETUP_MODULES_DEEP
RULE = (
    "stream 'tie': random queries of the fragment F0-lite (chains coll.{Select|Where}* with pure lambdas, Count/Sum, arithmetic, "
    "event-level rows with scalar and vector columns, element-level rows), model text vs implementation text on the three backends; "
    "stream 'nested-tie': random queries of the nested fragment (inner chains over method-returned collections inside lambdas: "
    "per-element Count/Sum vector columns, 2-D columns, element-level rows with inner aggregates), Gen.compileN text vs implementation "
    "text on the three backends, the model's package executed per event and as one job against denote; "
    "stream 'lazy-tie': random queries of the lazy fragment (element-level rows whose columns and Where conditions use n-ary and/or "
    "and if-else, arbitrarily nested), Gen.compileL text vs implementation text on the three backends, and the model's package "
    "executed on events with null elements against denote; "
    "stream 'capture-tie': random queries of the captured-variable fragment (inside the lambda over the elements of one event "
    "collection ANOTHER event collection is iterated, its Select / Where lambdas mention both loop variables: per-element Count/Sum "
    "vector columns and 2-D columns), Gen.compileC text vs implementation text on the three backends, the model's package executed per "
    "event and as one job against denote, every generated query checked by the driver to be inside the proved fragment; "
    "stream 'generated': type-directed random queries of the larger language (nesting <=3, First, and/or, if-else, Aggregate, 1-D/2-D "
    "columns, dict/tuple/list terminals) x 4 events, implementation's program executed by the Lean semantics vs Lean denotation. "
    "Non-trivial: >=2 distinct operators and >=1 event with a row; distinct = distinct (backend, query)."
)
TRUSTED_BASE = [
    "C++ semantics of the emitted statement subset (lean/FaxVerif/Cpp/Sem.lean) and Python/LINQ semantics of queries (lean/FaxVerif/Linq/Query.lean): written by hand, validated against each other through the real translator on every run; doubles are abstract in the theorems (all number models), the driver runs with Lean's Float",
    "tools/cparse.py (emitted text -> AST — compared on every program of every run with the Lean parser Cpp/Parse.lean, whose round trip with the printer is the theorem C02.parse_render (stream parse-tie: equal trees required)), tools/gentie.py canonicalisation (bijective renaming of declared identifiers, value of floating literals)",
    "func_adl's normalisations (aggregate shortcuts, chained-call simplification) are inside the real pipeline under test, not modelled: the theorems are about the model of their composition with the translator",
]
ASSUMPTIONS = [
    "EDM accessors are pure and return values of the declared kinds (hypothesis MethTyped of the theorems)",
    "theorems: success direction (the query denotes rows => the job writes them); all three backends (BackendBase: ATLAS, CMS AOD, CMS miniAOD with its token table — proved instances); a floating Sum ranges over >=1 element (SumNonEmpty)",
]
LEVEL_TEXT = (
    "Lean 4 compiler-correctness theorems for a compositional model of the translator on the fragment F0-lite, for every query of "
    "the fragment (unbounded chain length, expression size, number of columns), every event, every number model, END TO END for the "
    "whole emitted package: event-level rows with scalar (Count/Sum/arithmetic incl. the int/int division cast), vector and First "
    "columns (eventRows_correct_partial), element-level rows (elemRows_correct_partial) and element-level rows whose columns and Where conditions contain and / or / if-else in any nesting, lowered to guarded statements (elemRowsL_correct_partial; expression level in both directions: lazy_expr_correct, C04.lazy_expr_faults_equal), and NESTED iteration — a lambda whose body iterates a collection returned by a method of the element: per-element inner Count/Sum (accumulator declared in the outer loop body), 2-D vector columns with their storage vector, element-level rows with inner aggregates (inner_aggregate_correct, nestedEventRows_correct_partial, twoD_column_correct_partial, nestedRows_correct_partial), and CAPTURED-VARIABLE nested iteration — inside the lambda over one event collection another EVENT-LEVEL collection is iterated with Select / Where lambdas that mention both loop variables (2-variable pure expressions): per-outer-element Count/Sum and 2-D columns, the inner retrieval, its handle variable and the accumulator / storage vector inside the outer loop body, the outer variable still bound in the inner loop (captured_expr_correct, captured_loop_is_fold, captured_aggregate_correct, captureEventRows_correct_partial, captured_twoD_column_correct_partial, capture_token_table, capture_job_correct_partial with split / prefix / permutation corollaries) — on ATLAS, CMS AOD and — with the token table the package itself emits proved to bind every retrieval to its bank (miniaod_token_table) — CMS miniAOD (eventRows_correct_miniaod_partial, elemRows_correct_miniaod_partial, which also give the class state left behind); plus the building blocks: pure expressions "
    "with faults (pure_expr_correct), the loop as a fold (loop_is_fold), the fused-Where and-lowering, hoisted declarations. The model is tied to the real translator on every run by text equality on generated fragment queries (three "
    "backends). Beyond the fragment (nesting deeper than two loops, inner SelectMany, First inside expressions, and/or/if-else in Select bodies and event-level expressions, 2-D columns) the property is "
    "checked by executing the implementation's own output in the Lean semantics against the Lean denotation — differential, not proof."
)
LEVEL_NOTE = (
    "Proof frontier: F0-lite + lazy + nested + captured-variable fragments as stated (one level of loops nested inside lambdas: over method-returned collections with pure inner steps, or over another event collection with inner steps that mention the outer element (event-level rows only; every inner Select body mentions the inner variable — selsUseInner, the known hoisting defect, capture_outer_only_select_counterexample), and/or/if-else only in row columns and Where conditions of element-level rows (conditional arms floating), no 2-D columns); "
    "success direction only. Defect exclusions (listed in known_findings.jsonl with concrete "
    "inputs, the generator stays outside them): aggregates/First over SelectMany inside a lambda; lambda bodies that ignore their "
    "variable under First/aggregates; sequence-valued columns in element-level rows; Min/Max seeded with 0; Range with computed bounds; "
    "self-join through one shared node; bare collection-valued column."
)
TECHNIQUE = "Lean 4 compiler-correctness proof of a translator model + text correspondence with the real translator + differential execution (Lean semantics of emitted code vs Lean denotation)"
DESIGN_REF = "DESIGN.md §4 C01, §3.3"


def gen(ctx, i):
    return cgroup.gen_case(ctx.rng, backend=P.BACKENDS[i % 3], nevents=4)


def judge(c):
    r = c.result
    if not r["ok"]:
        return {"what": f"a well-typed query of the supported fragment is refused ({r['error']}: {r.get('message', '')[:160]})", "observed": r}
    a = c.answer
    if a is None or "bad" in a:
        return None
    for i, (ex, de) in enumerate(zip(cgroup.exec_outcomes(c), a["denote"])):
        ok, why = cgroup.same_outcome(ex, de)
        if not ok:
            if str(ex.get("fault", "")).startswith("does-not-compile"):
                return {"what": "the generated per-event code does not compile (g++ against the mock of the declared data model)", "observed": {"errors": ex.get("errors"), "body": r["query"]}}
            if cgroup.fault_class(ex) == "stuck" and ex["fault"].startswith("stuck:opaque"):
                return {"kind": "broken", "what": "emitted line not recognised by the statement parser", "observed": r["query"]}
            return {
                "what": f"on event {i} the generated code and the query disagree: {why}",
                "observed": {"event": i, "generated_code": ex, "query_denotes": de, "body": r["query"]},
            }
    return None


_P = CompilerProp(ID, gen, judge, 210, 2400, use_gxx=True)


# ---------------------------------------------------------------- text tie of the Gen model


def tie_stream(ctx, n):
    reqs, meta = [], []
    for i in range(n):
        b = P.BACKENDS[i % 3]
        fq = gentie.LiteGen(ctx.rng).fq()
        if not gentie.valid(fq):
            ctx.count("tie:regenerated")
            continue
        q, names = gentie.fq_query(fq)
        r = P.translate_functional(b, qgen.render_functional(q, qgen.metadata(b)))
        evs = [qgen.gen_event(ctx.rng, b, qgen.banks_used(q)) for _ in range(2)]
        reqs.append({"op": "compile", "backend": b, "colls": gentie.colls_json(b), "fq": fq, "events": evs})
        meta.append((b, fq, q, r, evs))
    outs = ctx.driver(DRIVER, reqs)
    for (b, fq, q, r, evs), o in zip(meta, outs):
        src = qgen.render_functional(q, [])
        ctx.count("stream:tie")
        ctx.count(f"tie:{fq['k']}")
        ctx.case(f"{b}|{src}", len(qgen.ops_used(q)) >= 2, {"backend": b, "fragment_query": src})
        if "bad" in o:
            continue
        if not r["ok"]:
            ctx.violation(key=f"{b}|{src}", what=f"a query of the proved fragment is refused ({r['error']})", case={"backend": b, "source": src, "fq": fq}, observed=r)
            continue
        d = gentie.first_diff(gentie.model_canon(o), gentie.impl_canon(r))
        if d is None:
            ctx.count("tie:text-agree")
        else:
            ctx.count("tie:text-differ")
            ctx.disagreement("Gen.compile vs translator (text modulo renaming)", {"backend": b, "source": src, "fq": fq, "first_difference": d}, o.get("body"), r["query"])
        # the model against its own denotation on events (executable instance of the theorems)
        for ex, de in zip(o["exec"], o["denote"]):
            ok, why = cgroup.same_outcome(ex, de)
            if not ok:
                ctx.disagreement("Gen.compile executed vs denote (model instance)", {"backend": b, "source": src, "fq": fq}, ex, de)
                break


def lazy_tie_stream(ctx, n):
    """text tie of Gen.compileL (and / or / if-else inside element-level expressions) with the real translator"""
    import gentie_lazy

    agree, total, first = gentie_lazy.run_stream(ctx, n)
    if first is None:
        return
    case = {"backend": first.get("backend"), "source": first.get("source"), "fq": first.get("fq"), "first_difference": first.get("first_difference")}
    if first.get("kind") == "refused":
        ctx.violation(key=f"lazy|{first.get('backend')}|{first.get('source')}", what=first.get("what"), case=case, observed=first.get("what"))
    elif first.get("kind") == "model-instance":
        ctx.disagreement("Gen.compileL executed vs denote (model instance)", case, first.get("exec"), first.get("denote"))
    else:
        ctx.disagreement("Gen.compileL vs translator (lazy fragment, text modulo renaming)", case, first.get("model_body"), first.get("impl_body") or first.get("what"))


def nested_tie_stream(ctx, n):
    """text tie of Gen.compileN (loops nested inside lambdas: inner aggregates, 2-D columns) with the real translator"""
    import gentie_nested

    agree, total, first = gentie_nested.run_stream(ctx, n)
    if first is None:
        return
    case = {"backend": first.get("backend"), "source": first.get("source"), "fq": first.get("fq") or first.get("nq"), "first_difference": first.get("first_difference")}
    if first.get("kind") == "refused":
        ctx.violation(key=f"nested|{first.get('backend')}|{first.get('source')}", what=first.get("what"), case=case, observed=first.get("what"))
    elif first.get("kind") == "model-instance":
        ctx.disagreement("Gen.compileN executed vs denote (model instance)", case, first.get("exec"), first.get("denote"))
    else:
        ctx.disagreement("Gen.compileN vs translator (nested fragment, text modulo renaming)", case, first.get("model_body"), first.get("impl_body") or first.get("what"))


def capture_tie_stream(ctx, n):
    """text tie of Gen.compileC (another event collection iterated inside the lambda over one collection, with predicates /
    projections that mention both loop variables) with the real translator. A text disagreement is not yet a violation:
    the IMPLEMENTATION's own output for the disagreeing queries is executed on their events against the denotation
    (the differential machinery of the 'generated' stream) — the first one that computes other rows is reported as a
    concrete failing input."""
    import gentie_capture

    agree, total, first = gentie_capture.run_stream(ctx, n)
    if first is None:
        return
    case = {"backend": first.get("backend"), "source": first.get("source"), "fq": first.get("cq"), "first_difference": first.get("first_difference")}
    if first.get("kind") == "refused":
        ctx.violation(key=f"capture|{first.get('backend')}|{first.get('source')}", what=first.get("what"), case=case, observed=first.get("what"))
        return
    texts = [d for d in gentie_capture.LAST_DISAGREEMENTS if d.get("kind") == "text"][:12]
    cases = []
    for d in texts:
        q, names = gentie_capture.cq_query(d["cq"])
        # fresh, well-formed events (the tie's own events may carry null links / objects without an accessor, which the
        # g++ mock of the data model does not render)
        evs = [gentie_capture.gen_event(ctx.rng, d["backend"], d["cq"], False) for _ in range(4)]
        cases.append(Case(d["backend"], q, names, "capture", evs))
    if cases:
        ctx.count("capture-tie:text-disagreements-executed", len(cases))
        _P.evaluate(ctx, cases)
        for c in cases:
            hit = judge(c)
            if hit is not None and hit.get("kind") != "broken":
                ctx.violation(key=c.key(), what=hit["what"], case=c.to_json(), observed=hit.get("observed"), how=_P.how)
                return
    if first.get("kind") == "model-instance":
        ctx.disagreement("Gen.compileC executed vs denote (model instance)", case, first.get("exec") or first.get("job"), first.get("denote") or first.get("want"))
    else:
        ctx.disagreement("Gen.compileC vs translator (captured-variable fragment, text modulo renaming)", case, first.get("model_body"), first.get("impl_body") or first.get("what"))


JOBCFG = {"cms_aod": "analyzer_cfg.py", "cms_miniaod": "analyzer_cfg.py"}


def jobcfg_stream(ctx):
    """The job must run over EVERY event of EVERY listed file, or its rows are not the rows the query denotes.
    The CMS job configuration is itself a program (`analyzer_cfg.py`, rendered from the template): it is executed here
    against a stub of `FWCore.ParameterSet.Config` with file lists of 1-3 entries, with and without a final newline,
    and must ask for all events (`maxEvents.input = -1`) and list exactly the given files, in order.
    (No theorem behind this clause: the configuration's run-time logic is not modelled — DESIGN §8. The ATLAS job
    options are executed by `eljob_stream`.)"""
    import os
    import subprocess
    import tempfile

    stub = (
        "import sys, types, json\n"
        "class _O:\n"
        "    def __init__(self, *a, **k): self.a, self.k = a, k\n"
        "    def __getattr__(self, n): return _O\n"
        "class _Proc:\n"
        "    def __init__(self, *a): pass\n"
        "    def load(self, *a): pass\n"
        "cfg = types.ModuleType('FWCore.ParameterSet.Config')\n"
        "cfg.Process = _Proc\n"
        "class _U:\n"
        "    def __getattr__(self, n): return _O\n"
        "cfg.untracked = _U()\n"
        "for n in ('Source', 'EDAnalyzer', 'Service', 'Path', 'string', 'int32', 'vstring', 'PSet'): setattr(cfg, n, _O)\n"
        "for m in ('FWCore', 'FWCore.ParameterSet'): sys.modules[m] = types.ModuleType(m)\n"
        "sys.modules['FWCore.ParameterSet.Config'] = cfg\n"
        "ns = {}\n"
        "exec(compile(open(sys.argv[1]).read(), sys.argv[1], 'exec'), ns)\n"
        "p = ns['process']\n"
        "print(json.dumps({'maxEvents': p.maxEvents.k['input'].a[0], 'files': list(p.source.k['fileNames'].a)}))\n"
    )
    for b, fname in JOBCFG.items():
        q = {"k": "Select", "s": {"k": "ds"}, "x": "e1", "f": {"k": "Count", "s": {"k": "coll", "e": {"k": "var", "n": "e1"}, "c": "As", "bank": "ba"}}}
        r = P.translate_functional(b, qgen.render_functional(q, qgen.metadata(b)))
        text = (r.get("files") or {}).get(fname) if r.get("ok") else None
        if not text:
            ctx.disagreement("job configuration file not rendered", {"backend": b, "file": fname}, "present", "absent")
            continue
        for files in (["/data/a.root"], ["/data/a.root", "/data/b.root"], ["/data/b.root", "/data/a.root", "/data/c.root"]):
            for final_newline in (True, False):
                d = tempfile.mkdtemp(prefix="vp_jobcfg_")
                try:
                    open(os.path.join(d, "analyzer_cfg.py"), "w").write(text)
                    open(os.path.join(d, "filelist.txt"), "w").write("\n".join(files) + ("\n" if final_newline else ""))
                    open(os.path.join(d, "stub.py"), "w").write(stub)
                    p = subprocess.run([sys.executable, "stub.py", "analyzer_cfg.py"], cwd=d, capture_output=True, text=True, timeout=60, env=dict(os.environ, CMS_OUTPUT_FILE="ANALYSIS.root"))
                finally:
                    import shutil

                    shutil.rmtree(d, ignore_errors=True)
                key = f"jobcfg:{b}:{len(files)} files:{'newline' if final_newline else 'no final newline'}"
                ctx.count("stream:jobcfg")
                ctx.case(key, True, {"backend": b, "files": files})
                if p.returncode != 0:
                    ctx.disagreement("job configuration could not be executed against the FWCore stub", {"backend": b, "files": files}, None, p.stderr[-600:])
                    continue
                got = json.loads(p.stdout.strip().splitlines()[-1])
                want = ["file:" + x for x in files]
                if got["maxEvents"] != -1:
                    ctx.violation(key=f"jobcfg:{b}:maxEvents", what=f"the {b} job configuration asks for {got['maxEvents']} events (maxEvents.input), not for all of them (-1): a job over more events writes the rows of the first {got['maxEvents']} only",
                                  case={"backend": b, "file": fname, "files": files}, observed=got, how="render the package, execute analyzer_cfg.py against a stub of FWCore.ParameterSet.Config, read process.maxEvents")
                elif [x.strip() for x in got["files"]] != want:
                    ctx.violation(key=key, what="the job configuration does not list exactly the files of filelist.txt, in order", case={"backend": b, "file": fname, "files": files, "final_newline": final_newline},
                                  observed=got, how="render the package, execute analyzer_cfg.py against a stub of FWCore.ParameterSet.Config with this filelist.txt")


ELJOB_STUB = r"""
import sys, types, json
LOG = {'submitted': None}
def _readlines(path):
    # what SH::readFileList does: one input file per line, blank lines and lines starting with '#' skipped, order and repetitions kept
    out = []
    for ln in open(path).read().split('\n'):
        t = ln.strip()
        if t and not t.startswith('#'):
            out.append(t)
    return out
class SampleLocal:
    def __init__(self, name): self.name, self.files = name, []
    def add(self, f): self.files.append(str(f))
class SampleHandler:
    def __init__(self): self.samples, self.meta = [], {}
    def setMetaString(self, k, v): self.meta[k] = v
    def add(self, s): self.samples.append(s)
    def printContent(self): pass
    def __iter__(self): return iter(self.samples)
def readFileList(sh, name, path):
    s = SampleLocal(name)
    for f in _readlines(path): s.add(f)
    sh.add(s)
class Job:
    def __init__(self): self.sh, self.algs, self.outs = None, [], []
    def sampleHandler(self, sh): self.sh = sh
    def algsAdd(self, a): self.algs.append(a)
    def outputAdd(self, o): self.outs.append(o)
    def options(self): return types.SimpleNamespace(setDouble=lambda *a: None, setString=lambda *a: None)
class OutputStream:
    def __init__(self, name): self.name = name
class DirectDriver:
    def submit(self, job, d):
        LOG['submitted'] = {'dir': d, 'samples': [{'name': s.name, 'files': list(s.files)} for s in (job.sh.samples if job.sh else [])],
                            'algs': [getattr(a, 'n', str(a)) for a in job.algs], 'outputs': [o.name for o in job.outs],
                            'tree': (job.sh.meta if job.sh else {}).get('nc_tree')}
class _Ign:
    def ignore(self): pass
class _Other:
    # anything else of ROOT the job options may instantiate: remembered by name, so that it shows in what the driver was given
    def __init__(self, n): self.n = n
    def __call__(self, *a, **k): return _Other(self.n)
    def __getattr__(self, a): return _Other(self.n + '.' + a)
class _NS:
    def __init__(self, prefix, **known): self.__dict__.update(known); self._p = prefix
    def __getattr__(self, a): return _Other(self._p + a)
ROOT = types.ModuleType('ROOT')
ROOT.xAOD = types.SimpleNamespace(Init=lambda *a: _Ign())
ROOT.SH = _NS('SH.', SampleHandler=SampleHandler, SampleLocal=SampleLocal, readFileList=readFileList)
ROOT.EL = _NS('EL.', Job=Job, OutputStream=OutputStream, DirectDriver=DirectDriver)
sys.modules['ROOT'] = ROOT
ana = types.ModuleType('AnaAlgorithm'); duc = types.ModuleType('AnaAlgorithm.DualUseConfig')
class _Alg:
    def __init__(self, t, n): self.t, self.n = t, n
duc.createAlgorithm = lambda t, n: _Alg(t, n)
sys.modules['AnaAlgorithm'] = ana; sys.modules['AnaAlgorithm.DualUseConfig'] = duc
script = sys.argv[1]; sys.argv = [script] + sys.argv[2:]
exec(compile(open(script).read(), script, 'exec'), {'__name__': '__main__'})
print(json.dumps(LOG['submitted']))
"""


def eljob_stream(ctx):
    """ATLAS counterpart of `jobcfg_stream`: the rendered job options `ATestRun_eljob.py` are executed against a stand-in
    for PyROOT's SampleHandler / EventLoop (readFileList: one input per line, order and repetitions kept) and must
    submit ONE job whose sample lists exactly the files of filelist.txt, in order, with multiplicity, reading the
    CollectionTree, running the `query` algorithm and writing the ANALYSIS stream. (No theorem: run-time logic of a
    template that is itself a program — DESIGN §8.)"""
    import os
    import subprocess
    import tempfile

    q = {"k": "Select", "s": {"k": "ds"}, "x": "e1", "f": {"k": "Count", "s": {"k": "coll", "e": {"k": "var", "n": "e1"}, "c": "As", "bank": "ba"}}}
    r = P.translate_functional("atlas", qgen.render_functional(q, qgen.metadata("atlas")))
    text = (r.get("files") or {}).get("ATestRun_eljob.py") if r.get("ok") else None
    if not text:
        ctx.disagreement("job options file not rendered", {"backend": "atlas", "file": "ATestRun_eljob.py"}, "present", "absent")
        return
    lists = (["/data/a.root"], ["/data/b.root", "/data/a.root"], ["/data/b.root", "/data/a.root", "/data/c.root"],
             ["/data/a.root", "/data/a.root"], ["/data/b.root", "/data/a.root", "/data/b.root"])
    for files in lists:
        for final_newline in (True, False):
            d = tempfile.mkdtemp(prefix="vp_eljob_")
            try:
                open(os.path.join(d, "ATestRun_eljob.py"), "w").write(text)
                open(os.path.join(d, "filelist.txt"), "w").write("\n".join(files) + ("\n" if final_newline else ""))
                open(os.path.join(d, "stub.py"), "w").write(ELJOB_STUB)
                p = subprocess.run([sys.executable, "stub.py", "ATestRun_eljob.py", "--submission-dir", "bogus"], cwd=d, capture_output=True, text=True, timeout=60)
            finally:
                import shutil

                shutil.rmtree(d, ignore_errors=True)
            key = f"eljob:atlas:{','.join(os.path.basename(f) for f in files)}:{'newline' if final_newline else 'no final newline'}"
            ctx.count("stream:eljob")
            ctx.case(key, True, {"backend": "atlas", "files": files})
            if p.returncode != 0 or not p.stdout.strip():
                ctx.disagreement("ATLAS job options could not be executed against the PyROOT stand-in", {"backend": "atlas", "files": files}, None, (p.stderr or p.stdout)[-600:])
                continue
            got = json.loads(p.stdout.strip().splitlines()[-1])
            how = "render the package, execute ATestRun_eljob.py against a stand-in for ROOT.SH / ROOT.EL with this filelist.txt, read what the driver was given"
            case = {"backend": "atlas", "file": "ATestRun_eljob.py", "files": files, "final_newline": final_newline}
            if got is None:
                ctx.violation(key=key, what="the ATLAS job options never submit a job", case=case, observed=got, how=how)
                continue
            seen = [f for s_ in got["samples"] for f in s_["files"]]
            if seen != files:
                ctx.violation(key=key, what="the ATLAS job does not run over exactly the files of filelist.txt (in order, with multiplicity): the rows written are not the rows the query denotes on the listed input",
                              case=case, observed=got, how=how)
            elif got.get("dir") != "bogus" or "ANALYSIS" not in got.get("outputs", []) or got.get("tree") != "CollectionTree" or got.get("algs") != ["AnalysisAlg"]:
                ctx.violation(key=key + ":job", what="the ATLAS job is not submitted to the requested directory with the query algorithm alone (anything else in the algorithm sequence can veto or alter events), the CollectionTree input and the ANALYSIS output stream",
                              case=case, observed=got, how=how)


def run(ctx):
    n_tie = 240 if ctx.tier == "quick" else 3000
    _P.known(ctx)
    jobcfg_stream(ctx)
    eljob_stream(ctx)
    tie_stream(ctx, n_tie)
    lazy_tie_stream(ctx, 90 if ctx.tier == "quick" else 1500)
    nested_tie_stream(ctx, 90 if ctx.tier == "quick" else 1500)
    capture_tie_stream(ctx, 66 if ctx.tier == "quick" else 900)
    c01_agg.stream(ctx)
    c01_deep.stream(ctx)
    # the differential stream (known findings were replayed above)
    saved = _P.known
    _P.known = lambda c: None
    try:
        _P.run(ctx)
    finally:
        _P.known = saved


search, replay = _P.search, _P.replay
