"""C18 — constants in a query denote the same value in the generated code.

Model / lexer / Spec: lean/FaxVerif/C18/*.lean.
Tie T: the per-character table of `as_cpp_string_literal` (evaluated on every Unicode scalar value)
       and the booking / fill lines of the three backends (run on sentinel names) are regenerated
       into lean/FaxVerif/Generated/C18Tables.lean on every run; theorems over them are re-checked.
Tie K: `visit_Constant` (real visitor objects of the three backends) against `renderConst` on
       generated constants of every kind; the real pipeline (apply_ast_transformations +
       write_cpp_files) on all three backends with a constant in every position (method argument,
       comparison, arithmetic operand, column value, bank, tree name, column name, dict key); the
       real booking emitters against the model's lines; stored constants: queries whose value is one of their
       numeric constants (conditional expressions nested to depth 3 under random tests, as one column, in tuples and
       dicts) — the conversions each constant undergoes on its way into the column, read off the generated loop
       body, against the model's (`Carrier.columnPaths`); operands: 29 expression templates (a constant after binary `-`/`+`,
       under unary signs, inside `**`, as method / function argument, in comparisons, in arms and test of a conditional)
       with negative numbers as one Constant node AND as the parser's UnaryOp(USub, Constant) — the right-hand side of the
       column assignment against the model's text (`renderE`), tokenized / parsed / compared by the Lean driver (`ExprOk`);
       the operator tables of the translator are regenerated into C18Tables.lean (`emittedOps`); the First() message line.
Oracle: the decidable Spec (`OutcomeOk`, `constAfter`, `nameAt`, `roundsTo`) evaluated by the Lean
       driver on what the IMPLEMENTATION emitted; and g++ itself: the emitted literals are compiled
       into an echo program whose bytes / bits / types are compared with the Python values; for stored constants
       `StoredOk` (literal of the constant + exact C++ conversions along the declared types) through the driver, and
       the generated loop body compiled and run on mock objects: what the column receives against Python's value.
"""
from __future__ import annotations

import ast
import concurrent.futures
import json
import logging
import math
import os
import re
import shutil
import struct
import subprocess
import sys
import tempfile
from pathlib import Path
from typing import Any, Dict, List, Optional, Tuple

ID = "C18"
LEAN_MODULES = ["FaxVerif.C18.Theorems", "FaxVerif.C18.TheoremsContext", "FaxVerif.C18.TheoremsExpr", "FaxVerif.C18.TheoremsDigits"]
LEAN_SOURCES = ["FaxVerif/C18", "FaxVerif/Generated/C18Tables.lean"]
DRIVER = "FaxVerif/C18/Driver.lean"
THEOREMS = [
    "FaxVerif.C18.escape_table_ok",
    "FaxVerif.C18.escape_shape_ok",
    "FaxVerif.C18.escape_table_question",
    "FaxVerif.C18.all_names_escaped",
    "FaxVerif.C18.book_lines_ok",
    "FaxVerif.C18.name_slots_present",
    "FaxVerif.C18.str_roundtrip",
    "FaxVerif.C18.str_const_ok",
    "FaxVerif.C18.str_in_context",
    "FaxVerif.C18.render_trigraph_free",
    "FaxVerif.C18.str_roundtrip_trigraphs",
    "FaxVerif.C18.str_in_context_trigraphs",
    "FaxVerif.C18.cstr_roundtrip_partial",
    "FaxVerif.C18.cstr_nul_counterexample",
    "FaxVerif.C18.bool_roundtrip",
    "FaxVerif.C18.unsupported_rejected",
    "FaxVerif.C18.int_roundtrip_partial",
    "FaxVerif.C18.int_value_partial",
    "FaxVerif.C18.int_const_ok_partial",
    "FaxVerif.C18.int_counterexample",
    "FaxVerif.C18.int_huge_counterexample",
    "FaxVerif.C18.float_roundtrip",
    "FaxVerif.C18.float_const_ok",
    "FaxVerif.C18.nonfinite_rejected",
    "FaxVerif.C18.int_not_glued",
    "FaxVerif.C18.float_not_glued",
    "FaxVerif.C18.str_not_glued",
    "FaxVerif.C18.negative_after_minus",
    "FaxVerif.C18.const_ok_partial",
    "FaxVerif.C18.const_ok_counterexample",
    "FaxVerif.C18.storable_literal",
    "FaxVerif.C18.carrier_stored_ok",
    "FaxVerif.C18.stored_counterexamples",
    "FaxVerif.C18.ifexp_str_rejected",
    "FaxVerif.C18.bank_roundtrip",
    "FaxVerif.C18.bank_roundtrip_trigraphs",
    "FaxVerif.C18.names_roundtrip",
    "FaxVerif.C18.names_roundtrip_trigraphs",
    "FaxVerif.C18.names_roundtrip_on_repaired_inputs",
    # a constant as an operand (TheoremsContext.lean)
    "FaxVerif.C18.emitted_ops_ok",
    "FaxVerif.C18.emitted_ops_are_the_models",
    "FaxVerif.C18.operand_tokens",
    "FaxVerif.C18.operand_tokens_in_context",
    "FaxVerif.C18.operand_lexes_in_context",
    "FaxVerif.C18.const_context_safe",
    "FaxVerif.C18.const_ok_context_safe_partial",
    "FaxVerif.C18.glued_sign_counterexample",
    "FaxVerif.C18.exprok_witnesses",
    "FaxVerif.C18.int_literal_type",
    "FaxVerif.C18.int_literal_type_boundaries",
    "FaxVerif.C18.first_message_roundtrip",
    # the rendered operand expression is the query's expression (TheoremsExpr.lean)
    "FaxVerif.C18.operand_parse",
    "FaxVerif.C18.exprok_model_partial",
    "FaxVerif.C18.exprok_int_counterexample",
    "FaxVerif.C18.exprok_keyword_counterexample",
    "FaxVerif.C18.string_at_every_landing_place",
    # decimal digits of a double literal (TheoremsDigits.lean)
    "FaxVerif.C18.seventeen_digits_round_trip",
    "FaxVerif.C18.seventeen_digits_round_trip_at_binade_boundary",
    "FaxVerif.C18.digits_vs_bits",
    "FaxVerif.C18.fifteen_digits_do_not",
    "FaxVerif.C18.seventeen_digit_witnesses",
    "FaxVerif.C18.fifteen_digits_counterexample",
    "FaxVerif.C18.sixteen_digits_counterexample",
    "FaxVerif.C18.roundsTo_of_grid",
    "FaxVerif.C18.seventeen_digits_roundsTo",
]
RULE = (
    "unit stream: constants of every kind handed to visit_Constant of the real visitors — strings over an alphabet "
    "weighted towards quotes, backslashes, LF/CR/TAB, '?', control characters, NUL, Latin-1, BMP and astral characters "
    "(length 0-12, sometimes 200); ints of the 32-bit range incl. both bounds; floats from random 64-bit patterns, "
    "decimal roundings, powers of ten around repr's notation switches (1e-4, 1e16), subnormals, extremes, -0.0; bools; "
    "None/bytes/complex/Ellipsis/tuple and inf/nan as refusals. pipeline stream: one query per (backend, position, "
    "constant) through apply_ast_transformations + write_cpp_files. book / names streams: the real booking emitters and the "
    "whole pipeline on random tree names, column names and dict keys over all characters (quotes, backslashes, LF/CR, '?' "
    "included; column names sent through the pipeline without LF/CR). stored stream: per-object Select whose value is one of its "
    "constants — a bare constant (numeric or string) or conditional expressions nested up to depth 3 (a string arm, rare, must be refused with ValueError) (every ordered pair of kinds int / "
    "fractional float / integral float / bool in the two arms first, then random trees; tests drawn from 12 comparisons on "
    "pt()/eta() combined with and/or/not; negative numbers as one Constant node or as the parser's UnaryOp; one column, tuple or "
    "dict; 25% through qastle), judged by StoredOk on the conversion chain read off the generated loop body and by running the "
    "compiled loop body on 4 mock objects. operand stream: 29 expression templates over j.pt(), j.eta() and 1-3 numeric constants (after binary -/+, "
    "* and /, under unary - and +, nested signs, inside **, as argument of a method / of sin / cos, in comparisons, in the arms and the test of a "
    "conditional), every template first with a negative float and a negative int both as one Constant node and as UnaryOp(USub, Constant), and a "
    "positive float under UnaryOp(UAdd), then random constants (ints of the 32-bit range, floats as in the unit stream, -0.0, +-2.5e-07, +-1e22, "
    "subnormals, -DBL_MAX) and forms, 20% through qastle; judged by ExprOk (Lean tokenizer with maximal munch + precedence parser + comparison with "
    "the query's expression) on the right-hand side of the column assignment, and by g++ running the generated loop body on 4 mock objects against "
    "Python's value of the same lambda (4 ulp for pow / sin / cos). unit stream additionally: ContextSafe of every emitted constant text. first-message "
    "stream: First() over a bank named by a generated string — the throw line must be one string literal (both dialects, Lean lexer and g++) followed by `);`. "
    "A case is non-trivial when the constant is none of the six the repo's tests use in kind and shape: "
    "a string with a character outside [A-Za-z0-9_ ], an int with |n|>9, a float whose repr has an exponent or more "
    "than 4 characters, a refusal, or any pipeline/book case with such a constant; distinct = distinct (stream, "
    "position, backend, constant)."
)
TRUSTED_BASE = [
    "hand model of visit_Constant / as_cpp_string_literal / the booking lines (Model.lean), tied by the regenerated tables (T) and the correspondence streams (K) of this run",
    "the C++ lexing rules for string, integer and floating literals as transcribed in Model.lean (LP64 types, trigraph phase), validated on every run against g++ 12 on the emitted literals and on a set of hand-written literals",
    "CPython's repr(float): a float enters the model as the text repr prints; that this text rounds to the float is checked on every sampled float by exact integer arithmetic in Lean (roundsTo), not proved",
    "g++ converts a decimal floating literal to the nearest double (checked bit-for-bit on the sample by the echo program)",
    "UTF-8 as the encoding Python writes the generated files in and g++ reads them in; strings are modelled as lists of Unicode scalar values",
    "the harness tools/props/c18.py (generators, anchors that locate a constant in a generated line, canonicalisation)",
    "operands: the C++ tokenizer (maximal munch over the punctuators of [lex.operators] without digraphs and <=>; pp-numbers; identifiers; string literals) and the precedence parser of Expr.lean (unary sign > * / % > + - > relational > equality, left associative, calls, static_cast) as transcribed; validated on every run by g++ compiling and running the same generated loop bodies, whose results are compared with Python's evaluation of the query's lambda",
    "stored constants: the C++ arithmetic conversions as transcribed in Spec.lean (convTo: LP64, binary64, truncation toward zero, int->double exact below 2^53), the harness's reader of declarations / assignments / static_casts of the generated loop body (a form it does not know is a broken correspondence, never a pass), and the mock object + g++ run that checks both on every case",
]
ASSUMPTIONS = [
    "constants arrive as ast.Constant nodes (Python 3.8+); visit_Num / visit_Str are dead code under Python 3.12 and are not exercised",
    "strings contain no lone surrogates (they cannot be written to the generated file: UnicodeEncodeError at write time)",
    "LP64 data model (int 32 bit, long 64 bit) for the type of an integer literal",
    "which C++ dialect compiles the generated code is decided by the experiments' build systems, outside /repo: the string theorems cover both C++17-or-GNU lexing (str_roundtrip) and ISO C++ before 17 with trigraph replacement (str_roundtrip_trigraphs)",
]

BACKENDS = {
    "atlas": {"coll": "Jets", "main": "query.cxx", "decl": "query.h"},
    "cms_aod": {"coll": "Muons", "main": "Analyzer.cc", "decl": "Analyzer.cc"},
    "cms_miniaod": {"coll": "Muons", "main": "Analyzer.cc", "decl": "Analyzer.cc"},
}
GEN_FILE = "FaxVerif/Generated/C18Tables.lean"


# --------------------------------------------------------------------------------------------
# small helpers
# --------------------------------------------------------------------------------------------
def cp(s: str) -> List[int]:
    return [ord(c) for c in s]


def uncp(l: Optional[List[int]]) -> Optional[str]:
    return None if l is None else "".join(chr(c) for c in l)


def has_surrogate(s: str) -> bool:
    return any(0xD800 <= ord(c) < 0xE000 for c in s)


_REPR = re.compile(r"^(-?)(\d+)(?:\.(\d+))?(?:e([+-])(\d+))?$")


def float_json(x: float) -> Dict[str, Any]:
    """The constant as the model wants it: the structure of the text CPython's repr prints."""
    r = repr(x)
    if r in ("inf", "-inf", "nan"):
        return {"k": "float", "bits": str(bits_of(x)), "special": r}
    m = _REPR.match(r)
    if not m:
        return {"k": "float", "unparsed": r}
    sign, ip, fp, es, ed = m.groups()
    return {
        "k": "float",
        "bits": str(bits_of(x)),
        "fin": {
            "neg": sign == "-",
            "ip": [int(c) for c in ip],
            "fp": None if fp is None else [int(c) for c in fp],
            "ex": None if ed is None else {"neg": es == "-", "d": [int(c) for c in ed]},
        },
    }


def const_json(v: Any) -> Optional[Dict[str, Any]]:
    t = type(v)
    if t is str:
        return None if has_surrogate(v) else {"k": "str", "cp": cp(v)}
    if t is bool:
        return {"k": "bool", "v": v}
    if t is int:
        return {"k": "int", "v": str(v)}
    if t is float:
        return float_json(v)
    return {"k": "other", "t": t.__name__}


def value_of(case_const: Dict[str, Any]) -> Any:
    """inverse of `describe` (for replay files / known findings)"""
    k = case_const["kind"]
    if k == "str":
        return uncp(case_const["cp"])
    if k == "int":
        return int(case_const["v"])
    if k == "float":
        return struct.unpack("<d", struct.pack("<Q", int(case_const["bits"])))[0]
    if k == "bool":
        return bool(case_const["v"])
    return {"NoneType": None, "bytes": b"ab", "complex": 1j, "ellipsis": Ellipsis, "tuple": (1, 2)}[case_const["t"]]


def bits_of(x: float) -> int:
    return struct.unpack("<Q", struct.pack("<d", x))[0]


def describe(v: Any) -> Dict[str, Any]:
    t = type(v)
    if t is str:
        return {"kind": "str", "cp": cp(v), "repr": repr(v)}
    if t is bool:
        return {"kind": "bool", "v": v}
    if t is int:
        return {"kind": "int", "v": str(v)}
    if t is float:
        return {"kind": "float", "bits": str(bits_of(v)), "repr": repr(v)}
    return {"kind": "other", "t": t.__name__}


def nontrivial_const(v: Any) -> bool:
    t = type(v)
    if t is str:
        return bool(re.search(r"[^A-Za-z0-9_ ]", v))
    if t is bool:
        return False
    if t is int:
        return abs(v) > 9
    if t is float:
        r = repr(v)
        return "e" in r or len(r) > 4 or r in ("inf", "-inf", "nan")
    return True


# --------------------------------------------------------------------------------------------
# the real code
# --------------------------------------------------------------------------------------------
def visitor(backend: str):
    if backend == "atlas":
        from func_adl_xAOD.atlas.xaod.query_ast_visitor import atlas_xaod_query_ast_visitor as V
    elif backend == "cms_aod":
        from func_adl_xAOD.cms.aod.query_ast_visitor import cms_aod_query_ast_visitor as V
    else:
        from func_adl_xAOD.cms.miniaod.query_ast_visitor import cms_miniaod_query_ast_visitor as V
    return V()


def executor(backend: str):
    if backend == "atlas":
        from func_adl_xAOD.atlas.xaod.executor import atlas_xaod_executor as E
    elif backend == "cms_aod":
        from func_adl_xAOD.cms.aod.executor import cms_aod_executor as E
    else:
        from func_adl_xAOD.cms.miniaod.executor import cms_miniaod_executor as E
    return E()


def impl_const(v: Any, backend: str = "atlas") -> Dict[str, Any]:
    """visit_Constant of the real visitor on one constant."""
    try:
        rep = visitor(backend).get_rep(ast.Constant(value=v))
        return {"ok": {"text": rep.as_cpp(), "ty": str(rep.cpp_type())}}
    except Exception as e:  # the class is the observable
        return {"err": type(e).__name__}


def out_json(r: Dict[str, Any]) -> Dict[str, Any]:
    if "ok" in r:
        return {"ok": {"text": cp(r["ok"]["text"]), "ty": r["ok"]["ty"]}}
    return {"err": r["err"]}


def canon_model(m: Dict[str, Any]) -> Dict[str, Any]:
    if "ok" in m:
        return {"ok": {"text": uncp(m["ok"]["text"]), "ty": m["ok"]["ty"]}}
    if m.get("err") in ("nonFinite", "unsupported"):
        return {"err": "ValueError"}
    return m


class _Sub(ast.NodeTransformer):
    def __init__(self, m):
        self.m = m

    def visit_Name(self, n):
        if n.id in self.m:
            return ast.copy_location(ast.Constant(value=self.m[n.id]), n)
        return n


def build_ast(src: str, m: Dict[str, Any]) -> ast.AST:
    a = ast.parse(src).body[0].value  # type: ignore
    a = _Sub(m).visit(a)
    ast.fix_missing_locations(a)
    return a


def run_query(backend: str, a: ast.AST) -> Dict[str, Any]:
    """The public pipeline: apply_ast_transformations + write_cpp_files; returns the file texts."""
    d = Path(tempfile.mkdtemp(prefix="c18q"))
    try:
        exe = executor(backend)
        a2 = exe.apply_ast_transformations(a)
        info = exe.write_cpp_files(a2, d)
        files = {}
        for n in {BACKENDS[backend]["main"], BACKENDS[backend]["decl"]}:
            files[n] = (d / n).read_text()
        return {"files": files, "tree": getattr(info.result_rep, "treename", None)}
    except Exception as e:
        try:  # leave the process-global state as a successful translation would
            executor(backend).reset()
        except Exception:
            pass
        return {"err": type(e).__name__, "msg": str(e)[:200]}
    finally:
        shutil.rmtree(d, ignore_errors=True)


class _Collector:
    def __init__(self):
        self.lines: List[str] = []

    def add_line(self, l):
        self.lines.append(l)


class _Var:
    def __init__(self, name):
        self._n = name

    def as_cpp(self):
        return self._n


def make_var(name: str):
    try:
        import func_adl_xAOD.common.cpp_representation as crep
        import func_adl_xAOD.common.cpp_types as ctyp
        from func_adl_xAOD.common.util_scope import top_level_scope

        return crep.cpp_variable(name, top_level_scope(), ctyp.terminal("double"))
    except Exception:
        return _Var(name)


def impl_book(backend: str, tree: str, leaves: List[Tuple[str, str]]) -> Dict[str, Any]:
    try:
        v = visitor(backend)
        c = _Collector()
        v.create_book_ttree_obj(tree, [(n, make_var(x)) for n, x in leaves]).emit(c)
        f = _Collector()
        v.create_ttree_fill_obj(tree).emit(f)
        return {"book": c.lines, "fill": f.lines}
    except Exception as e:
        return {"err": type(e).__name__, "msg": str(e)[:200]}


# --------------------------------------------------------------------------------------------
# tie T: regenerate the Lean tables from the source
# --------------------------------------------------------------------------------------------
S_TREE, S_COL, S_VAR = "\ue000", "\ue001", "\ue002"  # private-use sentinels for probing the emitters


def probe_escape_table() -> Tuple[List[Tuple[int, List[int]]], str]:
    try:
        from func_adl_xAOD.common.ast_to_cpp_translator import as_cpp_string_literal as f

        rng = [c for c in range(0x110000) if not 0xD800 <= c < 0xE000]
        note = "ok"
    except Exception:
        # the helper was renamed / inlined: ask visit_Constant itself (slower: first 0x3000 code points and a sample)
        def f(s):
            r = impl_const(s)
            return r["ok"]["text"] if "ok" in r else "<" + r["err"] + ">"

        rng = list(range(0x3000)) + [0xFEFF, 0xFFFD, 0x1F600, 0x10FFFF]
        rng = [c for c in rng if not 0xD800 <= c < 0xE000]
        note = "ok"
    rows = []
    shape = note
    for c in rng:
        ch = chr(c)
        r = f(ch)
        if r == '"' + ch + '"':
            continue
        if len(r) >= 2 and r[0] == '"' and r[-1] == '"' and not has_surrogate(r):
            rows.append((c, cp(r[1:-1])))
        else:
            shape = "unrecognised image of U+%04X: %r" % (c, r[:40])
    return rows, shape


def probe_homomorphism(rows: List[Tuple[int, List[int]]]) -> str:
    """Is `as_cpp_string_literal` the concatenation of its per-character images? Probed on all pairs and triples over
    the special characters and the keys of the table, on runs of `?` before every trigraph character, and on a fixed
    pseudo-random sample. "ok", or the first string on which it is not (then the per-character table does not describe
    the function and the theorems over the table say nothing about it)."""
    import itertools
    import random as _r

    try:
        from func_adl_xAOD.common.ast_to_cpp_translator import as_cpp_string_literal as f
    except Exception:
        def f(x):
            r = impl_const(x)
            return r["ok"]["text"] if "ok" in r else "<" + r["err"] + ">"

    img = {chr(c): uncp(i) for c, i in rows}
    alpha = sorted(set(['"', "\\", "\n", "\r", "\t", "?", "/", "=", "'", "(", "-", "a", " ", "\0", "\u00e9"] + [chr(c) for c, _ in rows[:40]]))
    probes = ["".join(t) for k in (2, 3) for t in itertools.product(alpha, repeat=k)] + q_runs()
    rnd = _r.Random(18)
    probes += ["".join(rnd.choice(alpha + list(PLAIN[:8])) for _ in range(rnd.randint(4, 12))) for _ in range(2000)]
    for x in probes:
        want = '"' + "".join(img.get(ch, ch) for ch in x) + '"'
        got = f(x)
        if got != want:
            return "unrecognised: as_cpp_string_literal(%r) = %r is not the concatenation of the per-character images %r" % (x, got[:60], want[:60])
    return "ok"


def probe_operator_tables() -> Dict[str, List[str]]:
    """the operator texts of the translator's three tables (sorted; a table that is gone or holds something that is
    not a text is reported as an `unrecognised …` entry, which no theorem over the table accepts)"""
    out: Dict[str, List[str]] = {}
    try:
        import func_adl_xAOD.common.ast_to_cpp_translator as T
    except Exception as e:
        return {k: ["unrecognised: import failed " + type(e).__name__] for k in ("binary", "unary", "compare")}
    for k, attr in (("binary", "_known_binary_operators"), ("unary", "_known_unary_operators"), ("compare", "compare_operations")):
        d = getattr(T, attr, None)
        if not isinstance(d, dict) or not d:
            out[k] = ["unrecognised: no table " + attr]
            continue
        out[k] = sorted(v if isinstance(v, str) else "unrecognised: " + repr(v)[:40] for v in d.values())
    return out


def _segments(line1: str, line2: Optional[str]) -> List[Tuple[str, str]]:
    """Split a probed line at the sentinels. `line2` is the same line probed with names that carry
    a quote and a backslash after the sentinel, to tell a verbatim copy from an escaped one."""
    parts = re.split("([%s%s%s])" % (S_TREE, S_COL, S_VAR), line1)
    segs: List[Tuple[str, str]] = []
    for p in parts:
        if p == S_TREE:
            segs.append(("tree", ""))
        elif p == S_COL:
            segs.append(("col", ""))
        elif p == S_VAR:
            segs.append(("var", ""))
        elif p != "":
            segs.append(("lit", p))
    if not any(k in ("tree", "col") for k, _ in segs):
        return segs
    # verbatim or escaped? rebuild the second probe under both readings
    if line2 is None:
        return [("unrecognised", line1)]
    verb = "".join({"tree": S_TREE + '"\\', "col": S_COL + '"\\', "var": S_VAR}.get(k, t) for k, t in segs)
    if line2 == verb:
        return segs
    # escaped reading: the quotes next to the name belong to the escaped literal
    esc_segs: List[Tuple[str, str]] = []
    ok = True
    for i, (k, t) in enumerate(segs):
        if k in ("tree", "col"):
            if esc_segs and esc_segs[-1][0] == "lit" and esc_segs[-1][1].endswith('"') and i + 1 < len(segs) and segs[i + 1][0] == "lit" and segs[i + 1][1].startswith('"'):
                esc_segs[-1] = ("lit", esc_segs[-1][1][:-1])
                esc_segs.append((k + "Esc", ""))
            else:
                ok = False
        elif k == "lit" and esc_segs and esc_segs[-1][0] in ("treeEsc", "colEsc"):
            esc_segs.append(("lit", t[1:]))
        else:
            esc_segs.append((k, t))
    if ok:
        try:
            from func_adl_xAOD.common.ast_to_cpp_translator import as_cpp_string_literal as f

            escd = "".join({"treeEsc": f(S_TREE + '"\\'), "colEsc": f(S_COL + '"\\'), "var": S_VAR}.get(k, t) for k, t in esc_segs)
            if line2 == escd:
                return [s for s in esc_segs if not (s[0] == "lit" and s[1] == "")]
        except Exception:
            pass
    return [("unrecognised", line1)]


def probe_lines(backend: str) -> Dict[str, List[List[Tuple[str, str]]]]:
    res: Dict[str, List[List[Tuple[str, str]]]] = {}
    r1 = impl_book(backend, S_TREE, [(S_COL, S_VAR)])
    r2 = impl_book(backend, S_TREE + '"\\', [(S_COL + '"\\', S_VAR)])
    for which in ("book", "fill"):
        if "err" in r1 or "err" in r2:
            res[which] = [[("unrecognised", "emit raised " + r1.get("err", r2.get("err", "?")))]]
            continue
        l1, l2 = r1[which], r2[which]
        out = []
        for i, line in enumerate(l1):
            if not isinstance(line, str):
                out.append([("unrecognised", repr(line)[:80])])
                continue
            out.append(_segments(line, l2[i] if i < len(l2) and len(l1) == len(l2) else None))
        res[which] = out
    return res


_LINES_CACHE: Dict[str, Any] = {}


def lean_seg_table(name: str, per_backend: Dict[str, List[List[Tuple[str, str]]]], doc: str) -> str:
    from vlib import lean_str

    out = [doc, f"def {name} : List (String × List (List (String × String))) := ["]
    items = []
    for b, lines in per_backend.items():
        ls = ",\n".join("    [" + ", ".join(f"({lean_str(k)}, {lean_str(t)})" for k, t in segs) + "]" for segs in lines)
        items.append(f"  ({lean_str(b)}, [\n{ls}])")
    out.append(",\n".join(items) + "]")
    return "\n".join(out)


def translate(ctx):
    from vlib import LEAN, lean_str, write_if_changed

    logging.disable(logging.WARNING)
    rows, shape = probe_escape_table()
    book, fill = {}, {}
    for b in BACKENDS:
        p = probe_lines(b)
        book[b], fill[b] = p["book"], p["fill"]
    homo = probe_homomorphism(rows)
    ops = probe_operator_tables()
    _LINES_CACHE["book"], _LINES_CACHE["fill"], _LINES_CACHE["rows"], _LINES_CACHE["homomorphic"] = book, fill, rows, homo
    rows_s = ", ".join("(%d, [%s])" % (c, ", ".join(str(x) for x in img)) for c, img in rows)
    content = "\n".join(
        [
            "-- GENERATED by tools/props/c18.py from the working tree of /repo on every run. DO NOT EDIT.",
            "-- Data only (built-in types): the model in FaxVerif/C18/Model.lean interprets it.",
            "namespace FaxVerif.C18.Gen",
            "",
            "/-- Per-character behaviour of `as_cpp_string_literal` (common/ast_to_cpp_translator.py), obtained by",
            "evaluating it on every Unicode scalar value: the code points `c` whose image is not `\"c\"`, each",
            "with the code points of its image (without the enclosing quotes). -/",
            f"def escapeTable : List (Nat × List Nat) := [{rows_s}]",
            "",
            "/-- Shape of the single-character images: `\"ok\"` when every image is `\"` ++ text ++ `\"`. -/",
            f"def escapeShape : String := {lean_str(shape)}",
            "",
            "/-- `\"ok\"` when, on the multi-character probe strings, the function equals the concatenation of the",
            "per-character images (it is not context dependent); otherwise the first probe on which it differs. -/",
            f"def escapeHomomorphic : String := {lean_str(homo)}",
            "",
            lean_seg_table(
                "bookLines",
                book,
                "/-- Lines written by `book_*_ttree.emit` of the three backends (through the visitors' factory methods),\n"
                "obtained by running them on sentinel names. Each line is a list of segments (kind, text); kinds: `lit`\n"
                "(constant text), `tree` / `col` (the name copied verbatim), `treeEsc` / `colEsc` (the name as an\n"
                "escaped C++ literal including its quotes), `var` (the C++ variable of the leaf), `unrecognised`. -/",
            ),
            "",
            lean_seg_table("fillLines", fill, "/-- the same for `*_ttree_fill.emit` -/"),
            "",
            "/-- The operator texts of `_known_binary_operators`, `_known_unary_operators` and `compare_operations`",
            "(common/ast_to_cpp_translator.py): what the translator writes directly before an operand. -/",
            "def binaryOps : List String := [" + ", ".join(lean_str(x) for x in ops["binary"]) + "]",
            "def unaryOps : List String := [" + ", ".join(lean_str(x) for x in ops["unary"]) + "]",
            "def compareOps : List String := [" + ", ".join(lean_str(x) for x in ops["compare"]) + "]",
            "",
            "end FaxVerif.C18.Gen",
            "",
        ]
    )
    write_if_changed(LEAN / GEN_FILE, content)


# --------------------------------------------------------------------------------------------
# generators
# --------------------------------------------------------------------------------------------
PLAIN = "abcdefghijklmnopqrstuvwxyzABCDEFGHIJKLMNOPQRSTUVWXYZ0123456789_"
SPECIAL = ['"', "\\", "\n", "\r", "\t", "?", "/", "'", "=", "(", ")", "!", "<", ">", "-", "%", "{", "}", "$", "#", " ", ".", ",", ";", "&", "*"]
CONTROL = [chr(c) for c in list(range(1, 32)) + [127]]
WIDE = ["\u00e9", "\u00fc", "\u00df", "\u03a9", "\u20ac", "\u4e2d", "\u6587", "\u00a0", "\u0085", "\u2028", "\u2029", "\ufeff", "\ufffd", "\U0001f600", "\U0001d4b3", "\U0010ffff"]
NAMECH = PLAIN + " .-+[]()/:,;#@!$%^&*=<>|~`'{}?"


TRI_CHARS = "=/'()!<>-"


def q_runs(embed: bool = True) -> List[str]:
    """runs of 1-6 `?` before every trigraph character, alone and inside longer strings — the inputs on which an escaper
    that treats `?` by context (pairs, runs) rather than one by one goes wrong under trigraph replacement"""
    out = []
    for n in range(1, 7):
        for t in TRI_CHARS:
            r = "?" * n + t
            out.append(r)
            if embed:
                out += ["ab" + r + "c", r + r, "?" + t + " " + r + "?"]
    return out


def gen_qrun(rng) -> str:
    parts = []
    for _ in range(rng.choice([1, 1, 2, 3])):
        parts.append(rng.choice(["", "a", "x y", "\\", '"', "?"]) + "?" * rng.randint(1, 6) + rng.choice(TRI_CHARS + TRI_CHARS + "a?"))
    return "".join(parts)


def gen_str(rng, allow_nul=True) -> str:
    if rng.random() < 0.08:
        return gen_qrun(rng)
    style = rng.random()
    n = rng.choice([0, 1, 1, 2, 2, 3, 3, 4, 5, 6, 8, 12]) if rng.random() < 0.97 else rng.randint(100, 200)
    out = []
    for _ in range(n):
        r = rng.random()
        if style < 0.15:
            out.append(rng.choice(PLAIN))
        elif r < 0.35:
            out.append(rng.choice(PLAIN))
        elif r < 0.75:
            out.append(rng.choice(SPECIAL))
        elif r < 0.85:
            out.append(rng.choice(CONTROL))
        elif r < 0.87 and allow_nul:
            out.append("\0")
        elif r < 0.98:
            out.append(rng.choice(WIDE))
        else:
            c = rng.randint(0x80, 0x10FFFF)
            out.append(chr(c) if not 0xD800 <= c < 0xE000 else "x")
    return "".join(out)


def gen_name(rng, in_file: bool = False) -> str:
    """A tree / branch name: any characters (names_roundtrip has no hypothesis). With `in_file` (a column name sent
    through the whole pipeline, where the generated file also repeats it inside the leaf's variable) no LF/CR and no
    ", &", so that the harness can still cut the generated file into lines and find the variable."""
    r = rng.random()
    if r < 0.1:
        return gen_qrun(rng)
    if r < 0.35:
        return "".join(rng.choice(PLAIN) for _ in range(rng.randint(1, 10)))
    n = rng.randint(1, 10)
    if r < 0.7:
        s = "".join(rng.choice(NAMECH) if rng.random() < 0.9 else rng.choice(WIDE[:7] + ["\t", "\x01"]) for _ in range(n))
    else:
        s = "".join(rng.choice(PLAIN + NAMECH) if rng.random() < 0.5 else rng.choice(['"', "\\", "\n", "\r", "?", "??/", '\\"', "\t"] + WIDE[:7]) for _ in range(n))
    if in_file:
        s = s.replace("\n", "n").replace("\r", "r").replace(", &", ",&")
    return s or "x"


INT_EDGES = [0, 1, -1, 9, 10, -10, 99, 100, 255, 256, 32767, 32768, 65535, 65536, 2**31 - 1, -(2**31), -(2**31) + 1, 2**31 - 2, 10**9, -(10**9), 2147483640, 1234567890]


def gen_int32(rng) -> int:
    r = rng.random()
    if r < 0.25:
        return rng.choice(INT_EDGES)
    if r < 0.5:
        return rng.randint(-1000, 1000)
    if r < 0.6:
        k = rng.randint(0, 30)
        return rng.choice([1, -1]) * (2**k + rng.choice([-1, 0, 1]))
    if r < 0.7:
        return rng.choice([1, -1]) * 10 ** rng.randint(0, 9)
    return rng.randint(-(2**31), 2**31 - 1)


FLOAT_EDGES = [
    0.0, -0.0, 1.0, -1.0, 1.5, 0.1, 0.2, 0.1 + 0.2, 1e-4, 9.999e-5, 1e-5, 1.5e-7, 1e16, 9999999999999998.0, 1e15, 123456789012345.6,
    1e22, 1e23, 1.7976931348623157e308, 2.2250738585072014e-308, 5e-324, 4.9406564584124654e-324, 2.225073858507201e-308,
    100.0, 1e100, -1e-100, 3.141592653589793, 2.718281828459045, 1 / 3, 2 / 3, 1e-323, 8.98846567431158e307, 0.5, 1024.0, 1e21, 123e-20,
    float(2**53), float(2**53 + 2), float(2**63), float(2**64), 6.02214076e23, 1.602176634e-19, 299792458.0,
]


def gen_finite_float(rng) -> float:
    r = rng.random()
    while True:
        if r < 0.2:
            x = rng.choice(FLOAT_EDGES)
        elif r < 0.5:
            x = struct.unpack("<d", struct.pack("<Q", rng.getrandbits(64)))[0]
        elif r < 0.7:
            x = round(rng.uniform(-1000, 1000), rng.randint(0, 6))
        elif r < 0.8:
            x = rng.choice([1, -1]) * float("1e%d" % rng.randint(-320, 308))
        elif r < 0.9:
            x = rng.choice([1, -1]) * rng.randint(1, 10**17) * 10.0 ** rng.randint(-30, 30)
        else:
            x = math.ldexp(rng.random(), rng.randint(-1074, 1023))
        if x == x and x not in (float("inf"), float("-inf")):
            return x
        r = rng.random()


OTHERS = [None, b"ab", 1j, Ellipsis, (1, 2)]


def gen_const(rng) -> Any:
    r = rng.random()
    if r < 0.40:
        return gen_str(rng)
    if r < 0.62:
        return gen_int32(rng)
    if r < 0.90:
        return gen_finite_float(rng)
    if r < 0.94:
        return rng.random() < 0.5
    if r < 0.975:
        return rng.choice(OTHERS)
    return rng.choice([float("inf"), float("-inf"), float("nan")])


# positions of a constant inside a query; COLL is the backend's collection accessor
_SRC = "SelectMany(EventDataset('x'), lambda e: e.COLL('J'))"
POSITIONS: Dict[str, Dict[str, Any]] = {
    "arg1": {"src": f"Select({_SRC}, lambda j: j.zzq(__C__))", "anchor": "zzq(", "after": ")", "kinds": "all"},
    "arg2": {"src": f"Select({_SRC}, lambda j: j.zzq(1, __C__))", "anchor": "zzq(1,", "after": ")", "kinds": "all"},
    "cmp_right": {"src": f"Select(Where({_SRC}, lambda j: j.zzr() == __C__), lambda j: j.pt())", "anchor": "zzr()==", "after": ")", "kinds": "all"},
    "cmp_left": {"src": f"Select(Where({_SRC}, lambda j: __C__ == j.zzr()), lambda j: j.pt())", "anchor": "if ((", "after": "==", "kinds": "all"},
    "cmp_gt": {"src": f"Select(Where({_SRC}, lambda j: j.pt() > __C__), lambda j: j.pt())", "anchor": "pt()>", "after": ")", "kinds": "num"},
    "add_right": {"src": f"Select({_SRC}, lambda j: j.pt() + __C__)", "anchor": "pt()+", "after": ")", "kinds": "num"},
    "mul_left": {"src": f"Select({_SRC}, lambda j: __C__ * j.pt())", "anchor": "= (", "after": "*", "kinds": "num"},
    "sub_right": {"src": f"Select({_SRC}, lambda j: j.pt() - __C__)", "anchor": "pt()-", "after": ")", "kinds": "num"},
    "column": {"src": "Select(EventDataset('x'), lambda e: __C__)", "anchor": None, "after": ";", "kinds": "numbool"},
    "bank": {"src": "Select(EventDataset('x'), lambda e: e.COLL(__C__).Count())", "anchor": None, "after": None, "kinds": "str"},
}
BANK_ANCHOR = {"atlas": ("retrieve(result, ", "));"), "cms_aod": ("iEvent.getByLabel(", ", result);"), "cms_miniaod": ("edm::InputTag(", "));")}


def position_ok_for(pos: str, v: Any) -> bool:
    kinds = POSITIONS[pos]["kinds"]
    t = type(v)
    if kinds == "all":
        return t in (str, int, float, bool)
    if kinds == "num":
        return t in (int, float)  # (sub_right: negative constants too — in parentheses since 212716c)
    if kinds == "numbool":
        return t in (int, float, bool)
    if kinds == "str":
        return t is str
    return False


def find_constant_text(backend: str, pos: str, files: Dict[str, str]) -> Optional[Tuple[str, str, str]]:
    """(character before the constant, text from the constant to the end of its line, line) or None"""
    text = files[BACKENDS[backend]["main"]]
    if pos == "bank":
        anchor = BANK_ANCHOR[backend][0]
    elif pos == "column":
        anchor = None
    else:
        anchor = POSITIONS[pos]["anchor"]
    for line in text.split("\n"):
        l = line.rstrip(" ")
        if anchor is None:
            m = re.match(r"^\s*_col1\d+ = ", l)
            if m:
                return (" ", l[m.end():], l)
            continue
        i = l.find(anchor)
        if i >= 0 and not (pos == "bank" and '"example"' in l):
            j = i + len(anchor)
            return (l[j - 1], l[j:], l)
    return None


def declared_type(backend: str, files: Dict[str, str]) -> Optional[str]:
    m = re.search(r"^\s*([A-Za-z_][\w:<> ]*?)\s+_col1\d+;", files[BACKENDS[backend]["decl"]], re.M)
    return m.group(1) if m else None


# --------------------------------------------------------------------------------------------
# g++ echo program
# --------------------------------------------------------------------------------------------
ECHO_HEAD = r"""#include <cstdio>
#include <cstddef>
#include <cstring>
static size_t seen_by_callee(const char* p){ return strlen(p); }
static void hx(const void* p, size_t n){ const unsigned char* b=(const unsigned char*)p; for(size_t i=0;i<n;i++) printf("%02x", b[i]); printf("\n"); }
static const char* tn(int){return "int";} static const char* tn(unsigned){return "unsigned int";}
static const char* tn(long){return "long";} static const char* tn(unsigned long){return "unsigned long";}
static const char* tn(long long){return "long long";} static const char* tn(unsigned long long){return "unsigned long long";}
static const char* tn(float){return "float";} static const char* tn(double){return "double";} static const char* tn(long double){return "long double";}
static const char* tn(bool){return "bool";}
int main(){
"""


def echo_program(items: List[Tuple[str, str]]) -> bytes:
    """items: ('S', literal text) string literal / ('N', text) numeric or bool expression"""
    out = [ECHO_HEAD]
    for i, (k, text) in enumerate(items):
        if k == "C":
            out.append("{ printf(\"%d C %%zu\\n\", seen_by_callee(\n%s\n)); }\n" % (i, text))
        elif k == "S":
            out.append("{ static const char s[] = \n%s\n; printf(\"%d S %%zu \", sizeof(s)-1); hx(s, sizeof(s)-1); }\n" % (text, i))
        else:
            out.append("{ auto v = \n%s\n; printf(\"%d N %%s \", tn(v)); hx(&v, sizeof(v) > 10 ? 10 : sizeof(v)); }\n" % (text, i))
    out.append("return 0; }\n")
    return "".join(out).encode("utf-8")


def run_echo(items: List[Tuple[str, str]], std: Optional[str] = None) -> Dict[str, Any]:
    d = Path(tempfile.mkdtemp(prefix="c18e"))
    try:
        (d / "e.cpp").write_bytes(echo_program(items))
        cmd = ["g++", "-w", "-O0"] + ([f"-std={std}"] if std else []) + ["e.cpp", "-o", "e"]
        p = subprocess.run(cmd, cwd=d, capture_output=True, text=True, timeout=600)
        if p.returncode != 0:
            return {"compile_error": p.stderr[:600]}
        r = subprocess.run(["./e"], cwd=d, capture_output=True, text=True, timeout=120)
        res: Dict[int, Any] = {}
        for l in r.stdout.split("\n"):
            m = re.match(r"^(\d+) S (\d+) ([0-9a-f]*)$", l)
            if m:
                res[int(m.group(1))] = ("S", bytes.fromhex(m.group(3)))
                continue
            m = re.match(r"^(\d+) C (\d+)$", l)
            if m:
                res[int(m.group(1))] = ("C", int(m.group(2)))
                continue
            m = re.match(r"^(\d+) N ([a-z ]+) ([0-9a-f]*)$", l)
            if m:
                res[int(m.group(1))] = ("N", m.group(2), bytes.fromhex(m.group(3)))
        return {"out": res}
    finally:
        shutil.rmtree(d, ignore_errors=True)


def expected_echo(v: Any) -> Any:
    t = type(v)
    if t is str:
        return ("S", v.encode("utf-8"))
    if t is bool:
        return ("N", "bool", b"\x01" if v else b"\x00")
    if t is int:
        return ("N", "int" if -(2**31) < v < 2**31 else "long", v.to_bytes(4 if -(2**31) < v < 2**31 else 8, "little", signed=True))
    return ("N", "double", struct.pack("<d", v))


# literal texts that are NOT produced by the translator: they validate the Lean lexer (the trusted
# model of C++) against g++ — (text, kind)
LEXER_PROBES = [
    ('"\\101\\x41\\u00e9\\a\\b\\f\\v\\?\\\'\\0z"', "S"), ('"a\\\\b\\"c"', "S"), ('"\\7\\77\\177x"', "S"), ('"\\x7fg"', "S"), ('"\\U0001F600"', "S"),
    ('"\\1234"', "S"), ('"tab\there"', "S"), ('"??"', "S"), ('"?\\?="', "S"), ('"\\u20ac"', "S"), ('""', "S"), ('"\\\\\\\\"', "S"), ('"\\n\\r\\t"', "S"),
    ("0", "N"), ("017", "N"), ("0x1F", "N"), ("0b101", "N"), ("2147483647", "N"), ("2147483648", "N"), ("4294967295", "N"), ("0xFFFFFFFF", "N"),
    ("0x7FFFFFFF", "N"), ("0x100000000", "N"), ("0xFFFFFFFFFFFFFFFF", "N"), ("9223372036854775807", "N"), ("10L", "N"), ("10u", "N"), ("10UL", "N"),
    ("10ll", "N"), ("10ULL", "N"), ("-5", "N"), ("-2147483648", "N"), ("-2147483647", "N"), ("0L", "N"), ("0u", "N"), ("037777777777", "N"),
    ("1.5", "N"), ("1.", "N"), (".5", "N"), ("1e5", "N"), ("1E5", "N"), ("1e+5", "N"), ("1.5e-07", "N"), ("1.5f", "N"), ("1.5F", "N"), ("1e5f", "N"),
    ("1.7976931348623157e+308", "N"), ("5e-324", "N"), ("-0.0", "N"), ("0.1", "N"), ("123456789012345678901234567890.0", "N"), ("1e22", "N"),
    ("0.30000000000000004", "N"), ("true", "N"), ("false", "N"), ("9007199254740993.0", "N"), ("1e23", "N"), ("8.5e-320", "N"),
]
# texts g++ must refuse and the Lean lexer must refuse
# (an unknown escape such as \q is "conditionally supported" by the standard: g++ accepts it with a warning, the Lean
# lexer refuses it; it is therefore not probed)
LEXER_REJECTS = ['"t"r"', '"a\nb"', '"a\rb"', '"a\\"', '"abc', '"a??/" "x']


def lex_matches_gpp(kind: str, lx: Dict[str, Any], got: Any) -> Optional[str]:
    """compare the Lean lexer's reading of a literal with what g++ made of it; None = agree"""
    if got is None:
        return "no output from the echo program"
    if kind == "S":
        v = lx.get("v")
        if v is None or lx.get("rest"):
            return f"Lean: not one string literal; g++: {got[1]!r}"
        want = uncp(v).encode("utf-8")
        return None if got == ("S", want) else f"Lean: {want!r}; g++: {got[1]!r}"
    if "int" in lx:
        ty, val = lx["int"]["ty"], int(lx["int"]["v"])
        size = {"int": 4, "unsigned int": 4}.get(ty, 8)
        signed = not ty.startswith("unsigned")
        try:
            want = ("N", ty, val.to_bytes(size, "little", signed=signed))
        except OverflowError:
            return f"Lean: {val} does not fit its type {ty}"
        return None if got == want else f"Lean: {want}; g++: {got}"
    if "bool" in lx:
        want = ("N", "bool", b"\x01" if lx["bool"] else b"\x00")
        return None if got == want else f"Lean: {want}; g++: {got}"
    if "float" in lx:
        f = lx["float"]
        if got[1] != f["ty"]:
            return f"Lean: type {f['ty']}; g++: {got[1]}"
        if f["ty"] == "double":
            from fractions import Fraction

            q = Fraction(int(f["mant"])) * Fraction(10) ** int(f["exp"])
            x = struct.unpack("<d", got[2])[0]
            # nearest double of the exact decimal value: Python's float(Fraction) rounds correctly
            want = -float(q) if f["neg"] else float(q)
            return None if struct.pack("<d", want) == got[2] else f"Lean value {q} -> {want!r}; g++: {x!r}"
        return None
    return f"Lean: not a literal; g++: {got}"


# --------------------------------------------------------------------------------------------
# streams
# --------------------------------------------------------------------------------------------
def unit_stream(ctx, consts: List[Tuple[Any, str]], label: str = "unit") -> List[Dict[str, Any]]:
    """consts: (value, backend). Runs implementation + model + Spec; returns the per-case records."""
    recs = []
    reqs = []
    for v, b in consts:
        cj = const_json(v)
        r = impl_const(v, b)
        rec = {"v": v, "backend": b, "impl": r, "cj": cj, "i": None}
        if cj is not None and "unparsed" not in cj:
            rec["i"] = len(reqs)
            reqs.append({"op": "const", "c": cj})
            reqs.append({"op": "spec", "c": cj, "out": out_json(r)})
            reqs.append({"op": "reprok", "c": cj})  # the facts trusted about repr(float), on this float
            reqs.append({"op": "ctxsafe", "text": cp(r["ok"]["text"])} if "ok" in r else {"op": "ctxsafe", "text": cp("0")})
        recs.append(rec)
    ans = ctx.driver(DRIVER, reqs)
    for rec in recs:
        v, b, r = rec["v"], rec["backend"], rec["impl"]
        kind = type(v).__name__
        ctx.count(f"{label}:kind:{kind}")
        ctx.count(f"{label}:backend:{b}")
        ctx.count(f"{label}:impl:" + ("ok" if "ok" in r else r["err"]))
        case = {"stream": "unit", "backend": b, "const": describe(v)}
        ctx.case([label, b, describe(v)], nontrivial_const(v), {"constant": describe(v).get("repr", describe(v)), "backend": b, "implementation": r})
        if rec["i"] is None:
            if rec["cj"] is not None:  # repr(float) outside the modelled grammar: the trusted assumption is wrong
                ctx.disagreement("repr-grammar", case, "text of the grammar [-]d+[.d+][e(+|-)d+]", repr(v))
            continue
        m, s, x, cs_ = ans[rec["i"]], ans[rec["i"] + 1], ans[rec["i"] + 2], ans[rec["i"] + 3]
        if "ok" in r and "bad" not in cs_ and not cs_.get("holds", False):
            ctx.violation(
                key=f"ctxsafe:{describe(v)['kind']}:{describe(v).get('v', describe(v).get('repr', describe(v).get('t')))}",
                what=f"visit_Constant ({b}) emits `{r['ok']['text']}` for the constant {v!r}; as an operand this text is not context safe: {cs_.get('why')}",
                case=case,
                observed=r,
                how="func_adl_xAOD.<backend>.query_ast_visitor.<visitor>().get_rep(ast.Constant(value)).as_cpp(); ContextSafe through the Lean driver (tokenize the text after every operator the translator emits)",
            )
        if "bad" in m or "bad" in s or "bad" in x:
            if not any(b_.get("kind") == "driver" for b_ in ctx.broken):
                ctx.broken.append({"kind": "driver-answer", "case": case, "answers": [m, s, x]})
            continue
        rec["spec"] = s
        if not s.get("holds", False):
            ctx.violation(
                key=f"const:{describe(v)['kind']}:{describe(v).get('v', describe(v).get('repr', describe(v).get('t')))}",
                what=f"visit_Constant ({b}) violates the constant specification: {s.get('why')}",
                case=case,
                observed=r,
                how="func_adl_xAOD.<backend>.query_ast_visitor.<visitor>().get_rep(ast.Constant(value)) -> rep.as_cpp(), rep.cpp_type()",
            )
        if not x.get("holds", False):
            # not a defect of /repo: the assumption about CPython (repr grammar, repr rounds back) fails on this float
            ctx.disagreement("repr-faithful", case, "repr(x) is of the grammar [-]d+[.d+][e(+|-)d+] and rounds to x", repr(v))
        cm = canon_model(m)
        ri = {"ok": r["ok"]} if "ok" in r else {"err": r["err"]}
        if cm != ri:
            ctx.disagreement("visit_Constant", case, cm, ri)
    return recs


def qrun_pipeline_cases(limit: int) -> List[Dict[str, Any]]:
    """runs of `?` before a trigraph character in every string position of every backend (round robin)"""
    spos = [p_ for p_ in POSITIONS if POSITIONS[p_]["kinds"] in ("all", "str")]
    out = []
    for i, q in enumerate(q_runs(embed=False) + q_runs()[1::4]):
        out.append({"backend": list(BACKENDS)[i % 3], "pos": spos[(i // 3 + i) % len(spos)], "v": q, "qastle": i % 5 == 0})
    return out[:limit]


def pipeline_cases(ctx, n: int) -> List[Dict[str, Any]]:
    rng = ctx.rng
    cases = []
    poss = list(POSITIONS)
    backs = list(BACKENDS)
    i = 0
    while len(cases) < n:
        b = backs[i % 3]
        pos = poss[(i // 3) % len(poss)]
        i += 1
        for _ in range(50):
            r = rng.random()
            if POSITIONS[pos]["kinds"] == "str":
                v = gen_str(rng, allow_nul=False)
            elif r < 0.3:
                v = gen_str(rng, allow_nul=False)
            elif r < 0.55:
                v = gen_int32(rng)
            elif r < 0.9:
                v = gen_finite_float(rng)
            else:
                v = rng.random() < 0.5
            if position_ok_for(pos, v):
                break
        else:
            continue
        cases.append({"backend": b, "pos": pos, "v": v, "qastle": rng.random() < 0.25})
    return cases


def qastle_roundtrip(a: ast.AST) -> Optional[ast.AST]:
    """the same query sent as qastle text, when the wire format carries it unchanged"""
    try:
        import qastle

        t = qastle.python_ast_to_text_ast(a)
        b = qastle.text_ast_to_python_ast(t).body[0].value
        return b if ast.dump(b) == ast.dump(a) else None
    except Exception:
        return None


def pipeline_stream(ctx, cases: List[Dict[str, Any]]):
    staged = []
    reqs: List[Dict[str, Any]] = []
    for c in cases:
        b, pos, v = c["backend"], c["pos"], c["v"]
        src = POSITIONS[pos]["src"].replace("COLL", BACKENDS[b]["coll"])
        a = build_ast(src, {"__C__": v})
        via = "ast"
        if c.get("qastle"):
            a2 = qastle_roundtrip(a)
            if a2 is not None:
                a, via = a2, "qastle"
        r = run_query(b, a)
        cj = const_json(v)
        st = {"c": c, "r": r, "cj": cj, "via": via, "i": None}
        if "files" in r:
            f = find_constant_text(b, pos, r["files"])
            st["found"] = f
            if f is not None:
                st["i"] = len(reqs)
                reqs.append({"op": "const", "c": cj})
                reqs.append({"op": "at", "c": cj, "text": cp(f[1]), "prev": ord(f[0])})
        staged.append(st)
        ctx.check_time()
    ans = ctx.driver(DRIVER, reqs)
    for st in staged:
        c, r = st["c"], st["r"]
        b, pos, v = c["backend"], c["pos"], c["v"]
        case = {"stream": "pipeline", "backend": b, "position": pos, "via": st["via"], "const": describe(v), "query": POSITIONS[pos]["src"].replace("COLL", BACKENDS[b]["coll"])}
        ctx.count(f"pipe:pos:{pos}")
        ctx.count(f"pipe:backend:{b}")
        ctx.count(f"pipe:kind:{type(v).__name__}")
        ctx.count(f"pipe:via:{st['via']}")
        ctx.case(["pipe", b, pos, describe(v)], nontrivial_const(v), {"position": pos, "backend": b, "constant": describe(v).get("repr", describe(v)), "line": (st.get("found") or ("", "", r.get("err")))[2]})
        key = f"pipe:{pos}:{describe(v)['kind']}:{describe(v).get('v', describe(v).get('repr'))}"
        if "err" in r:
            ctx.count("pipe:impl-error:" + r["err"])
            ctx.violation(key=key, what=f"a query with the {type(v).__name__} constant {v!r} in position {pos} was refused on {b}: {r['err']}: {r.get('msg')}", case=case, observed=r, how="apply_ast_transformations + write_cpp_files on the query of `case`")
            continue
        if st["i"] is None:
            ctx.disagreement("pipeline-anchor", case, f"a line carrying the constant after {POSITIONS[pos]['anchor']!r}", "no such line in the generated file")
            continue
        m, at = ans[st["i"]], ans[st["i"] + 1]
        if "bad" in m or "bad" in at:
            continue
        prev, rest_text, line = st["found"]
        after = BANK_ANCHOR[b][1] if pos == "bank" else POSITIONS[pos]["after"]
        rest = uncp(at.get("rest"))
        if rest is None or not rest.startswith(after):
            ctx.violation(
                key=key,
                what=f"on {b}, position {pos}: the generated line `{line.strip()}` does not carry a C++ literal denoting the constant {v!r} at its place (then `{after}`)",
                case=case,
                observed={"line": line, "lexed_rest": rest},
                how="apply_ast_transformations + write_cpp_files on the query of `case`; lex the text after the anchor",
            )
        if pos == "column":
            ty = declared_type(b, r["files"])
            ctx.count(f"pipe:decl:{ty}")
            text = rest_text[: -1] if rest_text.endswith(";") else rest_text
            st["decl"] = (text, ty)
        mt = canon_model(m)
        if "ok" not in mt or not rest_text.startswith(mt["ok"]["text"] + after):
            ctx.disagreement("pipeline-text", case, (mt.get("ok") or mt).get("text", mt) if isinstance(mt.get("ok"), dict) else mt, rest_text)
    # declared types of constant columns: Spec with the declaration found in the class
    decl = [st for st in staged if "decl" in st]
    ans2 = ctx.driver(DRIVER, [{"op": "spec", "c": st["cj"], "out": {"ok": {"text": cp(st["decl"][0]), "ty": st["decl"][1] or "?"}}} for st in decl])
    for st, s in zip(decl, ans2):
        c = st["c"]
        if "bad" in s:
            continue
        if not s.get("holds", False):
            v = c["v"]
            ctx.violation(
                key=f"pipe:column:{describe(v)['kind']}:{describe(v).get('v', describe(v).get('repr'))}",
                what=f"on {c['backend']}: a column holding the constant {v!r} is declared `{st['decl'][1]}` and assigned `{st['decl'][0]}`: {s.get('why')}",
                case={"stream": "pipeline", "backend": c["backend"], "position": "column", "via": st["via"], "const": describe(v), "query": POSITIONS["column"]["src"]},
                observed={"declared": st["decl"][1], "assigned": st["decl"][0]},
                how="apply_ast_transformations + write_cpp_files; read the class declaration and the assignment of the column",
            )
    return staged


# --------------------------------------------------------------------------------------------
# the generated LINE, compiled: a mock method echoes its argument, a mock store records the bank
# --------------------------------------------------------------------------------------------
LINE_MOCK_HEAD = r"""#include <cstdio>
#include <cstring>
#include <string>
static int IDX = 0;
static void hx(const void* p, size_t n){ const unsigned char* b=(const unsigned char*)p; for(size_t i=0;i<n;i++) printf("%02x", b[i]); printf("\n"); }
static void show(const std::string& s){ printf("%d S %zu ", IDX, s.size()); hx(s.data(), s.size()); }
static void show(const char* s){ show(std::string(s)); }
static void show(int v){ printf("%d N int ", IDX); hx(&v, sizeof v); }
static void show(unsigned v){ printf("%d N unsigned int ", IDX); hx(&v, sizeof v); }
static void show(long v){ printf("%d N long ", IDX); hx(&v, sizeof v); }
static void show(unsigned long v){ printf("%d N unsigned long ", IDX); hx(&v, sizeof v); }
static void show(long long v){ printf("%d N long long ", IDX); hx(&v, sizeof v); }
static void show(float v){ printf("%d N float ", IDX); hx(&v, sizeof v); }
static void show(double v){ printf("%d N double ", IDX); hx(&v, sizeof v); }
static void show(bool v){ printf("%d N bool ", IDX); hx(&v, sizeof v); }
#define ANA_CHECK(x) x
struct Store { template<class T> int retrieve(T&, const std::string& n){ show(n); return 0; } };
static Store* evtStore(){ static Store s; return &s; }
struct Ev { template<class T> void getByLabel(const std::string& n, T&){ show(n); } };
namespace edm { struct InputTag { InputTag(const std::string& n){ show(n); } }; }
namespace pat { struct MuonCollection {}; }
template<class T> int consumes(const edm::InputTag&){ return 0; }
struct Obj { template<class T> double zzq(T v){ show(v); return 0; } template<class T> double zzq(int, T v){ show(v); return 0; } };
int main(){ Obj obj; Ev iEvent; (void)obj; (void)iEvent;
"""


def line_block(i: int, backend: str, pos: str, line: str, decl: Optional[str]) -> Optional[str]:
    """one generated line in a scope that declares what it mentions"""
    l = line.strip()
    if pos == "bank":
        pre = {"atlas": "const int* result = 0;", "cms_aod": "int result = 0;", "cms_miniaod": "int "}[backend]
        return "{ IDX = %d; %s\n%s\n}\n" % (i, pre, l)
    if pos in ("arg1", "arg2"):
        m = re.match(r"^(_col1\d+) = (\w+)(->|\.)zzq\(", l)
        if not m:
            return None
        obj = ("Obj* %s = &obj;" if m.group(3) == "->" else "Obj& %s = obj;") % m.group(2)
        return "{ IDX = %d; %s double %s;\n%s\n(void)%s; }\n" % (i, obj, m.group(1), l, m.group(1))
    if pos == "column":
        m = re.match(r"^(_col1\d+) = ", l)
        if not m or not decl or not re.match(r"^[A-Za-z_][\w ]*$", decl):
            return None
        return "{ IDX = %d; %s %s;\n%s\nshow(%s); }\n" % (i, decl, m.group(1), l, m.group(1))
    return None


def run_line_echo(blocks: List[str], std: Optional[str] = None) -> Dict[str, Any]:
    d = Path(tempfile.mkdtemp(prefix="c18l"))
    try:
        (d / "l.cpp").write_bytes((LINE_MOCK_HEAD + "".join(blocks) + "return 0; }\n").encode("utf-8"))
        p = subprocess.run(["g++", "-w", "-O0"] + ([f"-std={std}"] if std else []) + ["l.cpp", "-o", "l"], cwd=d, capture_output=True, text=True, timeout=600)
        if p.returncode != 0:
            return {"compile_error": p.stderr[:800]}
        r = subprocess.run(["./l"], cwd=d, capture_output=True, text=True, timeout=120)
        res: Dict[int, Any] = {}
        for ln in r.stdout.split("\n"):
            m = re.match(r"^(\d+) S (\d+) ([0-9a-f]*)$", ln)
            if m:
                res[int(m.group(1))] = ("S", bytes.fromhex(m.group(3)))
                continue
            m = re.match(r"^(\d+) N ([a-z ]+) ([0-9a-f]*)$", ln)
            if m:
                res[int(m.group(1))] = ("N", m.group(2), bytes.fromhex(m.group(3)))
        return {"out": res}
    finally:
        shutil.rmtree(d, ignore_errors=True)


def expected_in_column(v: Any, decl: str) -> Any:
    """what a variable of the declared type must hold if the constant is to be kept"""
    if decl == "double":
        return ("N", "double", struct.pack("<d", float(v)))
    if decl == "bool":
        return ("N", "bool", b"\x01" if v else b"\x00")
    if decl == "int":
        try:
            return ("N", "int", int(v).to_bytes(4, "little", signed=True)) if float(v) == int(v) else ("N", "int", b"does not fit")
        except OverflowError:
            return ("N", "int", b"does not fit")
    return ("N", decl, b"?")


def line_echo_stream(ctx, staged: List[Dict[str, Any]], n: int, workers: int):
    items = []
    for st in staged:
        c = st["c"]
        if st.get("found") is None or c["pos"] not in ("bank", "arg1", "arg2", "column") or type(c["v"]) not in (str, int, float, bool):
            continue
        decl = st.get("decl", (None, None))[1]
        blk = line_block(0, c["backend"], c["pos"], st["found"][2], decl)
        if blk is None:
            ctx.count("line-echo:skipped-shape")
            continue
        items.append((st, decl))
        if len(items) >= n:
            break
    chunks = [items[i : i + 150] for i in range(0, len(items), 150)]

    def job(a):
        chunk, std = a
        if std is not None:  # trigraph dialect: the lines that carry a string
            chunk = [(st, decl) for st, decl in chunk if type(st["c"]["v"]) is str]
        if not chunk:
            return chunk, std, {"out": {}}
        return chunk, std, run_line_echo([line_block(i, st["c"]["backend"], st["c"]["pos"], st["found"][2], decl) for i, (st, decl) in enumerate(chunk)], std)

    with concurrent.futures.ThreadPoolExecutor(max_workers=workers) as ex:
        results = list(ex.map(job, [(c, None) for c in chunks] + [(c, "c++14") for c in chunks]))
    for chunk, std, res in results:
        label = std or "default"
        if "compile_error" in res:
            # which line? compile them one at a time (rare path)
            for st, decl in chunk:
                one = run_line_echo([line_block(0, st["c"]["backend"], st["c"]["pos"], st["found"][2], decl)], std)
                if "compile_error" in one:
                    c = st["c"]
                    ctx.violation(
                        key=f"line:{label}:{c['pos']}:{describe(c['v'])['kind']}:{describe(c['v']).get('v', describe(c['v']).get('repr'))}",
                        what=f"g++ ({label}) rejects the generated line `{st['found'][2].strip()}` ({c['backend']}, constant {c['v']!r} in position {c['pos']})",
                        case={"stream": "pipeline", "backend": c["backend"], "position": c["pos"], "via": st["via"], "const": describe(c["v"])},
                        observed=one["compile_error"][:300],
                        how="compile the generated line against a mock store / a mock method that echoes its argument",
                    )
                    break
            continue
        for i, (st, decl) in enumerate(chunk):
            c = st["c"]
            v = c["v"]
            ctx.count(f"line-echo:{label}:{c['pos']}")
            got = res["out"].get(i)
            want = expected_in_column(v, decl) if c["pos"] == "column" else expected_echo(v)
            if got != want:
                ctx.violation(
                    key=f"line:{label}:{c['pos']}:{describe(v)['kind']}:{describe(v).get('v', describe(v).get('repr'))}",
                    what=f"compiled with g++ ({label}), the generated line `{st['found'][2].strip()}` ({c['backend']}) hands over {got}, the constant {v!r} is {want}",
                    case={"stream": "pipeline", "backend": c["backend"], "position": c["pos"], "via": st["via"], "const": describe(v)},
                    observed=str(got),
                    how="compile the generated line against a mock store / a mock method that echoes its argument",
                )
    ctx.extra_cov["gpp_line_echo"] = len(items)


def model_book_lines(ctx, backend: str, tree: str, leaves: List[Tuple[str, str]]) -> Optional[Dict[str, Any]]:
    """the model's booking / fill lines, with the place of each name"""
    reqs = []
    ls = leaves or [("", "")]
    for n, x in ls:
        reqs.append({"op": "book", "backend": backend, "which": "book", "tree": cp(tree), "col": cp(n), "var": cp(x)})
    reqs.append({"op": "book", "backend": backend, "which": "fill", "tree": cp(tree), "col": [], "var": []})
    ans = ctx.driver(DRIVER, reqs)
    if any("bad" in a for a in ans):
        return None
    return compose_book(ans[:-1], ans[-1], leaves)


def compose_book(per_leaf: List[Dict[str, Any]], fill: Dict[str, Any], leaves) -> Dict[str, Any]:
    """tree-level lines once (in order), leaf-level lines once per leaf at their place"""
    first = per_leaf[0]
    out = []
    done_leaf = False
    for i, slot in enumerate(first["slots"]):
        line0 = uncp(first["lines"][i])
        is_leaf = (slot is not None and slot["kind"] == "col") or any(uncp(p["lines"][i]) != line0 for p in per_leaf[1:])
        if is_leaf:
            if not done_leaf:
                for (n, x), p in zip(leaves, per_leaf):
                    out.append({"line": uncp(p["lines"][i]), "slot": p["slots"][i], "name": n, "ok": p["ok"][i]})
            done_leaf = done_leaf  # several leaf-level lines would each be repeated per leaf, in order of the lines
        else:
            out.append({"line": line0, "slot": slot, "name": None, "ok": first["ok"][i]})
    fl = [{"line": uncp(l), "slot": s, "name": None, "ok": o} for l, s, o in zip(fill["lines"], fill["slots"], fill["ok"])]
    return {"book": out, "fill": fl}


def book_requests(backend: str, tree: str, leaves) -> List[Dict[str, Any]]:
    ls = leaves or [("", "")]
    reqs = [{"op": "book", "backend": backend, "which": "book", "tree": cp(tree), "col": cp(n), "var": cp(x)} for n, x in ls]
    reqs.append({"op": "book", "backend": backend, "which": "fill", "tree": cp(tree), "col": [], "var": []})
    return reqs


def book_compare(ctx, case, backend, tree, impl_lines: Dict[str, List[str]], model: Dict[str, Any], stream: str, known_key: Optional[str] = None):
    """The tie (model lines = implementation lines) now; returns the `nameat` requests that evaluate the Spec on the
    implementation's own lines, at the places the regenerated table gives, with what each must denote."""
    reqs, where = [], []
    for which in ("book", "fill"):
        il, ml = impl_lines[which], model[which]
        if list(il) != [m["line"] for m in ml]:
            ctx.disagreement(f"{stream}-{which}-lines", case, [m["line"] for m in ml], il)
        for k, m in enumerate(ml):
            if m["slot"] is None or k >= len(il):
                continue
            want = tree if m["slot"]["kind"] == "tree" else m["name"]
            reqs.append({"op": "nameat", "off": m["slot"]["off"], "line": cp(il[k])})
            where.append({"case": case, "backend": backend, "which": which, "want": want, "line": il[k], "key": known_key, "off": m["slot"]["off"]})
    # second, table-independent oracle: the strings the implementation's booking lines carry
    names = [tree] + [m["name"] for m in model["book"] if m["name"] is not None]
    # (the leaf's variable is cut off: in a generated file it repeats the column name as an identifier, which is C02's business)
    # (only on the lines that book a branch: a tree name may itself contain `, &`; the last occurrence: so may a column name)
    mb = model["book"]
    leafline = lambda k, l: (mb[k]["name"] is not None) if len(mb) == len(impl_lines["book"]) else "->Branch(" in l.split('"')[0]
    scan = [l[: l.rfind(", &")] if ", &" in l and leafline(k, l) else l for k, l in enumerate(impl_lines["book"])]
    reqs.append({"op": "linestrs", "lines": [cp(l) for l in scan]})
    where.append({"case": case, "backend": backend, "which": "book", "carried": names, "line": " | ".join(impl_lines["book"]), "key": known_key})
    if backend == "atlas":
        # the ATLAS job finds its tree by name when filling (`tree("…")->Fill()`): the fill lines must carry the tree name too
        reqs.append({"op": "linestrs", "lines": [cp(l) for l in impl_lines["fill"]]})
        where.append({"case": case, "backend": backend, "which": "fill", "carried": [tree], "line": " | ".join(impl_lines["fill"]), "key": known_key})
    return reqs, where


def book_judge(ctx, where, answers) -> int:
    bad = 0
    for w, a in zip(where, answers):
        if "bad" in a:
            continue
        if "carried" in w:
            lits = None if a.get("lits") is None else [uncp(x) for x in a["lits"]]
            missing = [n_ for n_ in w["carried"] if lits is None or n_ not in lits]
            if missing:
                bad += 1
                ctx.violation(
                    key=w["key"] or f"name:{w['backend']}:carried:{missing[0]!r}",
                    what=f"on {w['backend']}: the {w['which']} lines `{w['line']}` do not carry the name(s) {missing!r} as C++ string literals (string literals found: {lits!r})",
                    case=w["case"],
                    observed={"lines": w["line"], "string_literals": lits},
                    how="visitor.create_book_ttree_obj(tree, leaves).emit(...) / the pipeline with ResultTTree(..., names, tree, file)",
                )
            continue
        got, got_tri = uncp(a.get("v")), uncp(a.get("vtri"))
        if got != w["want"] or got_tri != w["want"]:
            bad += 1
            dialect = "" if got != w["want"] else " under trigraph replacement (ISO C++ before C++17)"
            ctx.violation(
                key=w["key"] or f"name:{w['backend']}:{w['which']}:{w['want']!r}",
                what=f"on {w['backend']}: the {w['which']} line `{w['line']}` does not carry the name {w['want']!r} as a C++ string literal{dialect} (the literal there denotes {(got if got != w['want'] else got_tri)!r})",
                case=w["case"],
                observed={"line": w["line"], "literal_denotes": got, "literal_denotes_with_trigraphs": got_tri},
                how="visitor.create_book_ttree_obj(tree, leaves).emit(...) / the pipeline with ResultTTree(..., names, tree, file)",
            )
        elif a.get("rest") is not None and len(NAME_LITERALS) < 4000:
            # the literal itself, for g++ -std=c++14 (names_echo)
            rest = uncp(a["rest"])
            lit_end = len(w["line"]) - len(rest)
            off = w.get("off", 0)
            NAME_LITERALS.append((w["want"], w["line"][off:lit_end], w["backend"], w["case"]))
    return bad


NAME_LITERALS: List[Tuple[str, str, str, Any]] = []


def names_echo(ctx, n: int):
    """g++ -std=c++14 (trigraphs active) and the default dialect on the literals found at the name places"""
    seen, items = set(), []
    for want, lit, b, case in NAME_LITERALS:
        if (want, lit) in seen or has_surrogate(want):
            continue
        seen.add((want, lit))
        items.append((want, lit, b, case))
        if len(items) >= n:
            break
    del NAME_LITERALS[:]
    for std in (None, "c++14"):
        for i in range(0, len(items), 400):
            chunk = items[i : i + 400]
            res = run_echo([("S", lit) for _, lit, _, _ in chunk], std)
            label = std or "default"
            if "compile_error" in res:
                for want, lit, b, case in chunk:
                    one = run_echo([("S", lit)], std)
                    if "compile_error" in one:
                        ctx.violation(key=f"echo-name:{label}:{want!r}", what=f"g++ ({label}) rejects the literal `{lit}` emitted for the name {want!r} on {b}", case=case, observed=one["compile_error"][:300], how="compile the literal found at the name's place of the booking line")
                        break
                continue
            for k, (want, lit, b, case) in enumerate(chunk):
                ctx.count(f"echo-name:{label}")
                got = res["out"].get(k)
                if got != ("S", want.encode("utf-8")):
                    ctx.violation(key=f"echo-name:{label}:{want!r}", what=f"compiled with g++ ({label}), the literal `{lit}` emitted for the name {want!r} on {b} is {got}", case=case, observed=str(got), how="compile the literal found at the name's place of the booking line")


def check_book_lines(ctx, case, backend, tree, leaves, impl_lines, model, stream: str, known_key: Optional[str] = None) -> bool:
    reqs, where = book_compare(ctx, case, backend, tree, impl_lines, model, stream, known_key)
    return book_judge(ctx, where, ctx.driver(DRIVER, reqs)) == 0


def plain_filter(ctx, names: List[str]) -> Dict[str, bool]:
    """the hypothesis of names_verbatim_partial, judged by the Lean predicate itself"""
    names = sorted(set(names))
    hyp = ctx.driver(DRIVER, [{"op": "hyp", "s": cp(s)} for s in names])
    return {s: h.get("plain", False) for s, h in zip(names, hyp)}


def model_books(ctx, jobs: List[Tuple[str, str, List[Tuple[str, str]]]]) -> List[Optional[Dict[str, Any]]]:
    """the model's booking / fill lines for many (backend, tree, leaves) in one driver call"""
    reqs, spans = [], []
    for b, tree, leaves in jobs:
        r = book_requests(b, tree, leaves)
        spans.append((len(reqs), len(r)))
        reqs += r
    ans = ctx.driver(DRIVER, reqs)
    out = []
    for (b, tree, leaves), (o, k) in zip(jobs, spans):
        a = ans[o : o + k]
        out.append(None if any("bad" in x for x in a) else compose_book(a[:-1], a[-1], leaves))
    return out


def book_stream(ctx, n: int):
    rng = ctx.rng
    cases = []
    for i in range(n):
        b = list(BACKENDS)[i % 3]
        tree = gen_name(rng)
        leaves = [(gen_name(rng), "_v%d" % k) for k in range(rng.choice([1, 1, 2, 3]))]
        cases.append((b, tree, leaves))
    for i, q in enumerate(q_runs(embed=False) + q_runs()[2::4]):
        cases.append((list(BACKENDS)[i % 3], q if i % 2 == 0 else "t" + q, [(q[::-1] + q if i % 3 == 0 else q, "_v0"), ("x" + q + "y", "_v1")]))
    kept = cases  # every name: the theorem has no hypothesis since the names are escaped
    models = model_books(ctx, kept)
    reqs, where = [], []
    for (b, tree, leaves), model in zip(kept, models):
        if model is None:
            continue
        impl = impl_book(b, tree, leaves)
        case = {"stream": "book", "backend": b, "tree": cp(tree), "leaves": [[cp(n_), x] for n_, x in leaves]}
        ctx.count(f"book:backend:{b}")
        ctx.count(f"book:leaves:{len(leaves)}")
        ctx.case(["book", b, tree, leaves], nontrivial_const(tree) or any(nontrivial_const(n_) for n_, _ in leaves), {"backend": b, "tree": tree, "leaves": leaves, "lines": impl.get("book")})
        if "err" in impl:
            ctx.violation(key=f"book:{b}:{tree!r}", what=f"booking emitter of {b} raised {impl['err']}", case=case, observed=impl, how="visitor.create_book_ttree_obj(tree, leaves).emit(e)")
            continue
        r, w = book_compare(ctx, case, b, tree, impl, model, "book")
        reqs += r
        where += w
    book_judge(ctx, where, ctx.driver(DRIVER, reqs))


def names_pipeline_stream(ctx, n: int):
    """tree / column names and dict keys through the whole pipeline"""
    rng = ctx.rng
    staged = []
    for i in range(n):
        b = list(BACKENDS)[i % 3]
        coll = BACKENDS[b]["coll"]
        style = ["ttree", "dict"][(i // 3) % 2]
        n1, n2, t = gen_name(rng, in_file=True), gen_name(rng, in_file=True), gen_name(rng)
        if i % 5 == 0:
            qs = q_runs(embed=False)
            n1, t = qs[(7 * i) % len(qs)], "t" + qs[(11 * i + 3) % len(qs)]
        if n1 == n2:
            n2 = n2 + "x"
        if style == "ttree":
            src = f"ResultTTree(Select(SelectMany(EventDataset('x'), lambda e: e.{coll}('J')), lambda j: (j.pt(), j.eta())), [__N1__, __N2__], __T__, 'f.root')"
            tree = t
        else:
            src = f"Select(SelectMany(EventDataset('x'), lambda e: e.{coll}('J')), lambda j: {{__N1__: j.pt(), __N2__: j.eta()}})"
            tree = {"atlas": "atlas_xaod_tree", "cms_aod": "cms_aod_tree", "cms_miniaod": "cms_miniaod_tree"}[b]
        staged.append({"b": b, "style": style, "names": [n1, n2], "tree": tree, "t": t, "src": src})
    jobs, live = [], []
    for s in staged:
        b = s["b"]
        a = build_ast(s["src"], {"__N1__": s["names"][0], "__N2__": s["names"][1], "__T__": s["t"]})
        s["via"] = "ast"
        if rng.random() < 0.25:
            a2 = qastle_roundtrip(a)
            if a2 is not None:
                a, s["via"] = a2, "qastle"
        r = run_query(b, a)
        ctx.check_time()
        case = {"stream": "names", "backend": b, "style": s["style"], "via": s["via"], "names": [cp(x) for x in s["names"]], "tree": cp(s["tree"]), "query": s["src"]}
        s["case"] = case
        ctx.count(f"names:style:{s['style']}")
        ctx.count(f"names:backend:{b}")
        ctx.count(f"names:via:{s['via']}")
        ctx.case(["names", b, s["style"], s["names"], s["tree"]], any(nontrivial_const(x) for x in s["names"] + [s["tree"]]), {"backend": b, "names": s["names"], "tree": s["tree"]})
        if "err" in r:
            ctx.violation(key=f"names:{b}:{s['names']!r}:{s['tree']!r}", what=f"a query with the tree/column names of `case` was refused on {b}: {r['err']}: {r.get('msg')}", case=case, observed=r, how="apply_ast_transformations + write_cpp_files")
            continue
        if r.get("tree") != s["tree"]:
            ctx.violation(key=f"names:{b}:descriptor:{s['tree']!r}", what=f"the returned descriptor names tree {r.get('tree')!r}, the query asked for {s['tree']!r}", case=case, observed=r.get("tree"), how="ExecutionInfo.result_rep.treename")
        il = extract_book_lines(b, r["files"][BACKENDS[b]["main"]])
        if len(il["vars"]) != 2:
            ctx.disagreement("names-lines", case, "two Branch lines", il)
            continue
        s["il"] = il
        s["leaves"] = [(nm, v) for nm, v in zip(s["names"], il["vars"])]
        jobs.append((b, s["tree"], s["leaves"]))
        live.append(s)
    models = model_books(ctx, jobs)
    reqs, where = [], []
    for s, model in zip(live, models):
        if model is None:
            continue
        r, w = book_compare(ctx, s["case"], s["b"], s["tree"], s["il"], model, "names")
        reqs += r
        where += w
    book_judge(ctx, where, ctx.driver(DRIVER, reqs))


def extract_book_lines(backend: str, text: str) -> Dict[str, Any]:
    """the booking and fill lines of a generated file (indentation and the templates' trailing blank removed)"""
    book, fill, vars_ = [], [], []
    for raw in text.split("\n"):
        l = raw.strip(" ")
        if "TTree" in l and ("book (" in l or "make<TTree>" in l) or l.startswith("auto myTree = tree (") or l == "edm::Service<TFileService> fs;":
            book.append(l)
        elif l.startswith("myTree->Branch("):
            book.append(l)
            m = re.search(r", &(.*)\);$", l, re.S)
            vars_.append(m.group(1) if m else "")
        elif l.endswith("->Fill();"):
            fill.append(l)
    return {"book": book, "fill": fill, "vars": vars_}


def echo_stream(ctx, recs: List[Dict[str, Any]], n: int, workers: int):
    """g++ as the judge: literals emitted by the implementation, compiled, echoed, compared bit for bit."""
    items = []
    seen = set()
    for rec in recs:
        v, r = rec["v"], rec["impl"]
        if "ok" not in r or type(v) not in (str, int, float, bool):
            continue
        if type(v) is str and has_surrogate(v):
            continue
        k = (type(v).__name__, repr(v))
        if k in seen:
            continue
        seen.add(k)
        items.append((v, r["ok"]["text"], rec.get("spec", {}).get("holds", True)))
        if len(items) >= n:
            break
    chunks = [items[i : i + 400] for i in range(0, len(items), 400)]
    def job(chunk, std):
        # under -std=c++14 (trigraphs active) the strings only; every string: str_roundtrip_trigraphs has no hypothesis
        its = [("S" if type(v) is str else "N", t) for v, t, _ in chunk if std is None or type(v) is str]
        vs = [(v, t) for v, t, _ in chunk if std is None or type(v) is str]
        if not its:
            return std, vs, {"out": {}}
        return std, vs, run_echo(its, std)

    jobs = [(c, None) for c in chunks] + [(c, "c++14") for c in chunks]
    with concurrent.futures.ThreadPoolExecutor(max_workers=workers) as ex:
        results = list(ex.map(lambda a: job(*a), jobs))
    for std, vs, res in results:
        label = std or "default"
        if "compile_error" in res:
            # find the culprit: compile one by one (rare path)
            for v, t in vs:
                one = run_echo([("S" if type(v) is str else "N", t)], std)
                if "compile_error" in one:
                    ctx.violation(
                        key=f"echo:{label}:{describe(v)['kind']}:{describe(v).get('v', describe(v).get('repr'))}",
                        what=f"g++ ({label}) rejects the literal `{t}` emitted for the constant {v!r}",
                        case={"stream": "echo", "std": std, "const": describe(v), "text": t},
                        observed=one["compile_error"][:300],
                        how="compile `static const char s[] = <text>;` / `auto v = <text>;` with g++",
                    )
                    break
            continue
        for i, (v, t) in enumerate(vs):
            ctx.count(f"echo:{label}:{type(v).__name__}")
            got = res["out"].get(i)
            want = expected_echo(v)
            if got != want:
                ctx.violation(
                    key=f"echo:{label}:{describe(v)['kind']}:{describe(v).get('v', describe(v).get('repr'))}",
                    what=f"compiled with g++ ({label}), the literal `{t}` emitted for the constant {v!r} is {got}, expected {want}",
                    case={"stream": "echo", "std": std, "const": describe(v), "text": t},
                    observed=str(got),
                    how="compile `static const char s[] = <text>;` / `auto v = <text>;` with g++ and print the bytes",
                )
    ctx.extra_cov["gpp_echo_literals"] = len(items)


def lexer_validation(ctx, thorough: bool):
    """the Lean lexer (trusted transcription of C++) against g++ on literals the translator never emits"""
    probes = list(LEXER_PROBES)
    res = run_echo([(k, t) for t, k in probes])
    reqs = [({"op": "lexstr", "text": cp(t), "tri": False} if k == "S" else {"op": "lexnum", "text": cp(t)}) for t, k in probes]
    ans = ctx.driver(DRIVER, reqs)
    if "compile_error" in res:
        ctx.broken.append({"kind": "lexer-validation", "what": "the probe program no longer compiles", "stderr": res["compile_error"]})
        return
    for i, ((t, k), lx) in enumerate(zip(probes, ans)):
        if "bad" in lx:
            continue
        ctx.count("lexer-probe")
        d = lex_matches_gpp(k, lx, res["out"].get(i))
        if d is not None:
            ctx.disagreement("lean-lexer-vs-g++", {"stream": "lexer", "text": t}, "agree", d)
    # the rounding oracle (roundsTo) against CPython's correctly rounded float(): positive and negative controls
    from decimal import Decimal, getcontext

    getcontext().prec = 1200
    ctl: List[Tuple[str, int, bool]] = []
    xs = [x for x in FLOAT_EDGES if x == x] + [gen_finite_float(ctx.rng) for _ in range(300 if thorough else 60)]
    for x in xs:
        up, dn = math.nextafter(x, math.inf), math.nextafter(x, -math.inf)
        ctl.append((repr(x), bits_of(x), True))
        for y in (up, dn):
            if y not in (math.inf, -math.inf) and bits_of(y) != bits_of(x):
                ctl.append((repr(y), bits_of(x), False))
                mid = (Decimal(x) + Decimal(y)) / 2  # exact tie: goes to the neighbour with the even mantissa
                t = format(mid, "e") if mid != 0 else None
                if t is not None and "Infinity" not in t and "NaN" not in t:
                    t = t.replace("E", "e")
                    z = float(t)
                    if z not in (math.inf, -math.inf):
                        ctl.append((t, bits_of(z), True))
                        ctl.append((t, bits_of(y if bits_of(z) == bits_of(x) else x), False))
    ra = ctx.driver(DRIVER, [{"op": "rounds", "text": cp(t), "bits": str(b)} for t, b, _ in ctl])
    for (t, b, want), a in zip(ctl, ra):
        if "bad" in a:
            continue
        ctx.count("rounding-oracle-control:" + ("positive" if want else "negative"))
        if a.get("holds") != want:
            ctx.disagreement("lean-roundsTo-vs-cpython", {"stream": "lexer", "text": t, "bits": str(b)}, f"roundsTo = {a.get('holds')}", f"CPython float(): {want}")
    if thorough:
        rej = ctx.driver(DRIVER, [{"op": "lexstr", "text": cp(t), "tri": False} for t in LEXER_REJECTS])
        for t, lx in zip(LEXER_REJECTS, rej):
            one = run_echo([("S", t)])
            ctx.count("lexer-reject-probe")
            lean_rejects = lx.get("v") is None or bool(lx.get("rest"))
            if ("compile_error" in one) != lean_rejects:
                ctx.disagreement("lean-lexer-vs-g++", {"stream": "lexer", "text": t}, f"Lean rejects: {lean_rejects}", f"g++ rejects: {'compile_error' in one}")
        # trigraph phase against g++ -std=c++14
        tri_texts = ['"a??/b"', '"x??=y"', '"??(??)??<??>??!??\'??-"', '"a??b???/n"', '"?" "?/"'][:4]
        res14 = run_echo([("S", t) for t in tri_texts], "c++14")
        a14 = ctx.driver(DRIVER, [{"op": "lexstr", "text": cp(t), "tri": True} for t in tri_texts])
        if "out" in res14:
            for i, (t, lx) in enumerate(zip(tri_texts, a14)):
                ctx.count("lexer-trigraph-probe")
                d = lex_matches_gpp("S", lx, res14["out"].get(i))
                if d is not None:
                    ctx.disagreement("lean-lexer-vs-g++-c++14", {"stream": "lexer", "text": t}, "agree", d)


# --------------------------------------------------------------------------------------------
# stored constants: a numeric constant that reaches the output through a temporary
# (arms of conditional expressions nested to any depth, columns of a per-object Select)
# --------------------------------------------------------------------------------------------
# A *carrier* is an expression whose value is one of its constants: {"c": value, "form": "node"|"unary"} or
# {"ite": [test source, carrier, carrier]}. "unary" = a negative number as Python's parser delivers it
# (UnaryOp(USub, Constant(|v|))), "node" = one Constant node (qastle / hand-built ASTs).
TEST_ATOMS = [
    "j.pt() > 30000.0", "j.pt() > 1.0", "j.eta() < 2.0", "j.eta() > 0.5", "j.pt() <= 100", "j.eta() >= -0.5",
    "j.pt() == 1.5", "j.pt() != 1.5", "j.pt() < 40.5", "j.eta() <= 0.75", "2.0 > j.eta()", "1 < j.pt()",
]
MOCK_OBJECTS = [(40000.0, 0.25), (1.5, 3.0), (0.25, 0.75), (50.0, -1.0)]  # (pt, eta): every atom is true on one and false on another


def gen_test(rng) -> str:
    a = lambda: rng.choice(TEST_ATOMS)
    r = rng.random()
    if r < 0.5:
        return a()
    if r < 0.65:
        return f"{a()} and {a()}"
    if r < 0.8:
        return f"{a()} or {a()}"
    if r < 0.9:
        return f"not {a()}"
    return f"{a()} and ({a()} or {a()})"


def gen_stored_num(rng) -> Any:
    r = rng.random()
    if r < 0.42:
        return gen_int32(rng)
    if r < 0.92:
        return gen_finite_float(rng)
    return rng.random() < 0.5


def gen_carrier(rng, depth: int, top: bool = True) -> Dict[str, Any]:
    if depth <= 0 or rng.random() < (0.0 if depth >= 3 else 0.35):
        # a string: fine as a bare column, refused (ValueError) as an arm of a conditional; kept rare there so that
        # refused queries stay a small part of the stream
        if rng.random() < (0.25 if top else 0.04):
            return {"c": gen_str(rng, allow_nul=False)[:12], "form": "node"}
        v = gen_stored_num(rng)
        neg = type(v) in (int, float) and (v < 0 or (type(v) is float and math.copysign(1.0, v) < 0)) and v != -(2**31)
        return {"c": v, "form": "unary" if neg and rng.random() < 0.5 else "node"}
    return {"ite": [gen_test(rng), gen_carrier(rng, depth - 1, False), gen_carrier(rng, depth - 1, False)]}


def carrier_consts(k: Dict[str, Any]) -> List[Any]:
    return [k["c"]] if "c" in k else carrier_consts(k["ite"][1]) + carrier_consts(k["ite"][2])


def carrier_src(k: Dict[str, Any], names: List[Tuple[str, Any]]) -> str:
    """Python source with one placeholder name per constant (source order); `names` collects (placeholder, node value)"""
    if "c" in k:
        n = "__K%d__" % len(names)
        if k.get("form") == "unary":
            names.append((n, -k["c"]))
            return f"(-{n})"
        names.append((n, k["c"]))
        return n
    t, a, b = k["ite"]
    sa = carrier_src(a, names)
    return f"({sa} if {t} else {carrier_src(b, names)})"


def carrier_json(k: Dict[str, Any]) -> Dict[str, Any]:
    return {"c": describe(k["c"]), "form": k.get("form", "node")} if "c" in k else {"ite": [k["ite"][0], carrier_json(k["ite"][1]), carrier_json(k["ite"][2])]}


def carrier_unjson(k: Dict[str, Any]) -> Dict[str, Any]:
    return {"c": value_of(k["c"]), "form": k.get("form", "node")} if "c" in k else {"ite": [k["ite"][0], carrier_unjson(k["ite"][1]), carrier_unjson(k["ite"][2])]}


def carrier_lean(k: Dict[str, Any]) -> Dict[str, Any]:
    return {"c": const_json(k["c"])} if "c" in k else {"ite": [carrier_lean(k["ite"][1]), carrier_lean(k["ite"][2])]}


def carrier_size(k: Dict[str, Any]) -> int:
    return 1 if "c" in k else 1 + carrier_size(k["ite"][1]) + carrier_size(k["ite"][2])


class _MockObj:
    def __init__(self, pt, eta):
        self._pt, self._eta = pt, eta

    def pt(self):
        return self._pt

    def eta(self):
        return self._eta


def carrier_value(k: Dict[str, Any], obj: Tuple[float, float]) -> Any:
    """what Python makes of the carrier on that object"""
    if "c" in k:
        return k["c"]
    t, a, b = k["ite"]
    return carrier_value(a if eval(t, {"j": _MockObj(*obj)}) else b, obj)


STORED_LAYOUTS = {"single": 1, "tuple": 2, "dict": 2}


def stored_query(backend: str, layout: str, ks: List[Dict[str, Any]]) -> Tuple[str, Dict[str, Any]]:
    names: List[Tuple[str, Any]] = []
    es = [carrier_src(k, names) for k in ks]
    if layout == "single":
        body = es[0]
    elif layout == "tuple":
        body = "(" + ", ".join(es) + ")"
    else:
        body = "{" + ", ".join("'c%d': %s" % (i, e) for i, e in enumerate(es)) + "}"
    src = f"Select(SelectMany(EventDataset('x'), lambda e: e.{BACKENDS[backend]['coll']}('J')), lambda j: {body})"
    return src, dict(names)


def gen_stored_cases(ctx, n: int) -> List[Dict[str, Any]]:
    rng = ctx.rng
    out = []
    # one conditional between two literals for every ordered pair of kinds (int, fractional float, integral float,
    # bool), values drawn; then random carriers
    def of_kind(kd):
        while True:
            v = gen_int32(rng) if kd == "int" else gen_finite_float(rng) if kd in ("frac", "whole") else rng.random() < 0.5
            if kd == "frac" and (v == int(v) if abs(v) < 2.0**62 else True):
                continue
            if kd == "whole":
                v = float(rng.choice([0, 1, 2, -1, 7, 100, -40, 2**31, 10**6]) if rng.random() < 0.7 else gen_int32(rng))
            return v

    kinds = ["int", "frac", "whole", "bool"]
    for i, (ka, kb) in enumerate((x, y) for x in kinds for y in kinds):
        out.append({"backend": list(BACKENDS)[i % 3], "layout": "single", "ks": [{"ite": [rng.choice(TEST_ATOMS), {"c": of_kind(ka), "form": "node"}, {"c": of_kind(kb), "form": "node"}]}], "qastle": False})
    i = 0
    while len(out) < n:
        b = list(BACKENDS)[i % 3]
        layout = ["single", "tuple", "single", "dict"][(i // 3) % 4]
        i += 1
        ks = [gen_carrier(rng, rng.choice([0, 1, 1, 1, 2, 2, 3])) for _ in range(STORED_LAYOUTS[layout])]
        out.append({"backend": b, "layout": layout, "ks": ks, "qastle": rng.random() < 0.25})
    return out[:n]


_CAST = re.compile(r"^static_cast<\s*([A-Za-z_][\w ]*?)\s*>\s*\((.*)\)$", re.S)


def _balanced(t: str) -> bool:
    d = 0
    for ch in t:
        d += ch == "("
        d -= ch == ")"
        if d < 0:
            return False
    return d == 0


def strip_rhs(rhs: str) -> Tuple[List[str], bool, str]:
    """(types of the written casts, innermost first; negated?; what is left) of `static_cast<T>((-(x)))`-like text"""
    casts: List[str] = []
    neg = False
    t = rhs.strip()
    while True:
        m = _CAST.match(t)
        if m and _balanced(m.group(2)) and not neg:  # (a cast under a minus sign is not read: the text stays as it is)
            casts.insert(0, m.group(1))
            t = m.group(2).strip()
            continue
        if t.startswith("(") and t.endswith(")") and _balanced(t[1:-1]):
            t = t[1:-1].strip()
            continue
        if t.startswith("-(") and t.endswith(")") and _balanced(t[2:-1]):
            neg = not neg
            t = t[2:-1].strip()
            continue
        return casts, neg, t


_NUMLIT = re.compile(r"^(-?(\d[\w.]*([eE][+-]?\d+)?[\w]*|\.\d[\w.+-]*)|true|false)$")


def loop_body(text: str) -> Optional[Tuple[str, List[str]]]:
    """(loop variable, stripped lines of the body of the first range-for) of a generated source file"""
    lines = text.split("\n")
    for i, l in enumerate(lines):
        m = re.match(r"^\s*for \(auto &&(\w+) : \*\w+\)\s*$", l)
        if not m:
            continue
        depth, body = 0, []
        for l2 in lines[i + 1 :]:
            st = l2.strip()
            if st == "{":
                depth += 1
                if depth == 1:
                    continue
            elif st == "}":
                depth -= 1
                if depth == 0:
                    return m.group(1), body
            if st:
                body.append(st)
        return None
    return None


def column_decls(backend: str, files: Dict[str, str]) -> List[Tuple[str, str]]:
    """(variable, declared type) of the output columns, in the order they are booked (the variables are those whose
    address the booking lines hand to the tree)"""
    out = []
    for var in extract_book_lines(backend, files[BACKENDS[backend]["main"]])["vars"]:
        m = re.search(r"^\s*([A-Za-z_][\w:<> ]*?)\s+" + re.escape(var) + r";", files[BACKENDS[backend]["decl"]], re.M)
        if m and re.match(r"^\w+$", var):
            out.append((var, m.group(1)))
    return out


def literal_paths(body: List[str], cols: Dict[str, str]) -> Optional[List[Dict[str, Any]]]:
    """def-use chains of the numeric literals assigned in the body, in text order: for each the literal's text, the
    types it is converted to (written casts and declared types of the variables, the column last) and the column.
    None when the body has a form this reader does not know."""
    norm = lambda t: "string" if t.replace(" ", "") == "std::string" else t
    types = {k_: norm(t_) for k_, t_ in cols.items()}
    cols = types.copy()
    assigns: List[Tuple[str, List[str], bool, str]] = []
    for l in body:
        m = re.match(r"^([A-Za-z_][\w:<> ]*?) (\w+);$", l)
        if m and "=" not in l and m.group(1) not in ("return", "else"):
            types[m.group(2)] = norm(m.group(1))
            continue
        m = re.match(r"^(\w+) = (.*);$", l, re.S)
        if m:
            casts, neg, rest = strip_rhs(m.group(2))
            assigns.append((m.group(1), casts, neg, rest))
    out = []
    for lhs, casts, neg, rest in assigns:
        if not (_NUMLIT.match(rest) or (len(rest) >= 2 and rest[0] == '"' and rest[-1] == '"' and not neg)):
            continue
        text = rest
        if neg:
            text = text[1:] if text.startswith("-") else "-" + text
        if lhs not in types:
            return None
        chain = list(casts) + [types[lhs]]
        v, seen = lhs, {lhs}
        while v not in cols:
            nxt = [(l2, c2) for l2, c2, n2, r2 in assigns if r2 == v and not n2]
            if len(nxt) != 1 or nxt[0][0] in seen or nxt[0][0] not in types:
                return None
            v = nxt[0][0]
            seen.add(v)
            chain += list(nxt[0][1]) + [types[v]]
        out.append({"text": text, "chain": chain, "col": v, "line": f"{lhs} = ...{rest}..."})
    return out


STORED_MOCK_HEAD = r"""#include <cstdio>
#include <cstring>
#include <cmath>
#include <string>
using std::string;
static int IDX = 0;
static void hx(const void* p, size_t n){ const unsigned char* b=(const unsigned char*)p; for(size_t i=0;i<n;i++) printf("%02x", b[i]); printf("\n"); }
static void show(int v){ printf("%d N int ", IDX); hx(&v, sizeof v); }
static void show(unsigned v){ printf("%d N unsigned int ", IDX); hx(&v, sizeof v); }
static void show(long v){ printf("%d N long ", IDX); hx(&v, sizeof v); }
static void show(unsigned long v){ printf("%d N unsigned long ", IDX); hx(&v, sizeof v); }
static void show(long long v){ printf("%d N long long ", IDX); hx(&v, sizeof v); }
static void show(float v){ printf("%d N float ", IDX); hx(&v, sizeof v); }
static void show(double v){ printf("%d N double ", IDX); hx(&v, sizeof v); }
static void show(bool v){ printf("%d N bool ", IDX); hx(&v, sizeof v); }
static void show(const std::string& s){ printf("%d S string ", IDX); hx(s.data(), s.size()); }
struct J { double _pt, _eta; double pt() const { return _pt; } double eta() const { return _eta; }
  double zzq(double a) const { return a; } double zzq(double a, double b) const { return a + 2.0 * b; } };
struct MockTree { void Fill(){} };
static MockTree g_tree; static MockTree* myTree = &g_tree; static MockTree* tree(const char*){ return &g_tree; }
"""


def stored_block(i: int, var: str, body: List[str], cols: List[Tuple[str, str]], obj: Tuple[float, float]) -> str:
    text = "\n".join(body)
    ptr = re.search(r"\b" + re.escape(var) + r"->", text) is not None
    bind = f"const J* {var} = &o;" if ptr else f"const J& {var} = o;"
    decl = " ".join(f"{t} {n};" for n, t in cols)
    shows = " ".join(f"show({n});" for n, _ in cols)
    return "static void blk_%d(){ IDX = %d; J o{%r, %r}; %s (void)%s;\n%s\n%s\n%s\n}\n" % (i, i, obj[0], obj[1], bind, var, decl, text, shows)


def run_stored_echo(blocks: List[str]) -> Dict[str, Any]:
    d = Path(tempfile.mkdtemp(prefix="c18s"))
    try:
        main = "int main(){ " + " ".join("blk_%d();" % i for i in range(len(blocks))) + " return 0; }\n"
        (d / "s.cpp").write_bytes((STORED_MOCK_HEAD + "".join(blocks) + main).encode("utf-8"))
        p = subprocess.run(["g++", "-w", "-O0", "s.cpp", "-o", "s"], cwd=d, capture_output=True, text=True, timeout=600)
        if p.returncode != 0:
            return {"compile_error": p.stderr[:800]}
        r = subprocess.run(["./s"], cwd=d, capture_output=True, text=True, timeout=120)
        res: Dict[int, List[Any]] = {}
        for ln in r.stdout.split("\n"):
            m = re.match(r"^(\d+) [NS] ([a-z ]+) ([0-9a-f]*)$", ln)
            if m:
                res.setdefault(int(m.group(1)), []).append((m.group(2), bytes.fromhex(m.group(3))))
        return {"out": res}
    finally:
        shutil.rmtree(d, ignore_errors=True)


def shown_number(ty: str, raw: bytes) -> Any:
    if ty == "string":
        return raw.decode("utf-8", "replace")
    if ty == "double":
        return struct.unpack("<d", raw)[0]
    if ty == "float":
        return struct.unpack("<f", raw)[0]
    if ty == "bool":
        return raw != b"\x00"
    return int.from_bytes(raw, "little", signed=not ty.startswith("unsigned"))


def same_number(want: Any, got: Any) -> bool:
    """numerically the same (1 and 1.0 and True; the sign of a floating zero counts when both are floating)"""
    from fractions import Fraction

    if isinstance(want, str) or isinstance(got, str):
        return isinstance(want, str) and isinstance(got, str) and want == got
    if isinstance(got, float) and (got != got or got in (math.inf, -math.inf)):
        return False
    if Fraction(want) != Fraction(got):
        return False
    if isinstance(want, float) and want == 0:
        return isinstance(got, float) and math.copysign(1.0, want) == math.copysign(1.0, got)
    return True


def stored_stream(ctx, cases: List[Dict[str, Any]], workers: int = 4):
    staged = []
    for c in cases:
        b, layout, ks = c["backend"], c["layout"], c["ks"]
        src, names = stored_query(b, layout, ks)
        a = build_ast(src, names)
        via = "ast"
        if c.get("qastle"):
            a2 = qastle_roundtrip(a)
            if a2 is not None:
                a, via = a2, "qastle"
        r = run_query(b, a)
        ctx.check_time()
        consts = [v for k in ks for v in carrier_consts(k)]
        case = {"stream": "stored", "backend": b, "layout": layout, "via": via, "exprs": [carrier_json(k) for k in ks], "query": src, "constants": {n: describe(v) for n, v in names.items()}}
        ctx.count(f"stored:backend:{b}")
        ctx.count(f"stored:layout:{layout}")
        ctx.count(f"stored:via:{via}")
        ctx.count("stored:nodes:%d" % min(9, max(carrier_size(k) for k in ks)))
        for v in consts:
            ctx.count(f"stored:kind:{type(v).__name__}")
        ctx.case(["stored", b, layout, case["exprs"]], any(nontrivial_const(v) for v in consts) or any("ite" in k for k in ks), {"backend": b, "query": src, "constants": {n: repr(v) for n, v in names.items()}})
        key = "stored:%s:%s" % (b, json.dumps(case["exprs"], sort_keys=True, default=str))
        st = {"c": c, "case": case, "key": key, "consts": consts, "r": r}
        staged.append(st)
        if "err" in r:
            ctx.count("stored:impl-refused:" + r["err"])  # judged below, against the model's `accepted`
            continue
        lb = loop_body(r["files"][BACKENDS[b]["main"]])
        cols = column_decls(b, r["files"])
        if lb is None or len(cols) != len(ks):
            ctx.disagreement("stored-shape", case, f"a range-for over the collection and {len(ks)} column declaration(s)", {"loop": lb is not None, "columns": cols})
            continue
        st["var"], st["body"], st["cols"] = lb[0], lb[1], cols
        ps = literal_paths(lb[1], dict(cols))
        if ps is not None:
            # a carrier fills one column: its constants in source order are the literals flowing into that column in
            # text order (the statements of an arm stand inside the arm's block); columns in the order of declaration
            ps = [p_ for n_, _ in cols for p_ in ps if p_["col"] == n_]
            per_col = [len([p_ for p_ in ps if p_["col"] == n_]) for n_, _ in cols]
            if per_col != [len(carrier_consts(k)) for k in ks]:
                ps = None
        st["paths"] = ps
        st["raw_paths"] = ps
    # --- the Lean side: the model's conversion chains, and the Spec on the chains read off the generated text
    reqs: List[Dict[str, Any]] = []
    for st in staged:
        if "body" not in st and "err" not in st["r"]:
            continue
        st["i"] = len(reqs)
        reqs += [{"op": "carrier", "k": carrier_lean(k)} for k in st["c"]["ks"]]
        ps = st.get("paths")
        if ps is not None and len(ps) == len(st["consts"]):
            st["j"] = len(reqs)
            reqs += [{"op": "stored", "c": const_json(v), "text": cp(p_["text"]), "chain": p_["chain"]} for v, p_ in zip(st["consts"], ps)]
    ans = ctx.driver(DRIVER, reqs)
    for st in staged:
        if "i" not in st:
            continue
        case, b = st["case"], st["c"]["backend"]
        ma = ans[st["i"] : st["i"] + len(st["c"]["ks"])]
        if any("bad" in a for a in ma):
            continue
        model_chains = [ch for a in ma for ch in a["paths"]]
        accepted = all(a.get("accepted", True) for a in ma)
        ctx.count("stored:model:" + ("accepted" if accepted else "refused"))
        r = st["r"]
        if "err" in r:
            if accepted:
                ctx.violation(key=st["key"], what=f"a query whose value is one of its constants, each of which has a C++ literal that fits where it goes, was refused on {b}: {r['err']}: {r.get('msg')} — {case['query']} with {case['constants']!r}", case=case, observed=r, how="apply_ast_transformations + write_cpp_files on the query of `case`")
            elif r["err"] != "ValueError":
                ctx.disagreement("stored-refusal", case, "ValueError (a string as the value of a conditional expression)", r["err"])
            continue
        if not accepted:
            # a string arm of a conditional was let through: what is emitted for it is judged below (StoredOk, g++)
            ctx.disagreement("stored-acceptance", case, "refused: a string as the value of a conditional expression cannot be stored in its result variable", "accepted")
        if "j" not in st:
            ctx.disagreement("stored-shape", case, {"literal assignments": len(st["consts"]), "chains": model_chains}, st["paths"])
            continue
        # a conversion to the type the value already has changes nothing (a written cast before the assignment, a copy
        # into a second variable of the same type): chains are compared with consecutive repetitions removed
        squeeze = lambda ch: [t for i_, t in enumerate(ch) if i_ == 0 or ch[i_ - 1] != t]
        impl_chains = [squeeze(p_["chain"]) for p_ in st["paths"]]
        if impl_chains != [squeeze(ch) for ch in model_chains]:
            ctx.disagreement("stored-chain", case, [squeeze(ch) for ch in model_chains], impl_chains)
        for v, p_, s_ in zip(st["consts"], st["paths"], ans[st["j"] : st["j"] + len(st["consts"])]):
            if "bad" in s_:
                continue
            ctx.count("stored:spec:" + ("holds" if s_.get("holds") else "fails"))
            if not s_.get("holds", False):
                ctx.violation(
                    key=st["key"],
                    what=f"on {b}: in `{case['query']}` the constant {v!r} is assigned as `{p_['text']}` and converted through {' -> '.join(p_['chain'])} on its way into the column {p_['col']}: {s_.get('why')}",
                    case=case,
                    observed={"constant": describe(v), "assigned_text": p_["text"], "types_on_the_way": p_["chain"], "column": p_["col"], "body": st["body"]},
                    how="apply_ast_transformations + write_cpp_files on the query of `case`; read the declarations and assignments of the loop body; StoredOk through the Lean driver",
                )
    # --- g++ as the judge: the generated loop body, run on mock objects; what the columns receive
    jobs = []
    for st in staged:
        if "body" in st:
            for obj in MOCK_OBJECTS:
                jobs.append((st, obj))
    chunks = [jobs[i : i + 160] for i in range(0, len(jobs), 160)]

    def run_chunk(chunk):
        return run_stored_echo([stored_block(i, st["var"], st["body"], st["cols"], obj) for i, (st, obj) in enumerate(chunk)])

    with concurrent.futures.ThreadPoolExecutor(max_workers=workers) as ex:
        results = list(ex.map(run_chunk, chunks))
    for chunk, res in zip(chunks, results):
        if "compile_error" in res:
            done = set()
            for st, obj in chunk:  # which query? one at a time (rare path)
                if id(st) in done:
                    continue
                done.add(id(st))
                one = run_stored_echo([stored_block(0, st["var"], st["body"], st["cols"], obj)])
                if "compile_error" in one:
                    ctx.violation(key=st["key"], what=f"g++ rejects the loop body generated on {st['c']['backend']} for `{st['case']['query']}`", case=st["case"], observed={"g++": one["compile_error"][:400], "body": st["body"]}, how="compile the generated loop body against a mock object with pt() and eta()")
                    break
            continue
        for i, (st, obj) in enumerate(chunk):
            got = res["out"].get(i, [])
            want = [carrier_value(k, obj) for k in st["c"]["ks"]]
            ctx.count("stored:g++:objects")
            shown = [(ty, shown_number(ty, raw)) for ty, raw in got]
            if len(shown) != len(want) or not all(same_number(w, g[1]) for w, g in zip(want, shown)):
                ctx.violation(
                    key=st["key"],
                    what=f"on {st['c']['backend']}: `{st['case']['query']}` on an object with pt()={obj[0]!r}, eta()={obj[1]!r} has the value {want!r}; the generated code, compiled with g++, puts {[f'{ty} {v!r}' for ty, v in shown]} into the column(s)",
                    case=dict(st["case"], object={"pt": obj[0], "eta": obj[1]}),
                    observed={"columns_receive": [f"{ty} {v!r}" for ty, v in shown], "query_value": [repr(w) for w in want], "body": st["body"]},
                    how="apply_ast_transformations + write_cpp_files; compile the generated loop body against a mock object with pt() and eta(); print the column variables",
                )
    ctx.extra_cov["gpp_stored_bodies"] = len(jobs)
    return staged


def stored_case_from_json(case: Dict[str, Any]) -> Dict[str, Any]:
    return {"backend": case["backend"], "layout": case["layout"], "ks": [carrier_unjson(k) for k in case["exprs"]], "qastle": case.get("via") == "qastle"}


# --------------------------------------------------------------------------------------------
# operand stream: a constant as an OPERAND — directly after a binary `-` / `+`, under a unary sign, inside `**`, as a
# function / method argument, in a comparison, in the arms and the test of a conditional. The emitted TEXT is judged
# by a real C++ tokenizer (maximal munch: `--`, `++`, `->` … are single tokens) — the Lean one (`ExprOk`: tokenize,
# parse, compare with the query's expression) and g++ (the loop body compiled and run on mock objects).
# --------------------------------------------------------------------------------------------
# expression templates: ("leaf", method) | ("C", i) | ("un", op, e) | ("bin", op, a, b) | ("pow", a, b) |
# ("cmp", op, a, b) | ("call", name, [args]) (name `zzq`: a method of the object; else a math function) | ("ite", t, a, b)
_PT, _ETA = ("leaf", "pt"), ("leaf", "eta")
OPERAND_TEMPLATES: Dict[str, Any] = {
    "sub_right": ("bin", "-", _PT, ("C", 0)),
    "add_right": ("bin", "+", _PT, ("C", 0)),
    "mul_right": ("bin", "*", _PT, ("C", 0)),
    "div_right": ("bin", "/", _PT, ("C", 0)),
    "sub_left": ("bin", "-", ("C", 0), _PT),
    "add_left": ("bin", "+", ("C", 0), _ETA),
    "neg": ("un", "-", ("C", 0)),
    "pos": ("un", "+", ("C", 0)),
    "neg_neg": ("un", "-", ("un", "-", ("C", 0))),
    "sub_neg": ("bin", "-", _PT, ("un", "-", ("C", 0))),
    "add_pos": ("bin", "+", _PT, ("un", "+", ("C", 0))),
    "sub_sub": ("bin", "-", ("bin", "-", _PT, ("C", 0)), ("C", 1)),
    "sub_of_sub": ("bin", "-", _PT, ("bin", "-", ("C", 0), ("C", 1))),
    "const_sub_const": ("bin", "-", ("C", 0), ("C", 1)),
    "const_add_const": ("bin", "+", ("C", 0), ("C", 1)),
    "mul_add": ("bin", "+", ("bin", "*", ("C", 0), _PT), ("C", 1)),
    "pow_base": ("pow", ("C", 0), ("C", 1)),
    "pow_exp": ("pow", _PT, ("C", 0)),
    "pow_of_sub": ("pow", ("bin", "-", _PT, ("C", 0)), ("C", 1)),
    "cmp_sub": ("cmp", ">", ("bin", "-", _PT, ("C", 0)), ("C", 1)),
    "cmp_right": ("cmp", "<", _ETA, ("C", 0)),
    "cmp_left": ("cmp", ">=", ("C", 0), _ETA),
    "arg": ("call", "zzq", [("C", 0)]),
    "arg2": ("call", "zzq", [("C", 0), ("bin", "-", _PT, ("C", 1))]),
    "arg_sub": ("call", "zzq", [("bin", "-", _ETA, ("C", 0))]),
    "fn_arg": ("call", "sin", [("C", 0)]),
    "fn_arg_sub": ("call", "cos", [("bin", "-", _ETA, ("C", 0))]),
    "ite_arms": ("ite", ("cmp", ">", _PT, ("C", 0)), ("bin", "-", _PT, ("C", 1)), ("bin", "+", _ETA, ("C", 2))),
    "ite_test": ("ite", ("cmp", ">", ("bin", "-", _ETA, ("C", 0)), ("C", 1)), _PT, ("un", "-", ("C", 2))),
}
OPERAND_POW = {"pow_base", "pow_exp", "pow_of_sub"}  # constants kept small: Python raises where C++ returns inf / nan
OPERAND_LIBM = OPERAND_POW | {"fn_arg", "fn_arg_sub"}  # compared up to 4 ulp (two math libraries)
OPERAND_NONZERO = {"div_right"}
OPERAND_INT_PAIR = {"const_sub_const", "const_add_const", "sub_of_sub"}  # int (op) int stays an int in C++: small values


def tpl_nconst(t) -> int:
    if t[0] == "C":
        return t[1] + 1
    return max([0] + [tpl_nconst(x) for x in t[1:] if isinstance(x, tuple)] + [tpl_nconst(y) for x in t[1:] if isinstance(x, list) for y in x])


def tpl_src(t, forms: List[str]) -> str:
    k = t[0]
    if k == "leaf":
        return f"j.{t[1]}()"
    if k == "C":
        return {"node": "__K%d__", "unary": "(-__K%d__)", "uplus": "(+__K%d__)"}[forms[t[1]]] % t[1]
    if k == "un":
        return f"({t[1]}{tpl_src(t[2], forms)})"
    if k == "bin":
        return f"({tpl_src(t[2], forms)} {t[1]} {tpl_src(t[3], forms)})"
    if k == "pow":
        return f"({tpl_src(t[1], forms)} ** {tpl_src(t[2], forms)})"
    if k == "cmp":
        return f"({tpl_src(t[2], forms)} {t[1]} {tpl_src(t[3], forms)})"
    if k == "call":
        args = ", ".join(tpl_src(a, forms) for a in t[2])
        return f"j.zzq({args})" if t[1] == "zzq" else f"{t[1]}({args})"
    if k == "ite":
        return f"({tpl_src(t[2], forms)} if {tpl_src(t[1], forms)} else {tpl_src(t[3], forms)})"
    raise ValueError(k)


def tpl_lean(t, forms: List[str], consts: List[Any], var: Tuple[str, bool]) -> Optional[Dict[str, Any]]:
    """the query's expression for the Lean Spec (None: a node kind the Lean expression language does not have);
    var = (loop variable, is it a pointer?)"""
    k = t[0]
    if k == "leaf":
        return {"leaf" if var[1] else "leafdot": [cp(var[0]), cp(t[1])]}
    if k == "C":
        f, v = forms[t[1]], consts[t[1]]
        if f == "unary":
            return {"un": ["neg", {"c": const_json(-v)}]}
        if f == "uplus":
            return {"un": ["pos", {"c": const_json(v)}]}
        return {"c": const_json(v)}
    if k == "un":
        e = tpl_lean(t[2], forms, consts, var)
        return None if e is None else {"un": ["neg" if t[1] == "-" else "pos", e]}
    if k in ("bin", "cmp"):
        a, b = tpl_lean(t[2], forms, consts, var), tpl_lean(t[3], forms, consts, var)
        return None if a is None or b is None else {k: [t[1], a, b]}
    if k == "pow":
        a, b = tpl_lean(t[1], forms, consts, var), tpl_lean(t[2], forms, consts, var)
        return None if a is None or b is None else {"pow": [a, b]}
    return None


class _OpObj(_MockObj):
    def zzq(self, *a):
        return float(a[-1]) if len(a) == 1 else float(a[0]) + 2.0 * float(a[1])


def operand_value(src: str, names: Dict[str, Any], obj: Tuple[float, float]) -> Any:
    """what Python makes of the lambda body on that object; ('raises', class) when Python has no value"""
    body = build_ast(src, names)
    fn = eval(compile(ast.fix_missing_locations(ast.Expression(body=body)), "<operand>", "eval"), {"sin": math.sin, "cos": math.cos})
    try:
        return fn(_OpObj(*obj))
    except (ZeroDivisionError, OverflowError, ValueError) as e:
        return ("raises", type(e).__name__)


def gen_operand_const(rng, tname: str, idx: int) -> Any:
    if tname in OPERAND_POW:
        if tname == "pow_base" and idx == 1 or tname == "pow_of_sub" and idx == 1:
            return rng.choice([2, 3, 2, 1, 0])
        return rng.choice([0.5, 1.5, 2.0, -1.5, 2, 3, -2, 0.25, -0.75, 2.5e-07, -2.5e-07, 7, -3])
    if tname in OPERAND_INT_PAIR and rng.random() < 0.5:
        return rng.randint(-30000, 30000)
    while True:
        r = rng.random()
        if r < 0.4:
            v = gen_int32(rng)
        elif r < 0.55:
            v = rng.choice([-2.5e-07, 2.5e-07, -1.5e-3, -0.0, 0.0, -1.0, -2.5, 1e22, -1e22, -1e-320, 5e-324, -1.7976931348623157e308, -0.1, -1.5])
        else:
            v = gen_finite_float(rng)
        if tname in OPERAND_NONZERO and v == 0:
            continue
        if tname in OPERAND_INT_PAIR and type(v) is int and abs(v) > 10**9:
            continue
        if v == -(2**31) and type(v) is int and tname in ("neg", "pos", "neg_neg"):
            continue  # -(-2^31) is not an int: integer overflow, not a question about constants
        return v


def is_negative(v: Any) -> bool:
    return type(v) in (int, float) and (v < 0 or (type(v) is float and math.copysign(1.0, v) < 0))


def gen_operand_forms(rng, consts: List[Any], prefer: Optional[str] = None) -> List[str]:
    out = []
    for v in consts:
        if is_negative(v) and v != -(2**31):
            out.append(prefer if prefer in ("node", "unary") else rng.choice(["unary", "unary", "node"]))
        elif not is_negative(v):
            out.append("uplus" if (prefer == "uplus" or rng.random() < 0.15) else "node")
        else:
            out.append("node")
    return out


def gen_operand_cases(ctx, n: int) -> List[Dict[str, Any]]:
    rng = ctx.rng
    out = []
    names = list(OPERAND_TEMPLATES)
    # every template x (negative float through the parser's unary minus, negative float as one node, negative int
    # both ways, positive under a unary plus) first; then random constants and forms
    i = 0
    for tn in names:
        for kind, prefer in (("nf", "unary"), ("nf", "node"), ("ni", "unary"), ("ni", "node"), ("pf", "uplus")):
            nc = tpl_nconst(OPERAND_TEMPLATES[tn])
            consts = []
            for k in range(nc):
                for _ in range(200):
                    v = gen_operand_const(rng, tn, k)
                    ok = {"nf": type(v) is float and is_negative(v), "ni": type(v) is int and v < 0 and v != -(2**31), "pf": type(v) is float and not is_negative(v)}[kind]
                    if ok or tn in OPERAND_POW:
                        break
                consts.append(v)
            out.append({"backend": list(BACKENDS)[i % 3], "template": tn, "consts": consts, "forms": gen_operand_forms(rng, consts, prefer), "qastle": False})
            i += 1
    while len(out) < n:
        tn = names[i % len(names)]
        nc = tpl_nconst(OPERAND_TEMPLATES[tn])
        consts = [gen_operand_const(rng, tn, k) for k in range(nc)]
        out.append({"backend": list(BACKENDS)[(i // len(names) + i) % 3], "template": tn, "consts": consts, "forms": gen_operand_forms(rng, consts), "qastle": rng.random() < 0.2})
        i += 1
    return out[: max(n, len(names) * 5)]


def operand_names(c: Dict[str, Any]) -> Dict[str, Any]:
    return {"__K%d__" % k: (-v if f == "unary" else v) for k, (v, f) in enumerate(zip(c["consts"], c["forms"]))}


def operand_query(c: Dict[str, Any]) -> Tuple[str, str]:
    body = tpl_src(OPERAND_TEMPLATES[c["template"]], c["forms"])
    return body, f"Select(SelectMany(EventDataset('x'), lambda e: e.{BACKENDS[c['backend']]['coll']}('J')), lambda j: {body})"


def close_enough(want: Any, got: Any, ulps: int) -> bool:
    if same_number(want, got):
        return True
    if isinstance(want, float) and isinstance(got, float):
        if want != want:
            return got != got
        if want in (math.inf, -math.inf) or got in (math.inf, -math.inf) or got != got:
            return want == got
        if ulps and (want < 0) == (got < 0):
            a, b = bits_of(abs(want)), bits_of(abs(got))
            return abs(a - b) <= ulps
    return False


def operand_stream(ctx, cases: List[Dict[str, Any]], workers: int = 4):
    staged = []
    for c in cases:
        b, tn = c["backend"], c["template"]
        body_src, src = operand_query(c)
        names = operand_names(c)
        a = build_ast(src, names)
        via = "ast"
        if c.get("qastle"):
            a2 = qastle_roundtrip(a)
            if a2 is not None:
                a, via = a2, "qastle"
        r = run_query(b, a)
        ctx.check_time()
        case = {"stream": "operand", "backend": b, "template": tn, "via": via, "forms": c["forms"], "consts": [describe(v) for v in c["consts"]], "query": src, "constant_nodes": {n_: repr(v) for n_, v in names.items()}}
        ctx.count(f"operand:backend:{b}")
        ctx.count(f"operand:template:{tn}")
        ctx.count(f"operand:via:{via}")
        for v, f in zip(c["consts"], c["forms"]):
            ctx.count(f"operand:form:{f}:{type(v).__name__}:{'neg' if is_negative(v) else 'nonneg'}")
        ctx.case(["operand", b, tn, c["forms"], case["consts"]], True, {"backend": b, "query": src, "constants": case["constant_nodes"]})
        key = "operand:%s:%s:%s:%s" % (b, tn, ",".join(c["forms"]), ",".join(repr(v) for v in c["consts"]))
        st = {"c": c, "case": case, "key": key, "r": r, "body_src": "lambda j: " + body_src, "names": names}
        staged.append(st)
        if "err" in r:
            ctx.count("operand:impl-error:" + r["err"])
            ctx.violation(key=key, what=f"a query with numeric constants as operands was refused on {b}: {r['err']}: {r.get('msg')} — {src} with {case['constant_nodes']!r}", case=case, observed=r, how="apply_ast_transformations + write_cpp_files on the query of `case`")
            continue
        lb = loop_body(r["files"][BACKENDS[b]["main"]])
        cols = column_decls(b, r["files"])
        if lb is None or len(cols) != 1:
            ctx.disagreement("operand-shape", case, "a range-for over the collection and one column declaration", {"loop": lb is not None, "columns": cols})
            continue
        st["var"], st["body"], st["cols"] = lb[0], lb[1], cols
        # the right-hand side that fills the column, when the whole expression is one C++ expression
        rhs = [m.group(1) for l in lb[1] for m in [re.match(r"^" + re.escape(cols[0][0]) + r" = (.*);$", l, re.S)] if m]
        st["rhs"] = rhs[0] if len(rhs) == 1 else None
    # --- the Lean side: tokenize + parse the emitted expression, compare with the query's; the model's own text
    reqs: List[Dict[str, Any]] = []
    for st in staged:
        if st.get("rhs") is None:
            continue
        ptr = re.search(r"\b" + re.escape(st["var"]) + r"->", "\n".join(st["body"])) is not None
        e = tpl_lean(OPERAND_TEMPLATES[st["c"]["template"]], st["c"]["forms"], st["c"]["consts"], (st["var"], ptr))
        if e is None:
            continue
        st["i"] = len(reqs)
        reqs.append({"op": "exprok", "e": e, "text": cp(st["rhs"])})
        reqs.append({"op": "expr", "e": e})
    ans = ctx.driver(DRIVER, reqs)
    # the tie: the model's text against the implementation's — equal, or (second driver call, only for those that
    # differ) the same expression tree: redundant parentheses and blanks are not what the property talks about
    differ = [st for st in staged if "i" in st and "bad" not in ans[st["i"] + 1] and uncp(ans[st["i"] + 1].get("text") or []) != st["rhs"]]
    same = ctx.driver(DRIVER, [{"op": "exprsame", "a": ans[st["i"] + 1].get("text") or [], "b": cp(st["rhs"])} for st in differ])
    for st, sm in zip(differ, same):
        st["same_tree"] = bool(sm.get("same"))
        ctx.count("operand:tie:" + ("same-tree" if st["same_tree"] else "different"))
    for st in staged:
        if "i" not in st:
            continue
        s_, m_ = ans[st["i"]], ans[st["i"] + 1]
        if "bad" in s_ or "bad" in m_:
            if not any(b_.get("kind") in ("driver", "driver-answer") for b_ in ctx.broken):
                ctx.broken.append({"kind": "driver-answer", "case": st["case"], "answers": [s_, m_]})
            continue
        b = st["c"]["backend"]
        ctx.count("operand:spec:" + ("holds" if s_.get("holds") else "fails"))
        if not s_.get("holds", False):
            ctx.violation(
                key=st["key"],
                what=f"on {b}: `{st['case']['query']}` with the constant node(s) {st['case']['constant_nodes']!r} fills its column with `{st['rhs']}`: {s_.get('why')}",
                case=st["case"],
                observed={"emitted_expression": st["rhs"], "tokens": s_.get("tokens"), "body": st["body"]},
                how="apply_ast_transformations + write_cpp_files on the query of `case`; the right-hand side of the column assignment, tokenized (maximal munch), parsed and compared with the query's expression by the Lean driver (ExprOk)",
            )
        mt = uncp(m_.get("text")) if m_.get("text") is not None else None
        if mt != st["rhs"] and not st.get("same_tree"):
            ctx.disagreement("operand-text", st["case"], mt if mt is not None else m_, st["rhs"])
        elif mt == st["rhs"]:
            ctx.count("operand:tie:same-text")
    # --- g++ as the judge: the loop body compiled and run on the mock objects
    jobs = [(st, obj) for st in staged if "body" in st for obj in MOCK_OBJECTS]
    chunks = [jobs[i : i + 160] for i in range(0, len(jobs), 160)]

    def run_chunk(chunk):
        return run_stored_echo([stored_block(i, st["var"], st["body"], st["cols"], obj) for i, (st, obj) in enumerate(chunk)])

    with concurrent.futures.ThreadPoolExecutor(max_workers=workers) as ex:
        results = list(ex.map(run_chunk, chunks))
    for chunk, res in zip(chunks, results):
        if "compile_error" in res:
            done = set()
            for st, obj in chunk:  # which query? one at a time (rare path)
                if id(st) in done:
                    continue
                done.add(id(st))
                one = run_stored_echo([stored_block(0, st["var"], st["body"], st["cols"], obj)])
                if "compile_error" in one:
                    err = one["compile_error"]
                    first = next((l for l in err.split("\n") if "error" in l), err[:200])
                    ctx.violation(
                        key=st["key"],
                        what=f"g++ rejects the code generated on {st['c']['backend']} for `{st['case']['query']}` with the constant node(s) {st['case']['constant_nodes']!r}: {first.strip()[:200]} — body: {' '.join(st['body'])[:300]}",
                        case=st["case"],
                        observed={"g++": err[:400], "body": st["body"]},
                        how="compile the generated loop body against a mock object with pt(), eta() and zzq()",
                    )
                    break
            continue
        for i, (st, obj) in enumerate(chunk):
            got = res["out"].get(i, [])
            want = operand_value(st["body_src"], st["names"], obj)
            ctx.count("operand:g++:objects")
            if isinstance(want, tuple):
                ctx.count("operand:python-raises:" + want[1])
                continue
            shown = [(ty, shown_number(ty, raw)) for ty, raw in got]
            ulps = 4 if st["c"]["template"] in OPERAND_LIBM else 0
            if len(shown) != 1 or not close_enough(want, shown[0][1], ulps):
                ctx.violation(
                    key=st["key"],
                    what=f"on {st['c']['backend']}: `{st['case']['query']}` with the constant node(s) {st['case']['constant_nodes']!r} on an object with pt()={obj[0]!r}, eta()={obj[1]!r} has the value {want!r}; the generated code, compiled with g++, puts {[f'{ty} {v!r}' for ty, v in shown]} into the column",
                    case=dict(st["case"], object={"pt": obj[0], "eta": obj[1]}),
                    observed={"column_receives": [f"{ty} {v!r}" for ty, v in shown], "query_value": repr(want), "body": st["body"]},
                    how="apply_ast_transformations + write_cpp_files; compile the generated loop body against a mock object; print the column variable",
                )
    ctx.extra_cov["gpp_operand_bodies"] = len(jobs)
    return staged


def operand_case_from_json(case: Dict[str, Any]) -> Dict[str, Any]:
    return {"backend": case["backend"], "template": case["template"], "consts": [value_of(d) for d in case["consts"]], "forms": list(case["forms"]), "qastle": case.get("via") == "qastle"}


# --------------------------------------------------------------------------------------------
# the First() message: the third place a string of the query lands in a C++ string literal (the text of the
# query, with every string constant of it, inside `throw std::runtime_error("…")`)
# --------------------------------------------------------------------------------------------
FIRST_PREFIX = "First() called on an empty sequence ("
FIRST_ANCHOR = "throw std::runtime_error("


def first_message_cases(ctx, n: int) -> List[Dict[str, Any]]:
    rng = ctx.rng
    fixed = ['a"b', "a\\", "a??/", "x\ny", "café \U0001f600", "a'b", 'a\\"b', "???/", "tab\there", ");", '");//']
    out = []
    for i in range(n):
        v = fixed[i] if i < len(fixed) else gen_str(rng, allow_nul=False)[:40]
        if has_surrogate(v):
            v = "x"
        out.append({"backend": list(BACKENDS)[i % 3], "v": v, "qastle": i % 4 == 3})
    return out


def first_message_stream(ctx, cases: List[Dict[str, Any]]):
    staged, reqs = [], []
    for c in cases:
        b, v = c["backend"], c["v"]
        src = f"Select(EventDataset('x'), lambda e: e.{BACKENDS[b]['coll']}(__C__).Select(lambda j: j.pt()).First())"
        a = build_ast(src, {"__C__": v})
        via = "ast"
        if c.get("qastle"):
            a2 = qastle_roundtrip(a)
            if a2 is not None:
                a, via = a2, "qastle"
        r = run_query(b, a)
        ctx.check_time()
        case = {"stream": "first-message", "backend": b, "via": via, "const": describe(v), "query": src}
        ctx.count(f"first-message:backend:{b}")
        ctx.case(["first-message", b, describe(v)], nontrivial_const(v), {"backend": b, "bank": v})
        key = f"first-message:{b}:{v!r}"
        if "err" in r:
            ctx.violation(key=key, what=f"a First() query over the bank {v!r} was refused on {b}: {r['err']}: {r.get('msg')}", case=case, observed=r, how="apply_ast_transformations + write_cpp_files on the query of `case`")
            continue
        lines = [l.rstrip(" ") for l in r["files"][BACKENDS[b]["main"]].split("\n") if FIRST_ANCHOR in l]
        if len(lines) != 1:
            ctx.disagreement("first-message-line", case, "one line with " + FIRST_ANCHOR, lines)
            continue
        text = lines[0][lines[0].index(FIRST_ANCHOR) + len(FIRST_ANCHOR):]
        staged.append((c, case, key, lines[0], len(reqs)))
        reqs += [{"op": "lexstr", "text": cp(text), "tri": False}, {"op": "lexstr", "text": cp(text), "tri": True}]
    ans = ctx.driver(DRIVER, reqs)
    lits = []
    for c, case, key, line, i in staged:
        a0, a1 = ans[i], ans[i + 1]
        if "bad" in a0 or "bad" in a1:
            continue
        m0, m1, rest = uncp(a0.get("v")), uncp(a1.get("v")), uncp(a0.get("rest"))
        ok = m0 is not None and m0 == m1 and rest == ");" and m0.startswith(FIRST_PREFIX) and m0.endswith(")")
        ctx.count("first-message:spec:" + ("holds" if ok else "fails"))
        if not ok:
            ctx.violation(
                key=key,
                what=f"on {c['backend']}: the line `{line.strip()}` generated for First() over the bank {c['v']!r} is not `throw std::runtime_error(<one string literal with the message>);` — read with C++17 lexing the literal denotes {m0!r}, with trigraph replacement {m1!r}, followed by {rest!r}",
                case=case,
                observed={"line": line, "message": m0, "message_with_trigraphs": m1, "rest": rest},
                how="apply_ast_transformations + write_cpp_files on the query of `case`; lex the text after `throw std::runtime_error(` (Lean lexer, both dialects)",
            )
            continue
        if repr(c["v"]) not in m0:  # the message is the text of the query: the bank name is in it as Python writes it
            ctx.disagreement("first-message-content", case, "the message quotes the bank name as " + repr(c["v"]), m0)
        lits.append((m0, line[line.index(FIRST_ANCHOR) + len(FIRST_ANCHOR): -2], c, case, key))
    # g++ (both dialects) on the literals
    for std in (None, "c++14"):
        if not lits:
            break
        res = run_echo([("S", lit) for _, lit, _, _, _ in lits], std)
        label = std or "default"
        if "compile_error" in res:
            for m0, lit, c, case, key in lits:
                one = run_echo([("S", lit)], std)
                if "compile_error" in one:
                    ctx.violation(key=key, what=f"g++ ({label}) rejects the message literal `{lit}` of the First() check generated on {c['backend']} for the bank {c['v']!r}", case=case, observed=one["compile_error"][:300], how="compile the literal of the generated throw statement")
                    break
            continue
        for k, (m0, lit, c, case, key) in enumerate(lits):
            ctx.count(f"first-message:g++:{label}")
            if res["out"].get(k) != ("S", m0.encode("utf-8")):
                ctx.violation(key=key, what=f"compiled with g++ ({label}), the message literal `{lit}` of the First() check ({c['backend']}, bank {c['v']!r}) is {res['out'].get(k)}, the Lean lexer reads {m0!r}", case=case, observed=str(res["out"].get(k)), how="compile the literal of the generated throw statement")


# --------------------------------------------------------------------------------------------
# known findings / fixed defects: replayed on every run
# --------------------------------------------------------------------------------------------
def run_lockstep(ctx, gens: List[Any]) -> List[Any]:
    """Run generators that yield lists of driver requests and receive the answers; one driver call per round for all."""
    results: List[Any] = [None] * len(gens)
    pending: Dict[int, List[Dict[str, Any]]] = {}
    for i, g in enumerate(gens):
        try:
            pending[i] = next(g)
        except StopIteration as st:
            results[i] = st.value
    while pending:
        order = list(pending)
        reqs: List[Dict[str, Any]] = []
        spans = {}
        for i in order:
            spans[i] = (len(reqs), len(pending[i]))
            reqs += pending[i]
        ans = ctx.driver(DRIVER, reqs)
        nxt: Dict[int, List[Dict[str, Any]]] = {}
        for i in order:
            o, k = spans[i]
            try:
                nxt[i] = gens[i].send(ans[o : o + k])
            except StopIteration as st:
                results[i] = st.value
        pending = nxt
    return results


def entry_steps(ctx, e: Dict[str, Any]):
    """Generator (see run_lockstep). Result: None if the Spec holds on the entry's input now, else a description."""
    inp = e["input"]
    kind = inp["kind"]
    fails: List[Dict[str, Any]] = []
    if kind == "const":
        v = value_of(inp["const"])
        rs = [(b, impl_const(v, b)) for b in BACKENDS]
        ans = yield [{"op": "spec", "c": const_json(v), "out": out_json(r)} for _, r in rs]
        for (b, r), s in zip(rs, ans):
            if not s.get("holds", False):
                fails.append({"backend": b, "observed": r, "why": s.get("why", s)})
        return {"fails": fails} if fails else None
    if kind == "position":
        v = value_of(inp["const"])
        pos = inp["position"]
        found = []
        for b in BACKENDS:
            a = build_ast(POSITIONS[pos]["src"].replace("COLL", BACKENDS[b]["coll"]), {"__C__": v})
            r = run_query(b, a)
            if "err" in r:
                fails.append({"backend": b, "observed": r})
                continue
            f = find_constant_text(b, pos, r["files"])
            if f is None:
                fails.append({"backend": b, "observed": "constant not found in the generated file"})
                continue
            found.append((b, r, f))
        ans = yield [{"op": "at", "c": const_json(v), "text": cp(f[1]), "prev": ord(f[0])} for _, _, f in found]
        second = []
        for (b, r, f), at in zip(found, ans):
            after = BANK_ANCHOR[b][1] if pos == "bank" else POSITIONS[pos]["after"]
            rest = uncp(at.get("rest"))
            if rest is None or not rest.startswith(after):
                fails.append({"backend": b, "line": f[2].strip()})
            elif pos == "column":
                ty = declared_type(b, r["files"])
                text = f[1][:-1] if f[1].endswith(";") else f[1]
                second.append((b, ty, text))
            elif inp.get("level") == "cstr" and type(v) is str and "\0" in v:
                # what the callee receives through `const char*`: g++ decides
                lit = f[1][: len(f[1]) - len(rest)]
                g = run_echo([("C", lit)])
                n = g.get("out", {}).get(0)
                if n is not None and n[1] != len(v.encode("utf-8")):
                    fails.append({"backend": b, "line": f[2].strip(), "callee_receives_bytes": n[1], "string_has_bytes": len(v.encode("utf-8"))})
        if second:
            ans2 = yield [{"op": "spec", "c": const_json(v), "out": {"ok": {"text": cp(text), "ty": ty or "?"}}} for _, ty, text in second]
            for (b, ty, text), s2 in zip(second, ans2):
                if not s2.get("holds", False):
                    f = {"backend": b, "declared": ty, "assigned": text, "why": s2.get("why", s2)}
                    if b == "atlas" and ty and re.match(r"^[A-Za-z_][\w ]*$", ty):  # g++ on the generated line: what the column holds
                        g = run_line_echo(["{ IDX = 0; %s _col10;\n_col10 = %s;\nshow(_col10); }\n" % (ty, text)])
                        got = g.get("out", {}).get(0)
                        if got and got[0] == "N" and got[1] == "int":
                            f["g++: the column holds"] = int.from_bytes(got[2], "little", signed=True)
                    fails.append(f)
        return {"fails": fails} if fails else None
    if kind == "names":
        tree, names = uncp(inp["tree"]), [uncp(x) for x in inp["names"]]
        live = []
        for b in BACKENDS:
            coll = BACKENDS[b]["coll"]
            src = f"ResultTTree(Select(SelectMany(EventDataset('x'), lambda e: e.{coll}('J')), lambda j: (j.pt(), j.eta())), [__N1__, __N2__], __T__, 'f.root')"
            r = run_query(b, build_ast(src, {"__N1__": names[0], "__N2__": names[1], "__T__": tree}))
            if "err" in r:
                continue  # refused: what the property asks for a name that cannot be written
            il = extract_book_lines(b, r["files"][BACKENDS[b]["main"]])
            leaves = list(zip(names, il["vars"] + ["?", "?"]))[:2]
            live.append((b, il, leaves))
        reqs, spans = [], []
        for b, il, leaves in live:
            rq = book_requests(b, tree, leaves)
            spans.append((len(reqs), len(rq)))
            reqs += rq
        ans = yield reqs
        reqs2, want = [], []
        for (b, il, leaves), (o, k) in zip(live, spans):
            a = ans[o : o + k]
            if any("bad" in x for x in a):
                continue
            model = compose_book(a[:-1], a[-1], leaves)
            for which in ("book", "fill"):
                for j, m in enumerate(model[which]):
                    if m["slot"] is not None and j < len(il[which]):
                        reqs2.append({"op": "nameat", "off": m["slot"]["off"], "line": cp(il[which][j])})
                        want.append((b, tree if m["slot"]["kind"] == "tree" else m["name"], il[which][j]))
        ans2 = yield reqs2
        for (b, w, line), a in zip(want, ans2):
            if uncp(a.get("v")) != w:
                fails.append({"backend": b, "line": line, "literal_denotes": uncp(a.get("v")), "name": w})
        return {"fails": fails} if fails else None
    if kind == "stored":
        ks = [carrier_unjson(k) for k in inp["exprs"]]
        consts = [v for k in ks for v in carrier_consts(k)]
        found = []
        for b in BACKENDS:
            src, names = stored_query(b, inp["layout"], ks)
            r = run_query(b, build_ast(src, names))
            if "err" in r:
                continue  # refused: what the property asks for a constant that cannot be rendered
            lb, cols = loop_body(r["files"][BACKENDS[b]["main"]]), column_decls(b, r["files"])
            ps = literal_paths(lb[1], dict(cols)) if lb is not None else None
            if ps is not None:
                ps = [p_ for n_, _ in cols for p_ in ps if p_["col"] == n_]
            if ps is None or len(ps) != len(consts):
                fails.append({"backend": b, "observed": "accepted; the assignments of the constants were not found in the generated loop body", "body": lb[1] if lb else None})
                continue
            found.append((b, ps, lb, cols))
        ans = yield [{"op": "stored", "c": const_json(v), "text": cp(p_["text"]), "chain": p_["chain"]} for _, ps, _, _ in found for v, p_ in zip(consts, ps)]
        o = 0
        for b, ps, lb, cols in found:
            bad = [(v, p_, a) for v, p_, a in zip(consts, ps, ans[o : o + len(ps)]) if not a.get("holds", False)]
            o += len(ps)
            if bad:
                f = {"backend": b, "assigned": [p_["text"] for _, p_, _ in bad], "types_on_the_way": bad[0][1]["chain"], "why": bad[0][2].get("why", bad[0][2]), "body": lb[1]}
                if b == "atlas":  # g++ on the generated loop body
                    g = run_stored_echo([stored_block(0, lb[0], lb[1], [], MOCK_OBJECTS[0])] if any(type(v) is str for v in consts) else [stored_block(0, lb[0], lb[1], cols, MOCK_OBJECTS[0])])
                    f["g++"] = (g["compile_error"].split("error:")[1][:160].strip() if "error:" in g.get("compile_error", "") else "rejects the body") if "compile_error" in g else "compiles"
                fails.append(f)
        return {"fails": fails} if fails else None
    if kind == "trigraph":
        v = uncp(inp["cp"])
        r = impl_const(v)
        if "ok" not in r:
            return None
        (lx,) = yield [{"op": "lexstr", "text": cp(r["ok"]["text"]), "tri": True}]
        if uncp(lx.get("v")) == v and not lx.get("rest"):
            return None
        g = run_echo([("S", r["ok"]["text"])], "c++14")
        gpp = "compile error" if "compile_error" in g else repr(g["out"].get(0))
        if "out" in g and g["out"].get(0) == ("S", v.encode("utf-8")):
            return None  # g++ disagrees with the model: not reproduced
        return {"fails": [{"emitted": r["ok"]["text"], "lean_trigraph_lexer": uncp(lx.get("v")), "g++ -std=c++14": gpp}]}
    raise ValueError("unknown finding kind " + kind)


def replay_entry(ctx, e: Dict[str, Any]) -> Optional[Dict[str, Any]]:
    return run_lockstep(ctx, [entry_steps(ctx, e)])[0]


def findings_stream(ctx):
    known, fixed = ctx.known_entries("known"), ctx.known_entries("fixed")
    res = run_lockstep(ctx, [entry_steps(ctx, e) for e in known + fixed])
    for e, f in zip(known, res[: len(known)]):
        ctx.count("known-findings-replayed")
        if f is not None:
            ctx.violation(key=e["key"], what=e["what"], case=e["input"], observed=f, how="replay of a listed finding")
        else:
            ctx.count("known-findings-no-longer-failing")
    for e, f in zip(fixed, res[len(known) :]):
        ctx.count("fixed-defects-replayed")
        if f is not None:
            ctx.violation(key="regressed:" + e["key"], what="REGRESSION of a repaired defect: " + e["what"], case={"stream": "finding", **e["input"]}, observed=f, how="replay of the input of a fixed defect (commit %s)" % e.get("commit"))


# --------------------------------------------------------------------------------------------
# entry points
# --------------------------------------------------------------------------------------------
def books_batch(ctx, cases: List[Dict[str, Any]]):
    """recorded book cases, all in three driver calls"""
    jobs = [(c["backend"], uncp(c["tree"]), [(uncp(n_), x) for n_, x in c["leaves"]]) for c in cases]
    reqs, where = [], []
    for c, (b, tree, leaves), model in zip(cases, jobs, model_books(ctx, jobs)):
        impl = impl_book(b, tree, leaves)
        if model is None or "err" in impl:
            continue
        r, w = book_compare(ctx, c, b, tree, impl, model, "book")
        reqs += r
        where += w
    book_judge(ctx, where, ctx.driver(DRIVER, reqs))


def corpus_stream(ctx):
    from vlib import corpus_cases

    cs = corpus_cases(ID)
    ctx.count("corpus", len(cs))
    units = [(value_of(c["const"]), c.get("backend", "atlas")) for c in cs if c.get("stream") == "unit"]
    if units:
        unit_stream(ctx, units, label="corpus")
    pipes = [{"backend": c["backend"], "pos": c["position"], "v": value_of(c["const"]), "qastle": c.get("via") == "qastle"} for c in cs if c.get("stream") == "pipeline"]
    if pipes:
        pipeline_stream(ctx, pipes)
    books = [c for c in cs if c.get("stream") == "book"]
    if books:
        books_batch(ctx, books)
    stored = [stored_case_from_json(c) for c in cs if c.get("stream") == "stored"]
    if stored:
        stored_stream(ctx, stored, 2)
    operands = [operand_case_from_json(c) for c in cs if c.get("stream") == "operand"]
    if operands:
        operand_stream(ctx, operands, 2)
    for c in cs:
        if c.get("stream") not in ("unit", "pipeline", "book", "stored", "operand"):
            run_case(ctx, c, report=True)


def run_case(ctx, case: Dict[str, Any], report: bool) -> int:
    """re-run one recorded case (corpus / replay); returns 1 if the Spec fails on it now"""
    st = case.get("stream")
    before = len(ctx.violations) + len(ctx.known_hits)
    if st in ("unit",):
        unit_stream(ctx, [(value_of(case["const"]), case.get("backend", "atlas"))], label="replay")
    elif st == "pipeline":
        pipeline_stream(ctx, [{"backend": case["backend"], "pos": case["position"], "v": value_of(case["const"]), "qastle": case.get("via") == "qastle"}])
    elif st == "book":
        b, tree, leaves = case["backend"], uncp(case["tree"]), [(uncp(n), x) for n, x in case["leaves"]]
        model = model_book_lines(ctx, b, tree, leaves)
        impl = impl_book(b, tree, leaves)
        if model is not None and "err" not in impl:
            check_book_lines(ctx, case, b, tree, leaves, impl, model, "book")
    elif st == "names":
        f = replay_entry(ctx, {"input": {"kind": "names", "tree": case["tree"], "names": case["names"]}})
        if f is not None:
            ctx.violation(key=f"names:{case['backend']}:replay", what="names are not carried as string literals", case=case, observed=f)
    elif st == "echo":
        v = value_of(case["const"])
        echo_stream(ctx, [{"v": v, "impl": impl_const(v)}], 1, 1)
    elif st == "stored":
        stored_stream(ctx, [stored_case_from_json(case)], 1)
    elif st == "operand":
        operand_stream(ctx, [operand_case_from_json(case)], 1)
    elif st == "first-message":
        first_message_stream(ctx, [{"backend": case["backend"], "v": value_of(case["const"]), "qastle": case.get("via") == "qastle"}])
    elif st == "finding" or "kind" in case:
        f = replay_entry(ctx, {"input": case})
        if f is not None:
            ctx.violation(key="replay:" + json.dumps(case, sort_keys=True, default=str)[:80], what="the recorded input still fails", case=case, observed=f)
    return 1 if len(ctx.violations) + len(ctx.known_hits) > before else 0


def _tick(ctx, label: str):
    import time

    now = time.time()
    ctx.extra_cov.setdefault("phase_seconds", {})[label] = round(now - getattr(ctx, "_c18_t", ctx.t0), 1)
    ctx._c18_t = now


def run(ctx):
    logging.disable(logging.WARNING)
    _tick(ctx, "translate+build+audit")
    sys.set_int_max_str_digits(0) if hasattr(sys, "set_int_max_str_digits") else None
    thorough = ctx.tier == "thorough"
    workers = min(12, os.cpu_count() or 4)
    findings_stream(ctx)
    corpus_stream(ctx)
    _tick(ctx, "findings+corpus")
    ctx.check_time()
    # unit stream: the six constants of the repo's tests first, then generated ones
    prelude = ['say "hi"\\n', -1234567890, 1.5e-07, float("inf"), "caf\u00e9 \U0001f600?", 1.7976931348623157e308, None]
    consts: List[Tuple[Any, str]] = [(v, "atlas") for v in prelude] + [(v, b) for b in BACKENDS for v in ["hi", 1, 1.5, True, False, ""] + INT_EDGES + FLOAT_EDGES + ['a"b', "a\\b", "a\nb", "??/", "\0", "\u00e9", "\U0001f600"]]
    consts += [(q, list(BACKENDS)[i % 3]) for i, q in enumerate(q_runs())]
    n_unit = 60000 if thorough else 6000
    backs = list(BACKENDS)
    for i in range(n_unit):
        consts.append((gen_const(ctx.rng), backs[0] if i % 4 else backs[1 + (i // 4) % 2]))
    recs = unit_stream(ctx, consts)
    _tick(ctx, "unit")
    ctx.check_time()
    staged = pipeline_stream(ctx, qrun_pipeline_cases(400 if thorough else 72) + pipeline_cases(ctx, 6000 if thorough else 240))
    _tick(ctx, "pipeline")
    line_echo_stream(ctx, staged, 2400 if thorough else 100, workers)
    _tick(ctx, "g++ line echo")
    ctx.check_time()
    stored_stream(ctx, gen_stored_cases(ctx, 900 if thorough else 72), workers)
    _tick(ctx, "stored")
    ctx.check_time()
    operand_stream(ctx, gen_operand_cases(ctx, 1000 if thorough else 190), workers)
    _tick(ctx, "operand")
    first_message_stream(ctx, first_message_cases(ctx, 240 if thorough else 33))
    _tick(ctx, "first-message")
    ctx.check_time()
    book_stream(ctx, 9000 if thorough else 600)
    _tick(ctx, "book")
    names_pipeline_stream(ctx, 1500 if thorough else 90)
    names_echo(ctx, 3000 if thorough else 300)
    _tick(ctx, "names")
    ctx.check_time()
    echo_stream(ctx, recs, 12000 if thorough else 700, workers)
    _tick(ctx, "g++ echo")
    lexer_validation(ctx, thorough)
    _tick(ctx, "lexer validation")
    if ctx.violations:  # minimise the failing input that will be written to the replay file
        first = shrink(ctx, ctx.violations[0])
        ctx.violations[0] = first
    ctx.extra_cov["exhaustive"] = False
    ctx.extra_cov["exhaustive_part"] = "as_cpp_string_literal on every single Unicode scalar value (1,112,064 characters) when regenerating the escape table; the booking/fill emitters of all three backends on sentinel names"
    ctx.extra_cov["populations"] = {
        "operand_expressions": "every generated operand expression is inside the hypotheses of operand_tokens (well-formed constants, identifiers)",
        "inside_theorem_hypotheses": "every generated case: strings (all, compiled under both dialects), ints in the 32-bit range, finite floats, bools, refusals, names (all), operands of either sign after a minus, strings as bare columns and as (refused) arms of conditionals",
        "outside (defect exclusions)": "exercised only through the listed known findings: ints outside 32 bit, NUL through const char*",
    }


def search(ctx, broken):
    """Larger sweep with the Spec on the implementation's output as the only judge; shrink the hit."""
    saved_v, saved_b = list(ctx.violations), list(ctx.broken)
    ctx.violations = []
    try:
        consts = [(gen_const(ctx.rng), list(BACKENDS)[i % 3]) for i in range(20000)]
        # targeted: every character the regenerated escape table has a row for (what a broken table theorem is about),
        # every character of the special alphabet alone and doubled, every edge number
        consts += [(q, list(BACKENDS)[i % 3]) for i, q in enumerate(q_runs())]
        for c_, _img in _LINES_CACHE.get("rows", [])[:2000]:
            consts += [(chr(c_), "atlas"), ("a" + chr(c_) + "b", "cms_aod")]
        for b in BACKENDS:
            for ch in SPECIAL + CONTROL + WIDE + ["\0"]:
                consts += [(ch, b), (ch + ch, b), ("a" + ch + "b", b)]
            consts += [(v, b) for v in INT_EDGES + FLOAT_EDGES + [True, False]]
        unit_stream(ctx, consts, label="search")
        if not ctx.violations:
            pipeline_stream(ctx, qrun_pipeline_cases(400) + pipeline_cases(ctx, 900))
        if not ctx.violations:
            stored_stream(ctx, gen_stored_cases(ctx, 300), 8)
        if not ctx.violations:
            operand_stream(ctx, gen_operand_cases(ctx, 600), 8)
        if not ctx.violations:
            first_message_stream(ctx, first_message_cases(ctx, 200))
        if not ctx.violations:
            book_stream(ctx, 1500)
            names_pipeline_stream(ctx, 150)
        if not ctx.violations:
            recs = [{"v": v, "impl": impl_const(v, b)} for v, b in consts[:1500]]
            echo_stream(ctx, recs, 1500, 8)
        if not ctx.violations:
            return None
        hit = min(ctx.violations, key=lambda v: len(json.dumps(v["case"], default=str)))
        hit = shrink(ctx, hit)
        return {"key": hit["key"], "what": hit["what"], "case": hit["case"], "observed": hit["observed"], "replay_how": hit.get("replay_how")}
    finally:
        ctx.violations = saved_v
        ctx.broken = saved_b + [b for b in ctx.broken if b not in saved_b][:0]


def shrink(ctx, hit):
    """strings: delete characters while the same stream still fails on the case (counters and findings untouched)"""
    case = hit["case"]
    if case.get("stream") == "stored":
        return shrink_stored(ctx, hit)
    if case.get("stream") not in ("unit", "pipeline") or case.get("const", {}).get("kind") != "str":
        return hit
    saved = (ctx.violations, ctx.broken, ctx.dist, ctx.evaluations, ctx.nontrivial_keys, ctx.samples)
    ctx.broken, ctx.dist, ctx.nontrivial_keys, ctx.samples = [], {}, set(), []
    try:
        s = uncp(case["const"]["cp"])
        changed = True
        rounds = 0
        while changed and len(s) > 1 and rounds < 60:
            changed = False
            rounds += 1
            for i in range(len(s)):
                t = s[:i] + s[i + 1 :]
                c2 = dict(case, const=describe(t))
                ctx.violations = []
                run_case(ctx, c2, report=False)
                if ctx.violations:
                    s, case, hit = t, c2, ctx.violations[0]
                    changed = True
                    break
        return hit
    finally:
        ctx.violations, ctx.broken, ctx.dist, ctx.evaluations, ctx.nontrivial_keys, ctx.samples = saved


def shrink_stored(ctx, hit):
    """a failing query selecting between constants: the smallest conditional inside it that fails alone"""
    case = hit["case"]

    def subs(k):
        return [] if "c" in k else [k] + subs(k["ite"][1]) + subs(k["ite"][2])

    cands = sorted((k for e in case["exprs"] for k in subs(e)), key=lambda k: len(json.dumps(k)))
    whole = len(json.dumps(case["exprs"]))
    saved = (ctx.violations, ctx.broken, ctx.dist, ctx.evaluations, ctx.nontrivial_keys, ctx.samples, dict(ctx.extra_cov))
    ctx.broken, ctx.dist, ctx.nontrivial_keys, ctx.samples = [], {}, set(), []
    try:
        for k in cands[:8]:
            if len(json.dumps([k])) >= whole:
                break
            ctx.violations = []
            stored_stream(ctx, [stored_case_from_json(dict(case, layout="single", exprs=[k]))], 1)
            if ctx.violations:
                return ctx.violations[0]
        return hit
    finally:
        ctx.violations, ctx.broken, ctx.dist, ctx.evaluations, ctx.nontrivial_keys, ctx.samples = saved[:6]
        ctx.extra_cov.clear()
        ctx.extra_cov.update(saved[6])


def replay(ctx, rep) -> int:
    logging.disable(logging.WARNING)
    case = rep["case"]
    print("replaying:", json.dumps(case, ensure_ascii=False, default=str)[:600])
    rc = run_case(ctx, case, report=True)
    for v in ctx.violations:
        print("STILL FAILS:", v["what"])
        print("  observed:", json.dumps(v["observed"], ensure_ascii=False, default=str)[:600])
    for k in ctx.known_hits:
        print("still fails (listed finding):", k)
    if rc == 0:
        print("the Spec holds on this input now")
    return rc


LEVEL_TEXT = (
    "Machine-checked proof (Lean 4) about an executable model of visit_Constant / as_cpp_string_literal and of the lines in "
    "which names land, against a Lean lexer for C++ literals: for EVERY string the emitted literal denotes the string character "
    "for character, under C++17 lexing and under pre-C++17 lexing with trigraph replacement (by induction over the characters, over the escape table regenerated from the source on this run); every "
    "text of the grammar of repr(float) is a C++ double literal of the same exact decimal value; ints of the 32-bit range, "
    "bools, refusals of inf/nan and unsupported kinds; bank names in any surrounding text; ALL tree/branch names in the "
    "regenerated booking lines of all three backends; every numeric constant that reaches a column through conditional expressions "
    "of any depth keeps its value through the conversions on the way (carrier_stored_ok); a constant AS AN OPERAND: for every operand expression "
    "(method calls, constants, unary and binary operators, **, comparisons, any depth) the text the translator writes is lexed by maximal munch into exactly the tokens it was built from "
    "(operand_tokens — no juxtaposition forms `--`, `++`, `->`, `-=` …), parsed with C++ precedence into exactly the intended tree (operand_parse) which is the query's expression with every constant denoted by its literal and every `/` a floating division (exprok_model_partial: the decidable Spec ExprOk holds of the model's text for ALL operand expressions), every constant text is ContextSafe after every operator of the translator's operator tables regenerated from "
    "the source (const_context_safe), the type of a decimal integer literal at every magnitude (int_literal_type); in an abstract integer grid model of binary64, 17 significant digits "
    "always round-trip and 15 do not (seventeen_digits_round_trip, fifteen_digits_do_not), with kernel-decided witnesses on the real rounding oracle. Where the code violates the property the negation is proved on a "
    "literal (int 3000000000, 2^64, NUL through const char*) and replayed on the real code; repaired "
    "defects (unescaped strings and names, inf/nan, trigraphs, a negative constant directly after '-', a string arm of a conditional expression) are replayed on every run as regressions. "
    "The model is tied to the code on every run by regenerated tables, by differential execution on thousands of constants "
    "through the real visitors and the real pipeline of all three backends, and the emitted literals are compiled with g++ "
    "and compared bit for bit."
)
LEVEL_NOTE = (
    "Theorem: all strings (both lexing dialects) / all finite repr texts / all ints in [-2^31, 2^31) / all tree, branch and bank names. "
    "Sampled only: that the hand model equals the Python (differential execution), that repr(x) rounds to x (exact check per "
    "sample), that the Lean lexer equals g++'s (echo program). Excluded by explicit hypotheses and listed as findings: ints "
    "outside 32 bit, NUL through const char*. "
    "Operands: operand_tokens (tokenization), operand_parse (precedence parser) and exprok_model_partial (the whole Spec ExprOk on the model's text) are universal over operand expressions of any depth; partial only in int constants outside 32 bit (the listed finding; exprok_int_counterexample) and the loop variable not being the keyword static_cast. On the implementation's text ExprOk is evaluated per case. "
    "Digits: the 17-digit theorem is about an abstract grid model (integers scaled by a common factor); it is tied to the rounding oracle by roundsTo_of_grid / seventeen_digits_roundsTo for every finite non-zero double that is not a binade boundary (there: witnesses only). "
    "Stored constants: the theorem is about the model's conversion chains; that the generated code has these chains is sampled (chain read off the loop body + g++ run)."
)
TECHNIQUE = "Lean 4 theorems over a hand model, a Lean lexer of C++ literals and a Lean C++ tokenizer (maximal munch) + tables regenerated from the source + correspondence check against visit_Constant / the pipeline of all three backends + g++ echo of the emitted literals and g++ runs of the generated loop bodies"
DESIGN_REF = "DESIGN.md §4 C18"
